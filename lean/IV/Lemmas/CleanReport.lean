import IV.Lemmas.CleanState
import IV.Model.CleanReport
/-! helper lemmas for the report theorems of C09 -/
namespace IV.CleanState

theorem nodup_map_of_inj_on {α β : Type} (f : α → β) (l : List α) (hl : l.Nodup)
    (hf : ∀ a ∈ l, ∀ b ∈ l, f a = f b → a = b) : (l.map f).Nodup := by
  induction l with
  | nil => simp
  | cons x xs ih =>
    rw [List.nodup_cons] at hl
    rw [List.map_cons, List.nodup_cons]
    refine ⟨?_, ih hl.2 (fun a ha b hb => hf a (List.mem_cons_of_mem _ ha) b (List.mem_cons_of_mem _ hb))⟩
    intro hm
    obtain ⟨y, hy, e⟩ := List.mem_map.mp hm
    have := hf y (List.mem_cons_of_mem _ hy) x (by simp) e
    exact hl.1 (this ▸ hy)

theorem splitRow_csvRow (a b : Str) (h : ',' ∉ a) : splitRow (csvRow a b) = some (a, b) := by
  induction a with
  | nil => simp [csvRow, splitRow]
  | cons c cs ih =>
    simp only [List.mem_cons, not_or] at h
    have hne : ¬ c = ',' := fun e => h.1 e.symm
    have := ih h.2
    simp only [csvRow] at this
    simp [csvRow, splitRow, hne, this]

theorem comma_not_in_natStr (n : Nat) : ',' ∉ natStr n := by
  intro h
  have := Nat.isDigit_of_mem_toDigits (b := 10) (by decide) (by decide) h
  simp at this

theorem not_mem_join (c : Char) (sep : Str) (xs : List Str) (hs : c ∉ sep) (hx : ∀ x ∈ xs, c ∉ x) :
    c ∉ join sep xs := by
  induction xs with
  | nil => simp [join]
  | cons x xs ih =>
    cases xs with
    | nil => simpa [join] using hx x (by simp)
    | cons y ys =>
      simp only [join, List.mem_append, not_or]
      exact ⟨⟨hx x (by simp), hs⟩, ih (fun z hz => hx z (List.mem_cons_of_mem _ hz))⟩

theorem comma_not_in_int2ip (n : Nat) : ',' ∉ int2ip n := by
  unfold int2ip
  apply not_mem_join
  · decide
  · intro x hx
    simp only [List.mem_cons, List.not_mem_nil, or_false] at hx
    rcases hx with rfl | rfl | rfl | rfl <;> exact comma_not_in_natStr _

theorem comma_not_in_counterName (n : Nat) : ',' ∉ counterName n obfDomain := by
  intro h
  unfold counterName obfDomain at h
  simp only [List.mem_append] at h
  rcases h with ((h | h) | h) | h
  · simp at h
  · exact comma_not_in_natStr n h
  · simp at h
  · simp at h

theorem comma_not_in_sysSub (E : Env) (cfg : Cfg) (hE : HexDigest E) : ',' ∉ sysSub E cfg := by
  intro h
  simp only [sysSub, List.mem_append] at h
  rcases h with h | h
  · have := hE _ _ (List.mem_of_mem_take h)
    simp at this
  · simp at h

theorem comma_not_in_hostKeys (E : Env) (cfg : Cfg) (hE : HexDigest E) (cnt : Nat) :
    ∀ k ∈ hostKeys E cfg cnt, ',' ∉ k := by
  intro k hk
  simp only [hostKeys, List.mem_append, List.mem_map] at hk
  rcases hk with ⟨p, hp, rfl⟩ | ⟨n, _, rfl⟩
  · unfold initSt at hp
    split at hp
    · simp only [List.mem_singleton] at hp
      subst hp
      exact comma_not_in_sysSub E cfg hE
    · simp at hp
  · exact comma_not_in_counterName n

end IV.CleanState
