import IV.Model.Paths
/-!
Helper lemmas for C06 (core Lean only).
-/
namespace IV.Paths

/-! ### prefix facts -/

theorem startsWith_iff (s p : Str) : startsWith s p = true ↔ p <+: s := by
  simp [startsWith]

theorem renderNE_cons (n : Str) (ns : List Str) : renderNE (n :: ns) = '/' :: n ++ renderNE ns := by
  simp [renderNE]

theorem renderNE_append (a b : List Str) : renderNE (a ++ b) = renderNE a ++ renderNE b := by
  simp [renderNE]

/-- rendered list followed by the sentinel '/' -/
def R (ns : List Str) : Str := renderNE ns ++ ['/']

theorem R_cons (n : Str) (ns : List Str) : R (n :: ns) = '/' :: n ++ R ns := by
  simp [R, renderNE_cons]

theorem R_head (ns : List Str) : ∃ t, R ns = '/' :: t := by
  cases ns with
  | nil => exact ⟨[], rfl⟩
  | cons n ns => exact ⟨n ++ R ns, by rw [R_cons]; rfl⟩

/-- two names without '/', each followed by something that starts with '/': a prefix relation forces equal names -/
theorem name_prefix_eq (n m X Y : Str) (hn : '/' ∉ n) (hm : '/' ∉ m)
    (h : n ++ '/' :: X <+: m ++ '/' :: Y) : n = m := by
  induction n generalizing m with
  | nil =>
    cases m with
    | nil => rfl
    | cons d m' =>
      simp only [List.nil_append, List.cons_append] at h
      have := List.cons_prefix_cons.mp h
      exact absurd this.1.symm (by intro e; exact hm (by simp [e]))
  | cons c n' ih =>
    cases m with
    | nil =>
      simp only [List.nil_append, List.cons_append] at h
      have := List.cons_prefix_cons.mp h
      exact absurd this.1 (by intro e; exact hn (by simp [e]))
    | cons d m' =>
      simp only [List.cons_append] at h
      have := List.cons_prefix_cons.mp h
      have e := ih m' (by intro x; exact hn (by simp [x])) (by intro x; exact hm (by simp [x])) this.2
      rw [this.1, e]

/-- the string-level core of `accept_sound` (DESIGN A.7) -/
theorem R_prefix_iff (r p : List Str) (hr : ∀ n ∈ r, ValidName n) (hp : ∀ n ∈ p, ValidName n) :
    R r <+: R p ↔ r <+: p := by
  induction r generalizing p with
  | nil =>
    obtain ⟨t, ht⟩ := R_head p
    simp [R, renderNE] at ht ⊢
    rw [ht]; simp
  | cons n r' ih =>
    cases p with
    | nil =>
      have hv := hr n (by simp)
      constructor
      · intro h
        rw [R_cons] at h
        simp only [R, renderNE, List.flatMap_nil, List.nil_append, List.cons_append] at h
        have := List.cons_prefix_cons.mp h
        have h2 := this.2
        have : n ++ R r' = [] := List.prefix_nil.mp h2
        simp at this
        exact absurd this.1 hv.1
      · intro h; simp at h
    | cons m p' =>
      rw [R_cons, R_cons]
      have hvn := hr n (by simp)
      have hvm := hp m (by simp)
      have hr' : ∀ x ∈ r', ValidName x := fun x hx => hr x (by simp [hx])
      have hp' : ∀ x ∈ p', ValidName x := fun x hx => hp x (by simp [hx])
      obtain ⟨tr, htr⟩ := R_head r'
      obtain ⟨tp, htp⟩ := R_head p'
      constructor
      · intro h
        have h1 : n ++ R r' <+: m ++ R p' := by simpa using h
        have e : n = m := by
          rw [htr, htp] at h1
          exact name_prefix_eq n m tr tp hvn.2 hvm.2 h1
        subst e
        have h2 : R r' <+: R p' := (List.prefix_append_right_inj n).mp h1
        have := (ih p' hr' hp').mp h2
        exact List.cons_prefix_cons.mpr ⟨rfl, this⟩
      · intro h
        have := List.cons_prefix_cons.mp h
        obtain ⟨e, h2⟩ := this
        subst e
        have h3 := (ih p' hr' hp').mpr h2
        have : n ++ R r' <+: n ++ R p' := (List.prefix_append_right_inj n).mpr h3
        simpa using this

/-- a prefix of `x ++ [a]` is a prefix of `x` or the whole thing -/
theorem prefix_concat (l x : Str) (a : Char) : l <+: x ++ [a] ↔ l <+: x ∨ l = x ++ [a] := by
  constructor
  · intro ⟨t, ht⟩
    rcases List.eq_nil_or_concat t with rfl | ⟨t', b, rfl⟩
    · right; simpa using ht
    · left
      rw [List.concat_eq_append, ← List.append_assoc] at ht
      have := List.append_inj' ht rfl
      exact ⟨t', this.1⟩
  · rintro (h | h)
    · exact h.trans (List.prefix_append _ _)
    · rw [h]; exact List.prefix_refl _

theorem rstripSep_concat (s : Str) (c : Char) (hc : c ≠ '/') : rstripSep (s ++ [c]) = s ++ [c] := by
  simp [rstripSep, hc]

/-- a non-empty rendered path ends in a character other than '/' -/
theorem renderNE_ends (ns : List Str) (hne : ns ≠ []) (hv : ∀ n ∈ ns, ValidName n) :
    ∃ s c, renderNE ns = s ++ [c] ∧ c ≠ '/' := by
  rcases List.eq_nil_or_concat ns with rfl | ⟨ns', n, rfl⟩
  · exact absurd rfl hne
  · have hn := hv n (by simp)
    rcases List.eq_nil_or_concat n with rfl | ⟨n', c, rfl⟩
    · exact absurd rfl hn.1
    · refine ⟨renderNE ns' ++ '/' :: n', c, ?_, ?_⟩
      · simp [renderNE]
      · intro e; exact hn.2 (by simp [e])

/-! ### splitSep / norm -/

theorem splitSep_ne_nil (s : Str) : splitSep s ≠ [] := by
  induction s with
  | nil => simp [splitSep]
  | cons c cs ih =>
    unfold splitSep
    split
    · simp
    · split <;> simp

theorem splitSep_append_sep (a b : Str) : splitSep (a ++ '/' :: b) = splitSep a ++ splitSep b := by
  induction a with
  | nil => simp [splitSep]
  | cons c a ih =>
    simp only [List.cons_append]
    by_cases hc : c = '/'
    · simp [splitSep, hc, ih]
    · rw [splitSep, if_neg hc, ih]
      conv => rhs; rw [splitSep, if_neg hc]
      cases h : splitSep a with
      | nil => exact absurd h (splitSep_ne_nil a)
      | cons x t => simp

theorem foldl_normStep_prefix (acc : List Str) (cs : List Str) (h : ['.', '.'] ∉ cs) :
    acc <+: cs.foldl normStep acc := by
  induction cs generalizing acc with
  | nil => exact List.prefix_refl _
  | cons c cs ih =>
    simp only [List.foldl_cons]
    have hc : c ≠ ['.', '.'] := by intro e; exact h (by simp [e])
    have hcs : ['.', '.'] ∉ cs := by intro e; exact h (by simp [e])
    have step : acc <+: normStep acc c := by
      unfold normStep
      split
      · exact List.prefix_refl _
      · first | exact List.prefix_append _ _ | (rw [if_neg hc]; exact List.prefix_append _ _)
    exact step.trans (ih _ hcs)

/-! ### collectLoop / firstLoop -/

theorem collectLoop_mem {α : Type} (mk : α → Except Err Prov) (xs : List α) (ps : List Prov)
    (h : collectLoop mk xs = .ok ps) : ∀ p ∈ ps, ∃ x ∈ xs, mk x = .ok p := by
  induction xs generalizing ps with
  | nil => simp [collectLoop] at h; subst h; simp
  | cons x xs ih =>
    unfold collectLoop at h
    split at h
    · cases h
    · intro p hp
      obtain ⟨y, hy, e⟩ := ih ps h p hp
      exact ⟨y, by simp [hy], e⟩
    · rename_i q hq
      split at h
      · rename_i qs hqs
        cases h
        intro p hp
        rcases List.mem_cons.mp hp with rfl | hp'
        · exact ⟨x, by simp, hq⟩
        · obtain ⟨y, hy, e⟩ := ih qs hqs p hp'
          exact ⟨y, by simp [hy], e⟩
      · cases h

theorem foreachLoop_mem (mk : Str → Except Err Prov) (cands : Str → List Str) (tmpl : Str)
    (items : List (List Str)) (ps : List Prov)
    (h : foreachLoop mk cands tmpl items = .ok ps) : ∀ p ∈ ps, ∃ x, mk x = .ok p := by
  induction items generalizing ps with
  | nil => simp [foreachLoop] at h; subst h; simp
  | cons e es ih =>
    unfold foreachLoop at h
    split at h
    · cases h
    · split at h
      · cases h
      · rename_i qs hqs
        split at h
        · rename_i rs hrs
          cases h
          intro p hp
          rcases List.mem_append.mp hp with hp | hp
          · obtain ⟨x, _, hx⟩ := collectLoop_mem _ _ _ hqs p hp
            exact ⟨x, hx⟩
          · exact ih rs hrs p hp
        · cases h

theorem firstLoop_mem (mk : Str → Except Err Prov) (xs : List Str) (ps : List Prov)
    (h : firstLoop mk xs = .ok ps) : ∀ p ∈ ps, ∃ x ∈ xs, mk x = .ok p := by
  induction xs generalizing ps with
  | nil => simp [firstLoop] at h
  | cons x xs ih =>
    unfold firstLoop at h
    split at h
    · rename_i q hq
      cases h
      intro p hp
      simp at hp; subst hp
      exact ⟨x, by simp, hq⟩
    · cases h
    · intro p hp
      obtain ⟨y, hy, e⟩ := ih ps h p hp
      exact ⟨y, by simp [hy], e⟩

theorem nonEmpty_ok (r : Except Err (List Prov)) (ps : List Prov) (h : nonEmpty r = .ok ps) : r = .ok ps := by
  unfold nonEmpty at h
  split at h
  · cases h
  · exact h

/-! ### glue lemmas used by Props/C06 -/

/-- the constructor every file factory uses (simple_file, first_file directly; glob_file and
foreach_collect after cutting the root off the globbed path) -/
def fileCtor (fs : Fs) (ctx : Ctx) (sp : Spec) (p : Prov) : Prop := ∃ arg, mkFile fs ctx sp arg = .ok p

/-- every file provider any factory returns was produced by `mkFile` -/
theorem file_prov_from_mkFile (isWord : Char → Bool) (fs : Fs) (ctx : Ctx) (sp : Spec) (f : Factory)
    (ps : List Prov) (h : f.run isWord fs ctx sp = .ok ps) :
    ∀ p ∈ ps, p.kind = .file → fileCtor fs ctx sp p := by
  intro p hp hk
  have cmdKind : ∀ (sp' : Spec) k c q, mkCmd isWord fs ctx sp' k c = .ok q → q.kind = k := by
    intro sp' k c q hq
    unfold mkCmd at hq
    simp only [] at hq
    split at hq; · cases hq
    split at hq; · cases hq
    · cases hq
    split at hq; · cases hq
    split at hq; · cases hq
    cases hq; rfl
  cases f with
  | simpleFile path =>
    simp only [Factory.run] at h
    cases hm : mkFile fs ctx sp path with
    | error e => simp [hm, Except.map] at h
    | ok q => simp [hm, Except.map] at h; subst h; simp at hp; subst hp; exact ⟨path, hm⟩
  | globFile patterns =>
    simp only [Factory.run] at h
    split at h
    · rename_i qs hqs
      split at h; · cases h
      cases h
      obtain ⟨x, _, hx⟩ := collectLoop_mem _ _ _ (nonEmpty_ok _ _ hqs) p hp
      exact ⟨_, hx⟩
    · cases h
  | firstFile paths =>
    simp only [Factory.run] at h
    obtain ⟨x, _, hx⟩ := firstLoop_mem _ _ _ h p hp
    exact ⟨x, hx⟩
  | foreachCollect tmpl items =>
    simp only [Factory.run] at h
    obtain ⟨x, hx⟩ := foreachLoop_mem _ _ _ _ _ (nonEmpty_ok _ _ h) p hp
    exact ⟨_, hx⟩
  | simpleCommand cmd =>
    simp only [Factory.run] at h
    cases hm : mkCmd isWord fs ctx sp .command cmd with
    | error e => simp [hm, Except.map] at h
    | ok q =>
      simp [hm, Except.map] at h; subst h; simp at hp; subst hp
      have := cmdKind _ _ _ _ hm; rw [this] at hk; cases hk
  | commandWithArgs tmpl args =>
    simp only [Factory.run] at h
    split at h; · cases h
    split at h
    · rename_i q hq
      cases h; simp at hp; subst hp
      have := cmdKind _ _ _ _ hq; rw [this] at hk; cases hk
    · cases h
    · cases h
  | foreachExecute tmpl items =>
    simp only [Factory.run] at h
    obtain ⟨x, _, hx⟩ := collectLoop_mem _ _ _ (nonEmpty_ok _ _ h) p hp
    split at hx
    · have := cmdKind _ _ _ _ hx; rw [this] at hk; cases hk
    · cases hx
  | containerExecute tmpl items =>
    simp only [Factory.run] at h
    obtain ⟨x, _, hx⟩ := collectLoop_mem _ _ _ (nonEmpty_ok _ _ h) p hp
    split at hx
    · have := cmdKind _ _ _ _ hx; rw [this] at hk; cases hk
    · cases hx
  | containerCollect tmpl items =>
    simp only [Factory.run] at h
    obtain ⟨x, _, hx⟩ := collectLoop_mem _ _ _ (nonEmpty_ok _ _ h) p hp
    split at hx
    · have := cmdKind _ _ _ _ hx; rw [this] at hk; cases hk
    · cases hx

theorem mkFile_allowed (fs : Fs) (ctx : Ctx) (sp : Spec) (arg : Str) (p : Prov) (hh : ctx.host = true)
    (h : mkFile fs ctx sp arg = .ok p) : p.load.denied ctx = false := by
  unfold mkFile at h
  simp only [] at h
  split at h; · cases h
  split at h; · cases h
  split at h; · cases h
  split at h; · cases h
  split at h; · cases h
  rename_i hden _ _
  cases h
  simp only [Prov.load, Ev.denied]
  simpa [hh] using hden

theorem mkCmd_allowed (isWord : Char → Bool) (fs : Fs) (ctx : Ctx) (sp : Spec) (k : PKind) (hk : k ≠ .file)
    (c : Str) (p : Prov) (hh : ctx.host = true)
    (h : mkCmd isWord fs ctx sp k c = .ok p) : p.load.denied ctx = false := by
  unfold mkCmd at h
  simp only [] at h
  split at h; · cases h
  split at h; · cases h
  · cases h
  split at h; · cases h
  split at h; · cases h
  rename_i hden
  cases h
  cases k with
  | file => exact absurd rfl hk
  | command => simp only [Prov.load, Ev.denied]; simpa [hh] using hden
  | containerFile => simp only [Prov.load, Ev.denied]; simpa [hh] using hden
  | containerCmd => simp only [Prov.load, Ev.denied]; simpa [hh] using hden

theorem foldl_files_mem (isSpec : Str → Bool) (pre : Str) (xs : List Str) (d : Deny) (f : Str) :
    f ∈ (xs.foldl (fun d f => if isSpec f then { d with disabled := d.disabled ++ [pre ++ f] }
                               else { d with files := d.files ++ [f] }) d).files
    ↔ f ∈ d.files ∨ (f ∈ xs ∧ isSpec f = false) := by
  induction xs generalizing d with
  | nil => simp
  | cons x xs ih =>
    simp only [List.foldl_cons]
    rw [ih]
    by_cases hx : isSpec x = true
    · simp only [hx, if_true, List.mem_cons]
      constructor
      · rintro (h | ⟨h, h2⟩)
        · exact Or.inl h
        · exact Or.inr ⟨Or.inr h, h2⟩
      · rintro (h | ⟨h | h, h2⟩)
        · exact Or.inl h
        · subst h; rw [hx] at h2; cases h2
        · exact Or.inr ⟨h, h2⟩
    · have hx' : isSpec x = false := by simpa using hx
      simp only [hx', Bool.false_eq_true, ↓reduceIte, List.mem_cons, List.mem_append, List.not_mem_nil, or_false]
      constructor
      · rintro ((h | h) | ⟨h, h2⟩)
        · exact Or.inl h
        · subst h; exact Or.inr ⟨Or.inl rfl, hx'⟩
        · exact Or.inr ⟨Or.inr h, h2⟩
      · rintro (h | ⟨h | h, h2⟩)
        · exact Or.inl (Or.inl h)
        · subst h; exact Or.inl (Or.inr rfl)
        · exact Or.inr ⟨h, h2⟩

theorem truthy_some (o : Option Str) (s : Str) : truthy o = some s ↔ o = some s ∧ s ≠ [] := by
  cases o with
  | none => simp [truthy]
  | some x =>
    cases x with
    | nil => simp [truthy]
    | cons c t =>
      constructor
      · intro h; simp only [truthy] at h; cases h; exact ⟨rfl, by simp⟩
      · rintro ⟨h, _⟩; simp only [truthy]; exact h

theorem lstripSep_rel (a : Str) : startsWith (lstripSep a) ['/'] = false := by
  induction a with
  | nil => rfl
  | cons c cs ih =>
    unfold lstripSep at *
    by_cases hc : c = '/'
    · simp only [List.dropWhile, hc, beq_self_eq_true]; exact ih
    · have : (c == '/') = false := by simpa using hc
      simp only [List.dropWhile, this, startsWith, List.isPrefixOf, Bool.and_true]
      simpa using fun h => hc h.symm

theorem join_rel (a b : Str) (ha : a ≠ []) (hra : startsWith a ['/'] = false) (hrb : startsWith b ['/'] = false) :
    startsWith (join a b) ['/'] = false := by
  unfold join
  rw [if_neg (by simp [hrb])]
  cases a with
  | nil => exact absurd rfl ha
  | cons c t =>
    have : c ≠ '/' := by intro e; simp [startsWith, e] at hra
    split <;> simp [startsWith, List.isPrefixOf, this, Ne.symm this]

theorem dropWhile_head {p : Char → Bool} : ∀ (l : Str) (c : Char) (t : Str), l.dropWhile p = c :: t → p c = false := by
  intro l
  induction l with
  | nil => intro c t h; simp at h
  | cons a l ih =>
    intro c t h
    by_cases ha : p a = true
    · simp only [List.dropWhile, ha] at h; exact ih c t h
    · have ha' : p a = false := by simpa using ha
      simp only [List.dropWhile, ha'] at h
      cases h; exact ha'

theorem stripMangle_prefix (s : Str) : stripMangle s <+: s.dropWhile stripSet := by
  unfold stripMangle
  have : ((s.dropWhile stripSet).reverse.dropWhile stripSet) <:+ (s.dropWhile stripSet).reverse :=
    List.dropWhile_suffix _
  have := List.reverse_prefix.mpr this
  simpa using this


/-! ### apply_blacklist on a possibly malformed deny list -/

theorem Deny.le_refl (d : Deny) : d.le d := ⟨fun _ h => h, fun _ h => h, fun _ h => h⟩

theorem Deny.le_trans {a b c : Deny} (h1 : a.le b) (h2 : b.le c) : a.le c :=
  ⟨fun x h => h2.1 x (h1.1 x h), fun x h => h2.2.1 x (h1.2.1 x h), fun x h => h2.2.2 x (h1.2.2 x h)⟩

theorem Deny.has_mono {cmd : Bool} {d d' : Deny} {s : Str} (h : d.le d') (hs : d.has cmd s) : d'.has cmd s := by
  unfold Deny.has at *
  cases cmd
  · rcases hs with hs | hs
    · exact Or.inl (h.1 _ hs)
    · exact Or.inr (h.2.2 _ hs)
  · rcases hs with hs | hs
    · exact Or.inl (h.2.1 _ hs)
    · exact Or.inr (h.2.2 _ hs)

theorem Deny.reg_le (isSpec : Str → Bool) (cmd : Bool) (d : Deny) (s : Str) : d.le (d.reg isSpec cmd s) := by
  unfold Deny.reg Deny.le
  cases hs : isSpec s <;> cases cmd <;> simp <;> intro x hx <;> exact Or.inl hx

theorem Deny.reg_has (isSpec : Str → Bool) (cmd : Bool) (d : Deny) (s : Str) : (d.reg isSpec cmd s).has cmd s := by
  unfold Deny.reg Deny.has
  cases hs : isSpec s <;> cases cmd <;> simp

/-- a successful files / commands loop keeps what was there and registers every string item; no item is `other` -/
theorem blLoop_ok (isSpec : Str → Bool) (cmd : Bool) : ∀ (xs : List Item) (d d' : Deny),
    blLoop isSpec cmd xs d = .ok d' →
    d.le d' ∧ (∀ s, Item.str s ∈ xs → d'.has cmd s) ∧ Item.other ∉ xs := by
  intro xs
  induction xs with
  | nil => intro d d' h; simp [blLoop] at h; subst h; exact ⟨Deny.le_refl _, by simp, by simp⟩
  | cons x xs ih =>
    intro d d' h
    cases x with
    | other => simp [blLoop] at h
    | str t =>
      simp only [blLoop] at h
      obtain ⟨h1, h2, h3⟩ := ih _ _ h
      refine ⟨Deny.le_trans (Deny.reg_le isSpec cmd d t) h1, ?_, ?_⟩
      · intro s hs
        simp only [List.mem_cons] at hs
        rcases hs with hs | hs
        · cases hs; exact Deny.has_mono h1 (Deny.reg_has isSpec cmd d t)
        · exact h2 s hs
      · simp [h3]

/-- the loop aborts exactly when a non-string item is present -/
theorem blLoop_error_iff (isSpec : Str → Bool) (cmd : Bool) : ∀ (xs : List Item) (d : Deny),
    blLoop isSpec cmd xs d = .error () ↔ Item.other ∈ xs := by
  intro xs
  induction xs with
  | nil => intro d; simp [blLoop]
  | cons x xs ih =>
    intro d
    cases x with
    | other => simp [blLoop]
    | str t => simp [blLoop, ih]

theorem blComps_le (isComp : Str → Bool) : ∀ (xs : List Item) (d : Deny), d.le (blComps isComp xs d) := by
  intro xs
  induction xs with
  | nil => intro d; exact Deny.le_refl _
  | cons x xs ih =>
    intro d
    cases x with
    | other => simpa [blComps] using ih d
    | str t =>
      simp only [blComps]
      refine Deny.le_trans ?_ (ih _)
      split
      · refine ⟨fun _ h => h, fun _ h => h, ?_⟩
        intro x hx; simp; exact Or.inl hx
      · exact Deny.le_refl _

theorem blComps_has (isComp : Str → Bool) : ∀ (xs : List Item) (d : Deny) (s : Str),
    Item.str s ∈ xs → isComp s = true → s ∈ (blComps isComp xs d).disabled := by
  intro xs
  induction xs with
  | nil => intro d s h; simp at h
  | cons x xs ih =>
    intro d s h hc
    simp only [List.mem_cons] at h
    rcases h with h | h
    · subst h
      simp only [blComps, hc, if_true]
      exact (blComps_le isComp xs _).2.2 _ (by simp)
    · cases x with
      | other => simpa [blComps] using ih d s h hc
      | str t => simp only [blComps]; exact ih _ s h hc

/-- on well-formed input the loop is the fold of the earlier model -/
theorem blLoop_strs (isSpec : Str → Bool) (cmd : Bool) : ∀ (ss : List Str) (d : Deny),
    blLoop isSpec cmd (ss.map Item.str) d = .ok (ss.foldl (fun d s => d.reg isSpec cmd s) d) := by
  intro ss
  induction ss with
  | nil => intro d; rfl
  | cons s ss ih => intro d; simp only [List.map_cons, blLoop, List.foldl_cons]; exact ih _

theorem blComps_strs (isComp : Str → Bool) : ∀ (ss : List Str) (d : Deny),
    blComps isComp (ss.map Item.str) d
      = ss.foldl (fun d c => if isComp c then { d with disabled := d.disabled ++ [c] } else d) d := by
  intro ss
  induction ss with
  | nil => intro d; rfl
  | cons s ss ih => intro d; simp only [List.map_cons, blComps, List.foldl_cons]; exact ih _

/-- the literal deny set a files / commands entry goes to -/
def Deny.lit (cmd : Bool) (d : Deny) : List Str := if cmd then d.commands else d.files

theorem Deny.lit_mono {cmd : Bool} {d d' : Deny} (h : d.le d') : ∀ x ∈ d.lit cmd, x ∈ d'.lit cmd := by
  cases cmd
  · exact h.1
  · exact h.2.1

theorem Deny.reg_lit (isSpec : Str → Bool) (cmd : Bool) (d : Deny) (s : Str) (hs : isSpec s = false) :
    s ∈ (d.reg isSpec cmd s).lit cmd := by
  unfold Deny.reg Deny.lit
  cases cmd <;> simp [hs]

/-- a successful loop has put every string item that is not a spec's symbolic name into the literal deny set -/
theorem blLoop_ok_lit (isSpec : Str → Bool) (cmd : Bool) : ∀ (xs : List Item) (d d' : Deny),
    blLoop isSpec cmd xs d = .ok d' → ∀ s, Item.str s ∈ xs → isSpec s = false → s ∈ d'.lit cmd := by
  intro xs
  induction xs with
  | nil => intro d d' _ s hs; simp at hs
  | cons x xs ih =>
    intro d d' h s hs hn
    cases x with
    | other => simp [blLoop] at h
    | str t =>
      simp only [blLoop] at h
      simp only [List.mem_cons] at hs
      rcases hs with hs | hs
      · cases hs
        exact Deny.lit_mono (blLoop_ok isSpec cmd xs _ d' h).1 _ (Deny.reg_lit isSpec cmd d s hn)
      · exact ih _ _ h s hs hn

theorem rstripSep_rel (x : Str) (h : startsWith x ['/'] = false) : startsWith (rstripSep x) ['/'] = false := by
  have hp : rstripSep x <+: x := by
    unfold rstripSep
    have : (x.reverse.dropWhile (· == '/')) <:+ x.reverse := List.dropWhile_suffix _
    have := List.reverse_prefix.mpr this
    simpa using this
  obtain ⟨t, ht⟩ := hp
  cases hr : rstripSep x with
  | nil => simp [startsWith, List.isPrefixOf]
  | cons c cs =>
    rw [hr] at ht
    subst ht
    simpa [startsWith, List.isPrefixOf] using h

/-! ### histories of applications -/

theorem Deny.app_assoc (a b c : Deny) : (a.app b).app c = a.app (b.app c) := by
  simp [Deny.app, List.append_assoc]

/-- a fold whose step only appends is the start state followed by what the fold produces from nothing -/
theorem foldl_app {α : Type} (step : Deny → α → Deny) (hs : ∀ d x, step d x = d.app (step {} x)) :
    ∀ (xs : List α) (d : Deny), xs.foldl step d = d.app (xs.foldl step {}) := by
  intro xs
  induction xs with
  | nil => intro d; cases d; simp [Deny.app]
  | cons x xs ih =>
    intro d
    simp only [List.foldl_cons]
    rw [ih (step d x), ih (step {} x), hs d x, Deny.app_assoc]

theorem reg_app (isSpec : Str → Bool) (cmd : Bool) (d : Deny) (s : Str) :
    d.reg isSpec cmd s = d.app (Deny.reg isSpec cmd {} s) := by
  cases d
  unfold Deny.reg Deny.app
  cases isSpec s <;> cases cmd <;> simp

theorem compStep_app (isComp : Str → Bool) (d : Deny) (c : Str) : compStep isComp d c = d.app (compStep isComp {} c) := by
  cases d
  unfold compStep Deny.app
  cases isComp c <;> simp

theorem applyBlacklistFrom_nil (isSpec isComp : Str → Bool) (files commands components : List Str) :
    applyBlacklistFrom isSpec isComp {} files commands components = applyBlacklist isSpec isComp files commands components := by
  rfl

theorem applyBlacklistFrom_app (isSpec isComp : Str → Bool) (d0 : Deny) (files commands components : List Str) :
    applyBlacklistFrom isSpec isComp d0 files commands components
      = d0.app (applyBlacklist isSpec isComp files commands components) := by
  rw [← applyBlacklistFrom_nil]
  unfold applyBlacklistFrom
  have h1 := foldl_app (fun d s => d.reg isSpec false s) (fun d x => reg_app isSpec false d x)
  have h2 := foldl_app (fun d s => d.reg isSpec true s) (fun d x => reg_app isSpec true d x)
  have h3 := foldl_app (compStep isComp) (compStep_app isComp)
  rw [h1 files d0, h2 commands (d0.app _), h3 components ((d0.app _).app _)]
  rw [h2 commands (List.foldl (fun d s => Deny.reg isSpec false d s) {} files)]
  rw [h3 components (Deny.app (List.foldl (fun d s => Deny.reg isSpec false d s) {} files)
        (List.foldl (fun d s => Deny.reg isSpec true d s) {} commands))]
  simp only [Deny.app_assoc]

end IV.Paths
