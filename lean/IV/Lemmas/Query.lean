import IV.Model.Query
/-!
Helper definitions and lemmas for C20 (IV/Props/C20.lean).

* `chains` / `Chain`: the declarative meaning of a multi-level query (enumeration of matching chains).
* forest induction (`forest_induction`) over `Node.kids`, derived from a size measure.
* `Cut l r`: `r` is a document-ordered selection of pairwise un-nested nodes of the forest `l`;
  closed under `filter` and under "replace every node by its children"; implies `Sublist (flatten l)`.
* `firstOcc`: first-occurrence de-duplication, the specification of the `roots` loop.
-/
namespace IV.Query

/-! ### chains -/

section generic
variable {α : Type}

/-- depth-first enumeration of the end points of all matching chains:
for n₁ ∈ nodes with q₁ n₁, for n₂ ∈ kids n₁ with q₂ n₂, …, yield n_k -/
def chains (kids : α → List α) : (α → Bool) → List (α → Bool) → List α → List α
  | q, [], nodes => nodes.filter q
  | q, q' :: qs, nodes => (nodes.filter q).flatMap (fun m => chains kids q' qs (kids m))

/-- `Chain kids q₁ [q₂,…,q_k] nodes n`: there are n₁ ∈ nodes, n_{i+1} ∈ kids n_i, n_k = n with q_i n_i -/
inductive Chain (kids : α → List α) : (α → Bool) → List (α → Bool) → List α → α → Prop
  | last {q nodes n} : n ∈ nodes → q n = true → Chain kids q [] nodes n
  | step {q q' qs nodes m n} : m ∈ nodes → q m = true → Chain kids q' qs (kids m) n →
      Chain kids q (q' :: qs) nodes n

/-- the end point of a matching chain satisfies the LAST query -/
theorem Chain.last_holds {kids : α → List α} {q : α → Bool} {qs : List (α → Bool)} {nodes : List α} {n : α}
    (h : Chain kids q qs nodes n) : ∀ p, (q :: qs).getLast? = some p → p n = true := by
  induction h with
  | last _ hq => intro p hp; simp at hp; subst hp; exact hq
  | step _ _ _ ih => intro p hp; rw [List.getLast?_cons_cons] at hp; exact ih p hp

theorem chains_nil (kids : α → List α) (q : α → Bool) (qs : List (α → Bool)) : chains kids q qs [] = [] := by
  cases qs <;> simp [chains]

theorem chains_append (kids : α → List α) (q : α → Bool) (qs : List (α → Bool)) (xs ys : List α) :
    chains kids q qs (xs ++ ys) = chains kids q qs xs ++ chains kids q qs ys := by
  cases qs <;> simp [chains, List.filter_append, List.flatMap_append]

theorem chains_flatMap {β : Type} (kids : α → List α) (q : α → Bool) (qs : List (α → Bool)) (f : β → List α) (l : List β) :
    chains kids q qs (l.flatMap f) = l.flatMap (fun x => chains kids q qs (f x)) := by
  induction l with
  | nil => simp [chains_nil]
  | cons x xs ih => simp [List.flatMap_cons, chains_append, ih]

theorem matchLv_eq_chains (kids : α → List α) (qs : List (α → Bool)) :
    ∀ (q : α → Bool) (nodes : List α), matchLv kids q qs nodes = chains kids q qs nodes := by
  induction qs with
  | nil => intro q nodes; rfl
  | cons q' qs ih =>
    intro q nodes
    simp only [matchLv, chains]
    split
    · rename_i h
      have : nodes.filter q = [] := by simpa using h
      simp [this]
    · rw [ih, chains_flatMap]

theorem mem_chains (kids : α → List α) (qs : List (α → Bool)) :
    ∀ (q : α → Bool) (nodes : List α) (n : α), n ∈ chains kids q qs nodes ↔ Chain kids q qs nodes n := by
  induction qs with
  | nil =>
    intro q nodes n
    simp only [chains, List.mem_filter]
    constructor
    · intro h; exact .last h.1 h.2
    · intro h; cases h with | last h1 h2 => exact ⟨h1, h2⟩
  | cons q' qs ih =>
    intro q nodes n
    simp only [chains, List.mem_flatMap, List.mem_filter]
    constructor
    · rintro ⟨m, ⟨hm, hq⟩, hn⟩
      exact .step hm hq ((ih _ _ _).mp hn)
    · intro h
      cases h with
      | step hm hq hc => exact ⟨_, ⟨hm, hq⟩, (ih _ _ _).mpr hc⟩

end generic

/-! ### the forest structure behind `kids` / `flatten` -/

mutual
def sizeT : Tree → Nat
  | .node _ _ cs => 1 + sizeL cs
def sizeL : List Tree → Nat
  | [] => 0
  | t :: ts => sizeT t + sizeL ts
end

def sizeF (l : List Node) : Nat := sizeL (l.map (·.tree))

theorem sizeT_pos (t : Tree) : 0 < sizeT t := by cases t; simp [sizeT]; omega

theorem sizeF_cons (n : Node) (ns : List Node) : sizeF (n :: ns) = sizeT n.tree + sizeF ns := by
  simp [sizeF, sizeL]

theorem map_tree_kidsFrom (anc : List Tree) (path : List Nat) (cs : List Tree) :
    ∀ i, (kidsFrom anc path i cs).map (·.tree) = cs := by
  induction cs with
  | nil => intro i; rfl
  | cons c cs ih => intro i; simp only [kidsFrom, List.map_cons, ih]

theorem sizeF_kids (n : Node) : sizeF n.kids + 1 = sizeT n.tree := by
  obtain ⟨anc, t, path⟩ := n
  cases t with
  | node nm a cs =>
    simp only [sizeF, Node.kids, Tree.children, sizeT]
    rw [map_tree_kidsFrom]; omega

/-- induction over a forest: a property of every forest follows from `[]` and from
"children of the head" + "rest" -/
theorem forest_induction (P : List Node → Prop) (nil : P [])
    (cons : ∀ n ns, P n.kids → P ns → P (n :: ns)) : ∀ l, P l := by
  have key : ∀ k l, sizeF l ≤ k → P l := by
    intro k
    induction k with
    | zero =>
      intro l h
      cases l with
      | nil => exact nil
      | cons n ns => rw [sizeF_cons] at h; have := sizeT_pos n.tree; omega
    | succ k ih =>
      intro l h
      cases l with
      | nil => exact nil
      | cons n ns =>
        rw [sizeF_cons] at h
        have hk := sizeF_kids n
        have := sizeT_pos n.tree
        exact cons n ns (ih _ (by omega)) (ih _ (by omega))
  intro l; exact key _ l (Nat.le_refl _)

theorem flatL_eq (anc : List Tree) (path : List Nat) (cs : List Tree) :
    ∀ i, flatL anc path i cs = flatten (kidsFrom anc path i cs) := by
  induction cs with
  | nil => intro i; simp [flatL, kidsFrom, flatten]
  | cons c cs ih =>
    intro i
    simp only [flatL, kidsFrom, flatten, List.flatMap_cons, flatNode]
    rw [ih]; rfl

theorem flatNode_eq (n : Node) : flatNode n = n :: flatten n.kids := by
  obtain ⟨anc, t, path⟩ := n
  cases t with
  | node nm a cs => simp [flatNode, flatT, Node.kids, Tree.children, flatL_eq]

theorem flatten_nil : flatten [] = [] := rfl

theorem flatten_cons (n : Node) (ns : List Node) :
    flatten (n :: ns) = n :: (flatten n.kids ++ flatten ns) := by
  simp [flatten, List.flatMap_cons, flatNode_eq]

theorem flatten_append (xs ys : List Node) : flatten (xs ++ ys) = flatten xs ++ flatten ys := by
  simp [flatten, List.flatMap_append]

theorem self_sublist_flatten (l : List Node) : l.Sublist (flatten l) := by
  induction l with
  | nil => simp [flatten_nil]
  | cons n ns ih =>
    rw [flatten_cons]
    exact List.Sublist.cons_cons _ (ih.trans (List.sublist_append_right _ _))

/-! ### document-ordered, un-nested selections -/

/-- `Cut l r`: walk the forest `l` in document order; at every node either take it (and nothing
below it) or descend into its children -/
inductive Cut : List Node → List Node → Prop
  | nil : Cut [] []
  | skip {n ns r1 r2} : Cut n.kids r1 → Cut ns r2 → Cut (n :: ns) (r1 ++ r2)
  | take {n ns r2} : Cut ns r2 → Cut (n :: ns) (n :: r2)

theorem cut_empty : ∀ l, Cut l [] := by
  apply forest_induction
  · exact .nil
  · intro n ns h1 h2
    have := Cut.skip h1 h2
    simpa using this

theorem cut_self (l : List Node) : Cut l l := by
  induction l with
  | nil => exact .nil
  | cons n ns ih => exact .take ih

theorem cut_sublist {l r : List Node} (h : Cut l r) : r.Sublist (flatten l) := by
  induction h with
  | nil => simp [flatten_nil]
  | skip _ _ ih1 ih2 =>
    rw [flatten_cons]
    exact (List.Sublist.append ih1 ih2).cons _
  | take _ ih =>
    rw [flatten_cons]
    exact List.Sublist.cons_cons _ (ih.trans (List.sublist_append_right _ _))

theorem cut_filter {l r : List Node} (q : Node → Bool) (h : Cut l r) : Cut l (r.filter q) := by
  induction h with
  | nil => exact .nil
  | skip _ _ ih1 ih2 => rw [List.filter_append]; exact .skip ih1 ih2
  | @take n ns r2 _ ih =>
    by_cases hq : q n = true
    · simp only [List.filter_cons, hq, if_true]; exact .take ih
    · simp only [List.filter_cons, hq]
      have := Cut.skip (cut_empty n.kids) ih
      simpa using this

theorem cut_kids {l r : List Node} (h : Cut l r) : Cut l (r.flatMap Node.kids) := by
  induction h with
  | nil => exact .nil
  | skip _ _ ih1 ih2 => rw [List.flatMap_append]; exact .skip ih1 ih2
  | @take n ns r2 _ ih =>
    rw [List.flatMap_cons]
    exact .skip (cut_self _) ih

theorem cut_matchLv {l : List Node} (qs : List (Node → Bool)) :
    ∀ (q : Node → Bool) (nodes : List Node), Cut l nodes → Cut l (matchLv Node.kids q qs nodes) := by
  induction qs with
  | nil => intro q nodes h; exact cut_filter q h
  | cons q' qs ih =>
    intro q nodes h
    simp only [matchLv]
    split
    · exact cut_filter q h
    · exact ih _ _ (cut_kids (cut_filter q h))

/-- no node satisfying `q` has a proper descendant satisfying `q` (within the forest `l`) -/
def NoNest (q : Node → Bool) (l : List Node) : Prop :=
  ∀ n ∈ flatten l, q n = true → ∀ m ∈ flatten n.kids, q m = false

theorem cut_of_noNest (q : Node → Bool) : ∀ l, NoNest q l → Cut l ((flatten l).filter q) := by
  apply forest_induction
  · intro _; exact .nil
  · intro n ns ih1 ih2 h
    have hk : NoNest q n.kids := by
      intro a ha; exact h a (by rw [flatten_cons]; simp [ha])
    have hn : NoNest q ns := by
      intro a ha; exact h a (by rw [flatten_cons]; simp [ha])
    rw [flatten_cons]
    by_cases hq : q n = true
    · have hz : (flatten n.kids).filter q = [] := by
        rw [List.filter_eq_nil_iff]
        intro m hm
        have := h n (by rw [flatten_cons]; simp) hq m hm
        simp [this]
      simp only [List.filter_cons, hq, if_true, List.filter_append, hz, List.nil_append]
      exact .take (ih2 hn)
    · simp only [List.filter_cons, hq, List.filter_append]
      exact .skip (ih1 hk) (ih2 hn)

theorem cut_flatten_sublist {l r : List Node} (h : Cut l r) : (flatten r).Sublist (flatten l) := by
  induction h with
  | nil => exact List.Sublist.refl _
  | skip _ _ ih1 ih2 =>
    rw [flatten_cons, flatten_append]
    exact (List.Sublist.append ih1 ih2).cons _
  | take _ ih =>
    rw [flatten_cons, flatten_cons]
    exact List.Sublist.cons_cons _ (List.Sublist.append (List.Sublist.refl _) ih)

theorem noNest_append {q : Node → Bool} {xs ys : List Node} (h : NoNest q (xs ++ ys)) : NoNest q xs ∧ NoNest q ys := by
  constructor
  · intro a ha; exact h a (by rw [flatten_append]; simp [ha])
  · intro a ha; exact h a (by rw [flatten_append]; simp [ha])

theorem cut_filter_flatten (q : Node → Bool) {l r : List Node} (h : Cut l r) :
    NoNest q r → Cut l ((flatten r).filter q) := by
  induction h with
  | nil => intro _; exact .nil
  | skip _ _ ih1 ih2 =>
    intro hn
    obtain ⟨h1, h2⟩ := noNest_append hn
    rw [flatten_append, List.filter_append]
    exact .skip (ih1 h1) (ih2 h2)
  | @take n ns r2 _ ih =>
    intro hn
    have hn' : NoNest q ([n] ++ r2) := by simpa using hn
    obtain ⟨h1, h2⟩ := noNest_append hn'
    rw [flatten_cons]
    by_cases hq : q n = true
    · have hz : (flatten n.kids).filter q = [] := by
        rw [List.filter_eq_nil_iff]
        intro m hm
        have := hn n (by rw [flatten_cons]; simp) hq m hm
        simp [this]
      simp only [List.filter_cons, hq, if_true, List.filter_append, hz, List.nil_append]
      exact .take (ih h2)
    · simp only [List.filter_cons, hq, List.filter_append]
      have hk : NoNest q n.kids := by
        intro a ha
        exact h1 a (by rw [flatten_cons, flatten_nil]; simp [ha])
      exact .skip (cut_of_noNest q _ hk) (ih h2)

/-! ### every node of the document is returned at most once -/

/-- `r` is, up to order, a selection of occurrences of `F` -/
def SubPerm {α : Type} (r F : List α) : Prop := ∃ r' : List α, r'.Perm r ∧ r'.Sublist F

theorem SubPerm.of_sublist {α : Type} {r F : List α} (h : r.Sublist F) : SubPerm r F := ⟨r, .refl _, h⟩

theorem SubPerm.sublist_left {α : Type} {r0 r F : List α} (h0 : r0.Sublist r) (h : SubPerm r F) : SubPerm r0 F := by
  obtain ⟨r', hp, hs⟩ := h
  obtain ⟨r0', hp0, hs0⟩ := List.exists_perm_sublist h0 hp.symm
  exact ⟨r0', hp0, hs0.trans hs⟩

theorem SubPerm.perm_right {α : Type} {r F G : List α} (h : SubPerm r F) (hp : F.Perm G) : SubPerm r G := by
  obtain ⟨r', hp', hs⟩ := h
  obtain ⟨r'', hp'', hs''⟩ := List.exists_perm_sublist hs hp
  exact ⟨r'', hp''.trans hp', hs''⟩

theorem sublist_flatMap {α β : Type} (f : α → List β) {l₁ l₂ : List α} (h : l₁.Sublist l₂) :
    (l₁.flatMap f).Sublist (l₂.flatMap f) := by
  induction h with
  | slnil => simp
  | cons a _ ih => rw [List.flatMap_cons]; exact ih.trans (List.sublist_append_right _ _)
  | cons_cons a _ ih => rw [List.flatMap_cons, List.flatMap_cons]; exact List.Sublist.append (List.Sublist.refl _) ih

theorem SubPerm.flatMap {α β : Type} (f : α → List β) {r F : List α} (h : SubPerm r F) :
    SubPerm (r.flatMap f) (F.flatMap f) := by
  obtain ⟨r', hp, hs⟩ := h
  exact ⟨r'.flatMap f, hp.flatMap_right f, sublist_flatMap f hs⟩

/-- the flattened forest consists of the given nodes and of the children of all its nodes -/
theorem flatten_perm : ∀ l, (flatten l).Perm (l ++ (flatten l).flatMap Node.kids) := by
  apply forest_induction
  · simp [flatten_nil]
  · intro n ns ih1 ih2
    rw [flatten_cons]
    simp only [List.flatMap_cons, List.flatMap_append, List.cons_append]
    refine List.Perm.cons _ ?_
    have h := ih1.append ih2
    refine h.trans ?_
    -- (K ++ FK) ++ (ns ++ FN)  ~  ns ++ (K ++ (FK ++ FN))
    have e1 : n.kids ++ (flatten n.kids).flatMap Node.kids ++ (ns ++ (flatten ns).flatMap Node.kids)
        = (n.kids ++ (flatten n.kids).flatMap Node.kids ++ ns) ++ (flatten ns).flatMap Node.kids := by
      simp [List.append_assoc]
    have e2 : ns ++ (n.kids ++ ((flatten n.kids).flatMap Node.kids ++ (flatten ns).flatMap Node.kids))
        = (ns ++ (n.kids ++ (flatten n.kids).flatMap Node.kids)) ++ (flatten ns).flatMap Node.kids := by
      simp [List.append_assoc]
    rw [e1, e2]
    exact List.Perm.append_right _ List.perm_append_comm

theorem subPerm_kids {l r : List Node} (h : SubPerm r (flatten l)) : SubPerm (r.flatMap Node.kids) (flatten l) := by
  have h1 := h.flatMap Node.kids
  have h2 : SubPerm (r.flatMap Node.kids) (l ++ (flatten l).flatMap Node.kids) := by
    obtain ⟨r', hp, hs⟩ := h1
    exact ⟨r', hp, hs.trans (List.sublist_append_right _ _)⟩
  exact h2.perm_right (flatten_perm l).symm

theorem subPerm_matchLv {l : List Node} (qs : List (Node → Bool)) :
    ∀ (q : Node → Bool) (nodes : List Node), SubPerm nodes (flatten l) →
      SubPerm (matchLv Node.kids q qs nodes) (flatten l) := by
  induction qs with
  | nil => intro q nodes h; exact h.sublist_left List.filter_sublist
  | cons q' qs ih =>
    intro q nodes h
    simp only [matchLv]
    split
    · exact h.sublist_left List.filter_sublist
    · exact ih _ _ (subPerm_kids (h.sublist_left List.filter_sublist))

/-! ### roots -/

/-- first-occurrence de-duplication by a key: keep the head; from the de-duplicated tail drop
everything carrying the head's key -/
def firstOcc {γ κ : Type} [DecidableEq κ] (key : γ → κ) : List γ → List γ
  | [] => []
  | x :: xs => x :: (firstOcc key xs).filter (fun y => key y != key x)

theorem firstOcc_filter {γ κ : Type} [DecidableEq κ] (key : γ → κ) (k : κ) (l : List γ) :
    firstOcc key (l.filter (fun y => key y != k)) = (firstOcc key l).filter (fun y => key y != k) := by
  induction l with
  | nil => simp [firstOcc]
  | cons a l ih =>
    by_cases hk : key a = k
    · have h1 : (key a != k) = false := by simp [hk]
      simp only [List.filter_cons, h1, Bool.false_eq_true, if_false, firstOcc, ih, List.filter_filter]
      subst hk
      apply List.filter_congr
      intro x _; simp
    · have h1 : (key a != k) = true := by simp [hk]
      simp only [List.filter_cons, h1, if_true, firstOcc, ih, List.filter_filter]
      congr 1
      apply List.filter_congr
      intro x _; simp [Bool.and_comm]

theorem dedupLoop_eq (xs : List Node) : ∀ (seen : List (List Nat)) (out : List Node),
    dedupLoop xs seen out =
      out ++ firstOcc Node.path (xs.filter (fun x => !seen.contains x.path)) := by
  induction xs with
  | nil => intro seen out; simp [dedupLoop, firstOcc]
  | cons r rs ih =>
    intro seen out
    simp only [dedupLoop, List.filter_cons]
    cases hc : seen.contains r.path with
    | true =>
      simp only [if_true, Bool.not_true, Bool.false_eq_true, if_false]
      exact ih _ _
    | false =>
      simp only [Bool.false_eq_true, if_false, Bool.not_false, if_true, firstOcc]
      rw [ih, ← firstOcc_filter, List.filter_filter, List.append_assoc, List.singleton_append]
      congr 3
      apply List.filter_congr
      intro x _
      by_cases h : x.path = r.path <;> simp [bne, h]

/-- the loop is first-occurrence de-duplication by identity -/
theorem dedupLoop_nil (xs : List Node) : dedupLoop xs [] [] = firstOcc Node.path xs := by
  rw [dedupLoop_eq, List.nil_append, List.filter_eq_self.mpr (by intros; rfl)]

theorem firstOcc_sublist {γ κ : Type} [DecidableEq κ] (key : γ → κ) (l : List γ) : (firstOcc key l).Sublist l := by
  induction l with
  | nil => exact .slnil
  | cons x xs ih => exact List.Sublist.cons_cons _ (List.filter_sublist.trans ih)

theorem firstOcc_nodup {γ κ : Type} [DecidableEq κ] (key : γ → κ) (l : List γ) : ((firstOcc key l).map key).Nodup := by
  induction l with
  | nil => simp [firstOcc]
  | cons x xs ih =>
    simp only [firstOcc, List.map_cons, List.nodup_cons]
    refine ⟨?_, List.Sublist.nodup (List.filter_sublist.map key) ih⟩
    intro hmem
    obtain ⟨y, hy, hk⟩ := List.mem_map.mp hmem
    have := (List.mem_filter.mp hy).2
    simp [hk] at this

theorem firstOcc_covers {γ κ : Type} [DecidableEq κ] (key : γ → κ) (l : List γ) :
    ∀ x ∈ l, ∃ y ∈ firstOcc key l, key y = key x := by
  induction l with
  | nil => intro x hx; cases hx
  | cons a xs ih =>
    intro x hx
    by_cases hk : key x = key a
    · exact ⟨a, by simp [firstOcc], hk.symm⟩
    · rcases List.mem_cons.mp hx with rfl | hx
      · exact absurd rfl hk
      · obtain ⟨y, hy, hyk⟩ := ih x hx
        refine ⟨y, ?_, hyk⟩
        simp only [firstOcc, List.mem_cons, List.mem_filter]
        right
        exact ⟨hy, by simpa [hyk] using hk⟩

/-- the root a node is mapped to by `roots` (furthest ancestor, or the node itself) is an allowed one -/
def Rooted (R : Node → Prop) (n : Node) : Prop := R n.rootNode

theorem mem_kidsFrom {anc : List Tree} {path : List Nat} {cs : List Tree} {c : Node} :
    ∀ {i}, c ∈ kidsFrom anc path i cs → c.anc = anc ∧ ∃ j, c.path = path ++ [j] := by
  induction cs with
  | nil => intro i h; simp [kidsFrom] at h
  | cons t ts ih =>
    intro i h
    simp only [kidsFrom, List.mem_cons] at h
    rcases h with rfl | h
    · exact ⟨rfl, i, rfl⟩
    · exact ih h

theorem root_kids {n c : Node} (h : c ∈ n.kids) : c.root = some (n.root.getD n.tree) := by
  obtain ⟨ha, _⟩ := mem_kidsFrom h
  simp only [Node.root, ha]
  cases hanc : n.anc with
  | nil => simp
  | cons a as =>
    rw [List.getLast?_cons_cons]
    cases h : (a :: as).getLast? with
    | none => simp at h
    | some v => simp

/-- children inherit the root of their parent; the children of a parentless node have it as root -/
theorem rootOrSelf_kids {n c : Node} (h : c ∈ n.kids) : c.rootOrSelf = n.rootOrSelf := by
  simp [Node.rootOrSelf, root_kids h]

/-- … as an object too: same identity -/
theorem rootPath_kids {n c : Node} (h : c ∈ n.kids) : c.rootPath = n.rootPath := by
  obtain ⟨ha, j, hp⟩ := mem_kidsFrom h
  simp only [Node.rootPath, ha, hp, List.length_append, List.length_cons, List.length_nil]
  have : n.path.length + (0 + 1) - (n.anc.length + 1) = n.path.length - n.anc.length := by omega
  rw [this, List.take_append_of_le_length (by omega)]

theorem rootNode_kids {n c : Node} (h : c ∈ n.kids) : c.rootNode = n.rootNode := by
  simp [Node.rootNode, rootOrSelf_kids h, rootPath_kids h]

theorem rooted_kids {R : Node → Prop} {n c : Node} (hn : Rooted R n) (h : c ∈ n.kids) : Rooted R c := by
  simp only [Rooted, rootNode_kids h]; exact hn

theorem rooted_flatten (R : Node → Prop) : ∀ l, (∀ s ∈ l, Rooted R s) → ∀ m ∈ flatten l, Rooted R m := by
  apply forest_induction
  · intro _ m hm; simp [flatten_nil] at hm
  · intro n ns ih1 ih2 h m hm
    rw [flatten_cons] at hm
    rcases List.mem_cons.mp hm with rfl | hm
    · exact h _ (by simp)
    · rcases List.mem_append.mp hm with hm | hm
      · exact ih1 (fun s hs => rooted_kids (h n (by simp)) hs) m hm
      · exact ih2 (fun s hs => h s (by simp [hs])) m hm

theorem rooted_chain (R : Node → Prop) {q : Node → Bool} {qs : List (Node → Bool)} {nodes : List Node} {n : Node}
    (hc : Chain Node.kids q qs nodes n) : (∀ s ∈ nodes, Rooted R s) → Rooted R n := by
  induction hc with
  | last hm _ => intro h; exact h _ hm
  | step hm _ _ ih => intro h; exact ih (fun s hs => rooted_kids (h _ hm) hs)

/-! the witness tree of the known findings: A1[A2[B2], B1] below a document top -/
def wB2 : Tree := .node (.str ['B']) [.str ['B', '2']] []
def wA2 : Tree := .node (.str ['A']) [.str ['A', '2']] [wB2]
def wB1 : Tree := .node (.str ['B']) [.str ['B', '1']] []
def wA1 : Tree := .node (.str ['A']) [.str ['A', '1']] [wA2, wB1]
def wTop : Tree := .node .none [] [wA1]
/-- a lower-casing function for the concrete examples only (ASCII); the model has none of its own -/
def asciiLower (s : Str) : Str :=
  s.map (fun c => if 65 ≤ c.toNat ∧ c.toNat ≤ 90 then Char.ofNat (c.toNat + 32) else c)

def wEnv : Env := ⟨fun _ _ => .ret false, asciiLower⟩
def qA : Query := .name (.lit (.str ['A']))
def qB : Query := .name (.lit (.str ['B']))

/-- document order of the witness; identities: A1 = 0.0, A2 = 0.0.0, B2 = 0.0.0.0, B1 = 0.0.1 -/
theorem wFlat : flatten (top 0 wTop).kids =
    [⟨[wTop], wA1, [0, 0]⟩, ⟨[wA1, wTop], wA2, [0, 0, 0]⟩, ⟨[wA2, wA1, wTop], wB2, [0, 0, 0, 0]⟩,
     ⟨[wA1, wTop], wB1, [0, 0, 1]⟩] := rfl

end IV.Query
