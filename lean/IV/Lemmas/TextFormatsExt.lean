import IV.Model.TextFormatsExt
import IV.Lemmas.TextFormats
import IV.Lemmas.TextFormats2
/-! helper lemmas for the round-10 part of C15: unsplit_lines, optlist_to_dict, IniConfigFile.set -/
namespace IV.TextFormats

/-! ### unsplit_lines -/

theorem dropWhile_spaces_cons (n : Nat) (c : Char) (r : Str) (hc : isSpace c = false) :
    (spaces n ++ c :: r).dropWhile isSpace = c :: r := by
  induction n with
  | zero => simp [spaces, List.dropWhile, hc]
  | succ n ih =>
    have e : spaces (n + 1) ++ c :: r = ' ' :: (spaces n ++ c :: r) := by
      simp [spaces, List.replicate_succ]
    rw [e, List.dropWhile_cons, isSpace_space]
    exact ih

theorem rstrip_piece (p : Str) (c : Char) (n : Nat) (hc : isSpace c = false) :
    rstrip (p ++ [c] ++ spaces n) = p ++ [c] := by
  unfold rstrip
  have e : (p ++ [c] ++ spaces n).reverse = spaces n ++ c :: p.reverse := by
    simp [spaces]
  rw [e, dropWhile_spaces_cons _ _ _ hc]
  simp

theorem endsWith_snoc (p : Str) (c : Char) : endsWith [c] (p ++ [c]) = true := by
  simp [endsWith]

/-- the pieces a list of continued physical lines leaves in the accumulator -/
def keptParts (c : Char) (keep : Bool) (ps : List (Str × Nat)) : List Str :=
  ps.map (fun p => if keep then p.1 ++ [c] else p.1)

theorem joinedParts_eq (c : Char) (keep : Bool) (ps : List (Str × Nat)) :
    joinedParts c keep ps = (keptParts c keep ps).flatten := rfl

theorem unsplitGo_parts (c : Char) (hc : isSpace c = false) (keep : Bool) (ps : List (Str × Nat)) :
    ∀ (rest acc : List Str),
      unsplitGo [c] keep (renderParts c ps ++ rest) acc = unsplitGo [c] keep rest (acc ++ keptParts c keep ps) := by
  induction ps with
  | nil => intro rest acc; simp [renderParts, keptParts]
  | cons p ps ih =>
    intro rest acc
    have e : renderParts c (p :: ps) ++ rest = (p.1 ++ [c] ++ spaces p.2) :: (renderParts c ps ++ rest) := by
      simp [renderParts]
    rw [e, unsplitGo]
    simp only [rstrip_piece _ _ _ hc, endsWith_snoc, if_true]
    rw [ih]
    cases keep <;> simp [keptParts]

theorem unsplitGo_last (c : Char) (keep : Bool) (last : Str) (h : endsWith [c] (rstrip last) = false)
    (rest acc : List Str) :
    unsplitGo [c] keep (last :: rest) acc = (acc.flatten ++ rstrip last) :: unsplitGo [c] keep rest [] := by
  rw [unsplitGo]
  simp [h]

theorem unsplitGo_logical (c : Char) (hc : isSpace c = false) (keep : Bool) (lg : Logical)
    (h : endsWith [c] (rstrip lg.last) = false) (rest : List Str) :
    unsplitGo [c] keep (renderLogical c lg ++ rest) [] = lg.joined c keep :: unsplitGo [c] keep rest [] := by
  have e : renderLogical c lg ++ rest = renderParts c lg.parts ++ (lg.last :: rest) := by
    simp [renderLogical]
  rw [e, unsplitGo_parts c hc, unsplitGo_last c keep lg.last h]
  simp [Logical.joined, joinedParts_eq]

theorem unsplitGo_doc (c : Char) (hc : isSpace c = false) (keep : Bool) (doc : List Logical)
    (h : ∀ lg ∈ doc, endsWith [c] (rstrip lg.last) = false) (rest : List Str) :
    unsplitGo [c] keep (renderLogicals c doc ++ rest) [] = doc.map (Logical.joined c keep) ++ unsplitGo [c] keep rest [] := by
  induction doc with
  | nil => simp [renderLogicals]
  | cons lg doc ih =>
    have e : renderLogicals c (lg :: doc) ++ rest = renderLogical c lg ++ (renderLogicals c doc ++ rest) := by
      simp [renderLogicals]
    rw [e, unsplitGo_logical c hc keep lg (h lg (by simp)), ih (fun x hx => h x (by simp [hx]))]
    simp

/-! ### optlist_to_dict -/

theorem joinWith_ne (os : Char) (xs : List Str) : joinWith os xs = joinStr [os] xs := joinWith_eq_joinStr os xs

/-- the value `strip_quotes` leaves (`v[1:-1]` of the code): a non-empty value that begins and ends with the same quote
    character loses its first and last character — a value that IS one lone quote character becomes empty; an empty
    value stays empty -/
def unquote (v : Str) : Str :=
  match v with
  | q :: _ => if (q = '"' ∨ q = '\'') ∧ v.getLast? = some q then (v.drop 1).dropLast else v
  | [] => []

def optPairSq (sq : Bool) : OptItem → Str × Option Str
  | .flag k => (k, none)
  | .kv _ k _ v => (k, some (if sq then unquote v else v))

/-- what a rendered option must look like: the separator between key and value occurs nowhere in a key, and a key that
    has a value is stripped; the value is arbitrary (empty values included) -/
def OptItemOk (kv : Char) : OptItem → Prop
  | .flag k => kv ∉ k
  | .kv _ k _ _ => kv ∉ k ∧ Stripped k ∧ isSpace kv = false

theorem makeKv_render (kv : Char) (sq : Bool) (it : OptItem) (h : OptItemOk kv it) :
    makeKv (some [kv]) sq (renderOptItem kv it) = .ok (optPairSq sq it) := by
  cases it with
  | flag k =>
    simp only [OptItemOk] at h
    simp [makeKv, renderOptItem, splitFirst_char_miss kv k h, optPairSq]
  | kv a k b v =>
    obtain ⟨hk, hs, hsp⟩ := h
    have hnot : kv ∉ spaces a ++ k ++ spaces b := by
      intro hm
      simp only [List.mem_append, spaces, List.mem_replicate] at hm
      rcases hm with (⟨_, e⟩ | hm) | ⟨_, e⟩
      · rw [e] at hsp; simp [isSpace_space] at hsp
      · exact hk hm
      · rw [e] at hsp; simp [isSpace_space] at hsp
    have e : renderOptItem kv (.kv a k b v) = (spaces a ++ k ++ spaces b) ++ kv :: v := rfl
    have hstrip : strip (spaces a ++ k ++ spaces b) = k := strip_spaces_mid a b k hs
    rw [e]
    simp only [makeKv, List.isEmpty_cons, Bool.false_eq_true, if_false, splitFirst_char_hit kv _ v hnot, hstrip]
    cases sq with
    | false => simp [optPairSq]
    | true =>
      cases v with
      | nil => simp [optPairSq, unquote]
      | cons q t =>
        simp only [if_true, optPairSq, unquote]
        split <;> rfl

theorem mapM_makeKv (kv : Char) (sq : Bool) (items : List OptItem) (h : ∀ it ∈ items, OptItemOk kv it) :
    (items.map (renderOptItem kv)).mapM (makeKv (some [kv]) sq) = .ok (items.map (optPairSq sq)) := by
  induction items with
  | nil => rfl
  | cons it items ih =>
    simp only [List.map_cons, List.mapM_cons, makeKv_render kv sq it (h it (by simp)),
      ih (fun x hx => h x (by simp [hx]))]
    rfl

/-! ### IniConfigFile.set -/

theorem dictGet_dictSet_self {α β : Type} [DecidableEq α] (d : List (α × β)) (k : α) (v : β) :
    dictGet (dictSet d k v) k = some v := by
  rw [dictGet_dictSet]; simp

theorem dictGet_dictSet_ne {α β : Type} [DecidableEq α] (d : List (α × β)) (k k' : α) (v : β) (h : k ≠ k') :
    dictGet (dictSet d k v) k' = dictGet d k' := by
  rw [dictGet_dictSet]; simp [h]

theorem keys_dictSet_present {β : Type} (d : List (Str × β)) (k : Str) (v : β) (h : (dictGet d k).isSome = true) :
    (dictSet d k v).map (·.1) = d.map (·.1) := by
  induction d with
  | nil => simp [dictGet] at h
  | cons p rest ih =>
    obtain ⟨a, b⟩ := p
    by_cases e : a = k
    · simp [dictSet, e]
    · simp only [dictGet, e, if_false] at h
      simp [dictSet, e, ih h]

/-! ### split_kv_pairs with filter_string -/

/-- does `filter_string = f` keep this item?  A pair is kept iff `f` occurs in its ACTIVE line (comment cut off,
    stripped); comments and blanks never reach the filter -/
def kvKeeps (cc sep : Char) (f : Str) (it : KvItem) : Bool :=
  match it with
  | .pair .. => contains f (activeOf cc (renderKvItem cc sep it))
  | _ => true

theorem kv_fold_filter (cc sep : Char) (hcs : cc ≠ sep) (hc : isSpace cc = false) (hs : isSpace sep = false) (up : Bool) (f : Str) :
    ∀ (doc : List KvItem) (d : Dict), (∀ it ∈ doc, KvItemOk cc sep it) →
      ((((renderKv cc sep doc).map (activeOf cc)).filter (fun l => !l.isEmpty)).filter (fun l => contains f l)).foldl (kvStep [sep] up) d
        = (kvPairsOf (doc.filter (kvKeeps cc sep f))).foldl (fun d p => dictSet d p.1 p.2) d := by
  intro doc
  induction doc with
  | nil => intro d _; rfl
  | cons it rest ih =>
    intro d hok
    have hrest : ∀ it ∈ rest, KvItemOk cc sep it := fun x hx => hok x (by simp [hx])
    have hit := hok it (by simp)
    cases it with
    | pair lead k sp1 sp2 v trail cm =>
      obtain ⟨hk, hv, hck, hcv, hsk⟩ := hit
      have hact := active_pair cc sep hcs hc hs lead k sp1 sp2 v trail cm hck hcv
      have hne : (activeOf cc (renderKvItem cc sep (.pair lead k sp1 sp2 v trail cm))).isEmpty = false := by
        rw [hact]; cases lstrip (spaces lead ++ k ++ spaces sp1) <;> rfl
      simp only [renderKv, List.map_cons]
      rw [List.filter_cons, hne]
      simp only [Bool.not_false, if_true]
      rw [List.filter_cons, List.filter_cons]
      cases hkeep : contains f (activeOf cc (renderKvItem cc sep (.pair lead k sp1 sp2 v trail cm))) with
      | true =>
        have hkk : kvKeeps cc sep f (.pair lead k sp1 sp2 v trail cm) = true := hkeep
        simp only [hkk, if_true, kvPairsOf, List.foldl_cons]
        rw [hact, kvStep_pair sep hs up d lead k sp1 sp2 v trail hk hv hsk]
        exact ih _ hrest
      | false =>
        have hkk : kvKeeps cc sep f (.pair lead k sp1 sp2 v trail cm) = false := hkeep
        simp only [hkk, Bool.false_eq_true, if_false]
        exact ih d hrest
    | comment indent text =>
      have hkk : kvKeeps cc sep f (.comment indent text) = true := rfl
      simp only [renderKv, List.map_cons]
      rw [active_comment cc sep hc indent text, List.filter_cons]
      simp only [List.isEmpty_nil, Bool.not_true, Bool.false_eq_true, if_false]
      rw [List.filter_cons]
      simp only [hkk, if_true, kvPairsOf]
      exact ih d hrest
    | blank n =>
      have hkk : kvKeeps cc sep f (.blank n) = true := rfl
      simp only [renderKv, List.map_cons]
      rw [active_blank cc sep hc n, List.filter_cons]
      simp only [List.isEmpty_nil, Bool.not_true, Bool.false_eq_true, if_false]
      rw [List.filter_cons]
      simp only [hkk, if_true, kvPairsOf]
      exact ih d hrest

/-! ### parse_fixed_table with empty_exception -/

theorem mem_dictSet {α β : Type} [DecidableEq α] (d : List (α × β)) (k : α) (v : β) (p : α × β)
    (h : p ∈ dictSet d k v) : p = (k, v) ∨ p ∈ d := by
  induction d with
  | nil => simp [dictSet] at h; exact Or.inl h
  | cons q rest ih =>
    obtain ⟨a, b⟩ := q
    by_cases e : a = k
    · simp only [dictSet, e, if_true, List.mem_cons] at h
      rcases h with h | h
      · exact Or.inl h
      · exact Or.inr (by simp [h])
    · simp only [dictSet, e, if_false, List.mem_cons] at h
      rcases h with h | h
      · exact Or.inr (by simp [h])
      · rcases ih h with h | h
        · exact Or.inl h
        · exact Or.inr (by simp [h])

theorem mem_foldl_dictSet {α β : Type} [DecidableEq α] (ps : List (α × β)) :
    ∀ (d : List (α × β)) (p : α × β), p ∈ ps.foldl (fun d q => dictSet d q.1 q.2) d → p ∈ ps ∨ p ∈ d := by
  induction ps with
  | nil => intro d p h; exact Or.inr h
  | cons q rest ih =>
    intro d p h
    simp only [List.foldl_cons] at h
    rcases ih _ p h with h | h
    · exact Or.inl (by simp [h])
    · rcases mem_dictSet d q.1 q.2 p h with h | h
      · exact Or.inl (by simp [h])
      · exact Or.inr h

theorem mem_fromPairs {α β : Type} [DecidableEq α] (ps : List (α × β)) (p : α × β) (h : p ∈ fromPairs ps) : p ∈ ps := by
  rcases mem_foldl_dictSet ps [] p h with h | h
  · exact h
  · simp at h

/-- the strict loop (`empty_exception=True`) either raises ParseException or returns what the lax loop returns, and then
    no returned cell is empty -/
theorem fixedRows_strict (hs : List Str) (ps : List (Nat × Option Nat)) :
    ∀ (lines : List Str),
      (∃ rs, fixedRows false hs ps lines = .ok rs ∧
        (fixedRows true hs ps lines = .error .parseException ∨
         (fixedRows true hs ps lines = .ok rs ∧ ∀ r ∈ rs, ∀ p ∈ r, p.2 ≠ []))) := by
  intro lines
  induction lines with
  | nil => exact ⟨[], rfl, Or.inr ⟨rfl, by simp⟩⟩
  | cons l rest ih =>
    obtain ⟨rs, hlax, hstrict⟩ := ih
    by_cases hb : (strip l).isEmpty = true
    · refine ⟨rs, ?_, ?_⟩
      · simp only [fixedRows, hb, if_true]; exact hlax
      · simp only [fixedRows, hb, if_true]; exact hstrict
    · refine ⟨fromPairs (cutRow l hs ps) :: rs, ?_, ?_⟩
      · simp [fixedRows, hb, hlax]
      · by_cases he : (cutRow l hs ps).any (fun c => c.2.isEmpty) = true
        · left; simp [fixedRows, hb, he]
        · rcases hstrict with h | ⟨h, hne⟩
          · left; simp [fixedRows, hb, he, h]
          · right
            refine ⟨by simp [fixedRows, hb, he, h], ?_⟩
            intro r hr p hp
            simp only [List.mem_cons] at hr
            rcases hr with rfl | hr
            · have hm := mem_fromPairs _ p hp
              intro hnil
              apply he
              exact List.any_eq_true.mpr ⟨p, hm, by simp [hnil]⟩
            · exact hne r hr p hp

end IV.TextFormats
