import IV.Model.TextFormats
/-!
Lemmas for C15 (IV.TextFormats): `strip` on padded text, single-character splitting, the header search
of `calc_column_indices`, white-space splitting of a header line, dictionaries, `calc_offset`.
-/
namespace IV.TextFormats

instance {ε α : Type} [DecidableEq ε] [DecidableEq α] : DecidableEq (Except ε α) := fun a b =>
  match a, b with
  | .ok x, .ok y => if h : x = y then isTrue (by rw [h]) else isFalse (by intro e; cases e; exact h rfl)
  | .error x, .error y => if h : x = y then isTrue (by rw [h]) else isFalse (by intro e; cases e; exact h rfl)
  | .ok _, .error _ => isFalse (by intro e; cases e)
  | .error _, .ok _ => isFalse (by intro e; cases e)

/-- no white space at either end (what `strip` leaves unchanged) -/
def Stripped (s : Str) : Prop :=
  (∀ c, s.head? = some c → isSpace c = false) ∧ (∀ c, s.getLast? = some c → isSpace c = false)

def AllSpace (s : Str) : Prop := ∀ c ∈ s, isSpace c = true

theorem isSpace_space : isSpace ' ' = true := by decide

theorem allSpace_spaces (n : Nat) : AllSpace (spaces n) := by
  intro c hc
  simp [spaces, List.mem_replicate] at hc
  rw [hc.2]; exact isSpace_space

theorem spaces_length (n : Nat) : (spaces n).length = n := by simp [spaces]

theorem dropWhile_allSpace_append (w s : Str) (hw : AllSpace w) :
    (w ++ s).dropWhile isSpace = s.dropWhile isSpace := by
  induction w with
  | nil => rfl
  | cons c cs ih =>
    have hc : isSpace c = true := hw c (by simp)
    simp only [List.cons_append, List.dropWhile_cons, hc, if_true]
    exact ih (fun x hx => hw x (by simp [hx]))

theorem allSpace_reverse (w : Str) (hw : AllSpace w) : AllSpace w.reverse := by
  intro c hc; exact hw c (by simpa using hc)

theorem stripped_nil : Stripped [] := by constructor <;> intro c h <;> simp at h

/-- the sandwich lemma: white space around a stripped text is exactly what `strip` removes -/
theorem strip_sandwich (w1 m w2 : Str) (h1 : AllSpace w1) (h2 : AllSpace w2) (hm : Stripped m) :
    strip (w1 ++ m ++ w2) = m := by
  unfold strip rstrip lstrip
  rw [List.reverse_append, List.reverse_append,
      dropWhile_allSpace_append _ _ (allSpace_reverse _ h2)]
  cases hml : m.reverse with
  | nil =>
    have : m = [] := by simpa using hml
    subst this
    simp only [List.nil_append]
    have := dropWhile_allSpace_append w1.reverse [] (allSpace_reverse _ h1)
    simp only [List.append_nil] at this
    rw [this]; simp
  | cons c cs =>
    have hlast : m.getLast? = some c := by
      rw [List.getLast?_eq_head?_reverse, hml]; rfl
    have hc : isSpace c = false := hm.2 c hlast
    simp only [List.cons_append, List.dropWhile_cons, hc]
    have : (c :: (cs ++ w1.reverse)).reverse = w1 ++ m := by
      have : c :: (cs ++ w1.reverse) = m.reverse ++ w1.reverse := by rw [hml]; rfl
      rw [this]; simp
    simp only [Bool.false_eq_true, if_false, this]
    rw [dropWhile_allSpace_append _ _ h1]
    cases m with
    | nil => simp at hml
    | cons x xs =>
      have hx : isSpace x = false := hm.1 x rfl
      simp [List.dropWhile_cons, hx]

theorem strip_of_stripped (m : Str) (hm : Stripped m) : strip m = m := by
  have := strip_sandwich [] m [] (by intro c h; simp at h) (by intro c h; simp at h) hm
  simpa using this

theorem strip_spaces_mid (a b : Nat) (m : Str) (hm : Stripped m) : strip (spaces a ++ m ++ spaces b) = m :=
  strip_sandwich _ _ _ (allSpace_spaces a) (allSpace_spaces b) hm

theorem strip_allSpace (w : Str) (hw : AllSpace w) : strip w = [] := by
  have := strip_sandwich w [] [] hw (by intro c h; simp at h) stripped_nil
  simpa using this

theorem strip_padTo (w : Nat) (m : Str) (hm : Stripped m) : strip (padTo w m) = m := by
  have := strip_sandwich [] m (spaces (w - m.length)) (by intro c h; simp at h) (allSpace_spaces _) hm
  simpa [padTo] using this

theorem strip_append_spaces (m : Str) (b : Nat) (hm : Stripped m) : strip (m ++ spaces b) = m := by
  have := strip_sandwich [] m (spaces b) (by intro c h; simp at h) (allSpace_spaces _) hm
  simpa using this

/-- a text that strips to nothing consists of white space only -/
theorem allSpace_of_dropWhile_nil (s : Str) (h : s.dropWhile isSpace = []) : AllSpace s := by
  induction s with
  | nil => intro c hc; simp at hc
  | cons x xs ih =>
    simp only [List.dropWhile_cons] at h
    split at h
    · rename_i hx
      intro c hc
      rcases List.mem_cons.mp hc with rfl | hc
      · exact hx
      · exact ih h c hc
    · simp at h

theorem dropWhile_eq_self_or (s : Str) : ∃ w, AllSpace w ∧ s = w ++ s.dropWhile isSpace := by
  induction s with
  | nil => exact ⟨[], by intro c h; simp at h, rfl⟩
  | cons x xs ih =>
    simp only [List.dropWhile_cons]
    split
    · rename_i hx
      obtain ⟨w, hw, e⟩ := ih
      refine ⟨x :: w, ?_, ?_⟩
      · intro c hc
        rcases List.mem_cons.mp hc with rfl | hc
        · exact hx
        · exact hw c hc
      · simp; exact e
    · exact ⟨[], by intro c h; simp at h, rfl⟩

theorem allSpace_of_strip_nil (s : Str) (h : strip s = []) : AllSpace s := by
  unfold strip lstrip at h
  have h1 := allSpace_of_dropWhile_nil _ h
  unfold rstrip at h1
  obtain ⟨w, hw, e⟩ := dropWhile_eq_self_or s.reverse
  intro c hc
  have hc' : c ∈ s.reverse := by simpa using hc
  rw [e] at hc'
  rcases List.mem_append.mp hc' with h' | h'
  · exact hw c h'
  · exact h1 c (by simpa using h')

/-! ### every text is white space around its `strip` -/

theorem head_dropWhile (s : Str) (c : Char) (h : (s.dropWhile isSpace).head? = some c) : isSpace c = false := by
  induction s with
  | nil => simp at h
  | cons x xs ih =>
    simp only [List.dropWhile_cons] at h
    split at h
    · exact ih h
    · rename_i hx; simp at h; subst h; simpa using hx

theorem getLast_dropWhile (s : Str) (c : Char) (h : (s.dropWhile isSpace).getLast? = some c) :
    s.getLast? = some c := by
  induction s with
  | nil => simp at h
  | cons x xs ih =>
    simp only [List.dropWhile_cons] at h
    split at h
    · have := ih h
      cases xs with
      | nil => simp at this
      | cons y ys => simpa [List.getLast?_cons_cons] using this
    · exact h

theorem rstrip_decomp (t : Str) : ∃ w, AllSpace w ∧ t = rstrip t ++ w := by
  obtain ⟨w, hw, e⟩ := dropWhile_eq_self_or t.reverse
  refine ⟨w.reverse, allSpace_reverse _ hw, ?_⟩
  have h := congrArg List.reverse e
  simp only [List.reverse_reverse, List.reverse_append] at h
  exact h

theorem stripped_strip (t : Str) : Stripped (strip t) := by
  constructor
  · intro c h; exact head_dropWhile _ c h
  · intro c h
    have h1 : (rstrip t).getLast? = some c := getLast_dropWhile _ c h
    unfold rstrip at h1
    rw [List.getLast?_reverse] at h1
    exact head_dropWhile _ c h1

/-- `t = w1 ++ strip t ++ w2` with white space `w1`, `w2` -/
theorem strip_decomp (t : Str) : ∃ w1 w2, AllSpace w1 ∧ AllSpace w2 ∧ t = w1 ++ strip t ++ w2 := by
  obtain ⟨w2, h2, e2⟩ := rstrip_decomp t
  obtain ⟨w1, h1, e1⟩ := dropWhile_eq_self_or (rstrip t)
  refine ⟨w1, w2, h1, h2, ?_⟩
  have : rstrip t = w1 ++ strip t := e1
  rw [← this]; exact e2

theorem strip_allSpace_append (w t : Str) (hw : AllSpace w) : strip (w ++ t) = strip t := by
  obtain ⟨w1, w2, h1, h2, e⟩ := strip_decomp t
  have : w ++ t = (w ++ w1) ++ strip t ++ w2 := by
    conv => lhs; rw [e]
    simp
  rw [this]
  exact strip_sandwich _ _ _ (by intro c hc; rcases List.mem_append.mp hc with h | h; exact hw c h; exact h1 c h) h2 (stripped_strip t)

theorem strip_append_allSpace (t w : Str) (hw : AllSpace w) : strip (t ++ w) = strip t := by
  obtain ⟨w1, w2, h1, h2, e⟩ := strip_decomp t
  have : t ++ w = w1 ++ strip t ++ (w2 ++ w) := by
    conv => lhs; rw [e]
    simp
  rw [this]
  exact strip_sandwich _ _ _ h1 (by intro c hc; rcases List.mem_append.mp hc with h | h; exact h2 c h; exact hw c h) (stripped_strip t)

theorem strip_lstrip (s : Str) : strip (lstrip s) = strip s := by
  obtain ⟨w, hw, e⟩ := dropWhile_eq_self_or s
  conv => rhs; rw [e]
  rw [strip_allSpace_append _ _ hw]; rfl

theorem strip_rstrip (s : Str) : strip (rstrip s) = strip s := by
  obtain ⟨w, hw, e⟩ := rstrip_decomp s
  conv => rhs; rw [e]
  rw [strip_append_allSpace _ _ hw]

theorem dropWhile_append_stop (l r : Str) (x : Char) (hx : isSpace x = false) :
    (l ++ x :: r).dropWhile isSpace = l.dropWhile isSpace ++ x :: r := by
  induction l with
  | nil => simp [List.dropWhile_cons, hx]
  | cons y ys ih =>
    simp only [List.cons_append, List.dropWhile_cons]
    split
    · exact ih
    · rfl

/-- `strip` around a character that is not white space -/
theorem strip_around (a b : Str) (x : Char) (hx : isSpace x = false) :
    strip (a ++ x :: b) = lstrip a ++ x :: rstrip b := by
  unfold strip
  have h1 : rstrip (a ++ x :: b) = a ++ x :: rstrip b := by
    unfold rstrip
    have : (a ++ x :: b).reverse = b.reverse ++ x :: a.reverse := by simp
    rw [this, dropWhile_append_stop _ _ _ hx]; simp
  rw [h1]; unfold lstrip
  exact dropWhile_append_stop _ _ _ hx

/-! ### single-character separators -/

theorem splitFirst_char_hit (d : Char) (a b : Str) (ha : d ∉ a) : splitFirst [d] (a ++ d :: b) = some (a, b) := by
  induction a with
  | nil => simp [splitFirst, List.isPrefixOf]
  | cons x xs ih =>
    have hx : ¬ d = x := fun h => ha (by simp [h])
    have := ih (fun h => ha (by simp [h]))
    simp [splitFirst, List.isPrefixOf, hx, this]

theorem splitFirst_char_miss (d : Char) (a : Str) (ha : d ∉ a) : splitFirst [d] a = none := by
  induction a with
  | nil => simp [splitFirst]
  | cons x xs ih =>
    have hx : ¬ d = x := fun h => ha (by simp [h])
    have := ih (fun h => ha (by simp [h]))
    simp [splitFirst, List.isPrefixOf, hx, this]

theorem before_char_hit (d : Char) (a b : Str) (ha : d ∉ a) : before [d] (a ++ d :: b) = a := by
  simp [before, splitFirst_char_hit d a b ha]

theorem before_char_miss (d : Char) (a : Str) (ha : d ∉ a) : before [d] a = a := by
  simp [before, splitFirst_char_miss d a ha]

theorem not_mem_spaces (d : Char) (n : Nat) (hd : isSpace d = false) : d ∉ spaces n := by
  intro h
  have := allSpace_spaces n d h
  rw [hd] at this; cases this

theorem mem_lstrip (s : Str) (c : Char) (h : c ∈ lstrip s) : c ∈ s :=
  (List.dropWhile_sublist _).subset h

/-! ### dictionaries -/

theorem dictGet_dictSet {α β : Type} [DecidableEq α] (d : List (α × β)) (k k' : α) (v : β) :
    dictGet (dictSet d k v) k' = if k = k' then some v else dictGet d k' := by
  induction d with
  | nil => simp [dictSet, dictGet]
  | cons p rest ih =>
    obtain ⟨a, b⟩ := p
    simp only [dictSet]
    by_cases h : a = k
    · subst h; simp only [if_true, dictGet]
      by_cases h2 : a = k' <;> simp [h2]
    · simp only [h, if_false, dictGet, ih]
      by_cases h2 : a = k'
      · subst h2
        have : ¬ k = a := fun e => h e.symm
        simp [this]
      · simp [h2]

theorem dictGet_foldl {α β : Type} [DecidableEq α] (ps : List (α × β)) (k : α) :
    ∀ d : List (α × β), dictGet (ps.foldl (fun d p => dictSet d p.1 p.2) d) k
      = ((ps.reverse.find? (fun p => p.1 = k)).map (·.2)).or (dictGet d k) := by
  induction ps with
  | nil => intro d; simp
  | cons p rest ih =>
    intro d
    simp only [List.foldl_cons, ih, dictGet_dictSet, List.reverse_cons, List.find?_append]
    cases h : rest.reverse.find? (fun p => decide (p.1 = k)) with
    | some q => simp
    | none =>
      by_cases e : p.1 = k <;> simp [e]

/-- last assignment wins -/
theorem dictGet_fromPairs {α β : Type} [DecidableEq α] (ps : List (α × β)) (k : α) :
    dictGet (fromPairs ps) k = (ps.reverse.find? (fun p => p.1 = k)).map (·.2) := by
  unfold fromPairs
  rw [dictGet_foldl]; simp [dictGet]

theorem dictSet_fresh {α β : Type} [DecidableEq α] (d : List (α × β)) (k : α) (v : β) (h : k ∉ d.map (·.1)) :
    dictSet d k v = d ++ [(k, v)] := by
  induction d with
  | nil => rfl
  | cons p rest ih =>
    have h1 : ¬ p.1 = k := fun e => h (by simp [e])
    have h2 : k ∉ rest.map (·.1) := fun e => h (by simp [e])
    simp [dictSet, h1, ih h2]

theorem foldl_dictSet_nodup {α β : Type} [DecidableEq α] (ps : List (α × β)) :
    ∀ d : List (α × β), ((d ++ ps).map (·.1)).Nodup → ps.foldl (fun d p => dictSet d p.1 p.2) d = d ++ ps := by
  induction ps with
  | nil => intro d _; simp
  | cons p rest ih =>
    intro d hn
    have hfresh : p.1 ∉ d.map (·.1) := by
      intro hm
      simp only [List.map_append, List.map_cons] at hn
      have := (List.nodup_append.mp hn).2.2 p.1 hm p.1 (by simp)
      exact this rfl
    simp only [List.foldl_cons, dictSet_fresh d p.1 p.2 hfresh]
    have : d ++ [(p.1, p.2)] ++ rest = d ++ p :: rest := by simp
    rw [ih (d ++ [(p.1, p.2)]) (by rw [this]; exact hn), this]

theorem fromPairs_of_nodup {α β : Type} [DecidableEq α] (ps : List (α × β)) (h : (ps.map (·.1)).Nodup) :
    fromPairs ps = ps := by
  have := foldl_dictSet_nodup ps [] (by simpa using h)
  simpa [fromPairs] using this

/-! ### key/value documents -/

/-- what the key/value format admits for one item: keys and values stripped, no comment character in
    either, no separator in the key (values may contain it); comment text is arbitrary -/
def KvItemOk (cc sep : Char) : KvItem → Prop
  | .pair _ k _ _ v _ _ => Stripped k ∧ Stripped v ∧ cc ∉ k ∧ cc ∉ v ∧ sep ∉ k
  | _ => True

/-- the active form of a rendered line: stripped text before the comment character -/
def activeOf (cc : Char) (l : Str) : Str := strip (before [cc] l)

theorem active_pair (cc sep : Char) (hcs : cc ≠ sep) (hc : isSpace cc = false) (hs : isSpace sep = false)
    (lead : Nat) (k : Str) (sp1 sp2 : Nat) (v : Str) (trail : Nat) (cm : Option Str)
    (hk : cc ∉ k) (hv : cc ∉ v) :
    activeOf cc (renderKvItem cc sep (.pair lead k sp1 sp2 v trail cm)) =
      lstrip (spaces lead ++ k ++ spaces sp1) ++ sep :: rstrip (spaces sp2 ++ v ++ spaces trail) := by
  have hnot : cc ∉ (spaces lead ++ k ++ spaces sp1) ++ sep :: (spaces sp2 ++ v ++ spaces trail) := by
    intro h
    simp only [List.mem_append, List.mem_cons] at h
    have n1 := not_mem_spaces cc lead hc
    have n2 := not_mem_spaces cc sp1 hc
    have n3 := not_mem_spaces cc sp2 hc
    have n4 := not_mem_spaces cc trail hc
    rcases h with ((h | h) | h) | h | (h | h) | h <;> first | exact n1 h | exact n2 h | exact n3 h | exact n4 h | exact hk h | exact hv h | exact hcs h
  have hb : before [cc] (renderKvItem cc sep (.pair lead k sp1 sp2 v trail cm)) =
      (spaces lead ++ k ++ spaces sp1) ++ sep :: (spaces sp2 ++ v ++ spaces trail) := by
    cases cm with
    | none =>
      have : renderKvItem cc sep (.pair lead k sp1 sp2 v trail none) =
          (spaces lead ++ k ++ spaces sp1) ++ sep :: (spaces sp2 ++ v ++ spaces trail) := by
        simp [renderKvItem]
      rw [this]; exact before_char_miss _ _ hnot
    | some t =>
      have : renderKvItem cc sep (.pair lead k sp1 sp2 v trail (some t)) =
          ((spaces lead ++ k ++ spaces sp1) ++ sep :: (spaces sp2 ++ v ++ spaces trail)) ++ cc :: t := by
        simp [renderKvItem]
      rw [this]; exact before_char_hit _ _ _ hnot
  unfold activeOf
  rw [hb]; exact strip_around _ _ _ hs

theorem active_comment (cc sep : Char) (hc : isSpace cc = false) (indent : Nat) (text : Str) :
    activeOf cc (renderKvItem cc sep (.comment indent text)) = [] := by
  unfold activeOf
  simp only [renderKvItem]
  rw [before_char_hit _ _ _ (not_mem_spaces cc indent hc)]
  exact strip_allSpace _ (allSpace_spaces _)

theorem active_blank (cc sep : Char) (hc : isSpace cc = false) (n : Nat) :
    activeOf cc (renderKvItem cc sep (.blank n)) = [] := by
  unfold activeOf
  simp only [renderKvItem]
  rw [before_char_miss _ _ (not_mem_spaces cc n hc)]
  exact strip_allSpace _ (allSpace_spaces _)

theorem kvStep_pair (sep : Char) (hs : isSpace sep = false) (up : Bool) (d : Dict)
    (lead : Nat) (k : Str) (sp1 sp2 : Nat) (v : Str) (trail : Nat)
    (hk : Stripped k) (hv : Stripped v) (hsk : sep ∉ k) :
    kvStep [sep] up d (lstrip (spaces lead ++ k ++ spaces sp1) ++ sep :: rstrip (spaces sp2 ++ v ++ spaces trail))
      = dictSet d k v := by
  have hnot : sep ∉ lstrip (spaces lead ++ k ++ spaces sp1) := by
    intro h
    have := mem_lstrip _ _ h
    simp only [List.mem_append] at this
    rcases this with (h | h) | h
    · exact not_mem_spaces sep lead hs h
    · exact hsk h
    · exact not_mem_spaces sep sp1 hs h
  unfold kvStep
  rw [splitFirst_char_hit _ _ _ hnot]
  simp only
  rw [strip_lstrip, strip_rstrip, strip_spaces_mid _ _ _ hk, strip_spaces_mid _ _ _ hv]

theorem kv_fold (cc sep : Char) (hcs : cc ≠ sep) (hc : isSpace cc = false) (hs : isSpace sep = false) (up : Bool) :
    ∀ (doc : List KvItem) (d : Dict), (∀ it ∈ doc, KvItemOk cc sep it) →
      (((renderKv cc sep doc).map (activeOf cc)).filter (fun l => !l.isEmpty)).foldl (kvStep [sep] up) d
        = (kvPairsOf doc).foldl (fun d p => dictSet d p.1 p.2) d := by
  intro doc
  induction doc with
  | nil => intro d _; rfl
  | cons it rest ih =>
    intro d hok
    have hrest : ∀ it ∈ rest, KvItemOk cc sep it := fun x hx => hok x (by simp [hx])
    have hit := hok it (by simp)
    cases it with
    | pair lead k sp1 sp2 v trail cm =>
      obtain ⟨hk, hv, hck, hcv, hsk⟩ := hit
      simp only [renderKv, List.map_cons, kvPairsOf, List.foldl_cons]
      rw [active_pair cc sep hcs hc hs lead k sp1 sp2 v trail cm hck hcv]
      have hne : (lstrip (spaces lead ++ k ++ spaces sp1) ++ sep :: rstrip (spaces sp2 ++ v ++ spaces trail)).isEmpty = false := by
        cases lstrip (spaces lead ++ k ++ spaces sp1) <;> rfl
      rw [List.filter_cons, hne]
      simp only [Bool.not_false, if_true, List.foldl_cons]
      rw [kvStep_pair sep hs up d lead k sp1 sp2 v trail hk hv hsk]
      exact ih _ hrest
    | comment indent text =>
      simp only [renderKv, List.map_cons, kvPairsOf]
      rw [active_comment cc sep hc indent text, List.filter_cons]
      simp only [List.isEmpty_nil, Bool.not_true, Bool.false_eq_true, if_false]
      exact ih d hrest
    | blank n =>
      simp only [renderKv, List.map_cons, kvPairsOf]
      rw [active_blank cc sep hc n, List.filter_cons]
      simp only [List.isEmpty_nil, Bool.not_true, Bool.false_eq_true, if_false]
      exact ih d hrest

theorem kv_roundtrip_aux (cc sep : Char) (hcs : cc ≠ sep) (hc : isSpace cc = false) (hs : isSpace sep = false)
    (doc : List KvItem) (hdoc : ∀ it ∈ doc, KvItemOk cc sep it) (usePartition : Bool) :
    splitKvPairs (renderKv cc sep doc) (some [cc]) none [sep] usePartition = .ok (fromPairs (kvPairsOf doc)) := by
  have := kv_fold cc sep hcs hc hs usePartition doc [] hdoc
  simp only [splitKvPairs, getActiveLines, List.isEmpty_cons, Bool.false_eq_true, if_false, bind, Except.bind, pure, Except.pure]
  unfold fromPairs
  rw [← this]
  rfl

/-- a line whose text before the comment string strips to nothing never reaches the splitting loop -/
theorem getActiveLines_inert (cc : Str) (hcc : cc ≠ []) (pre post : List Str) (l : Str)
    (hl : strip (before cc l) = []) :
    getActiveLines (pre ++ l :: post) cc = getActiveLines (pre ++ post) cc := by
  have h1 : cc.isEmpty = false := by cases cc with
    | nil => exact absurd rfl hcc
    | cons _ _ => rfl
  simp [getActiveLines, h1, hl]

theorem comments_inert_aux (cc : Str) (hcc : cc ≠ []) (pre post : List Str) (l : Str)
    (hl : strip (before cc l) = []) (filter : Option Str) (splitOn : Str) (up : Bool) :
    splitKvPairs (pre ++ l :: post) (some cc) filter splitOn up
      = splitKvPairs (pre ++ post) (some cc) filter splitOn up := by
  unfold splitKvPairs
  simp only [getActiveLines_inert cc hcc pre post l hl]

/-! ### the header search of `calc_column_indices` -/

theorem isPrefixOf_space_false (h : Str) (rest : Str) (c : Char) (hne : h ≠ [])
    (hh : ∀ x, h.head? = some x → isSpace x = false) : h.isPrefixOf (' ' :: rest) = false := by
  cases h with
  | nil => exact absurd rfl hne
  | cons x xs =>
    have hx : isSpace x = false := hh x rfl
    have : x ≠ ' ' := by intro e; rw [e] at hx; rw [isSpace_space] at hx; cases hx
    simp [List.isPrefixOf, this]

theorem isPrefixOf_append_self (h rest : Str) : h.isPrefixOf (h ++ rest) = true := by
  induction h with
  | nil => simp [List.isPrefixOf]
  | cons x xs ih => simp [List.isPrefixOf, ih]

/-- searching a header that starts with a non-space character in text that begins with `p` spaces
    followed by the header finds it exactly at `p`: any earlier candidate starts with a space -/
theorem find_after_spaces (h rest : Str) (p : Nat) (hne : h ≠ [])
    (hh : ∀ x, h.head? = some x → isSpace x = false) :
    find h (spaces p ++ h ++ rest) = some p := by
  induction p with
  | zero =>
    cases h with
    | nil => exact absurd rfl hne
    | cons x xs =>
      have := isPrefixOf_append_self (x :: xs) rest
      simp only [spaces, List.replicate, List.nil_append, List.cons_append] at *
      simp [find, this]
  | succ n ih =>
    have e : spaces (n + 1) ++ h ++ rest = ' ' :: (spaces n ++ h ++ rest) := by
      simp [spaces, List.replicate_succ]
    rw [e]
    simp only [find, isPrefixOf_space_false h _ ' ' hne hh, Bool.false_eq_true, if_false, ih]
    rfl

theorem findFrom_after_spaces (pre h rest : Str) (p : Nat) (hne : h ≠ [])
    (hh : ∀ x, h.head? = some x → isSpace x = false) :
    findFrom h (pre ++ (spaces p ++ h ++ rest)) pre.length = some (pre.length + p) := by
  unfold findFrom
  have : ¬ pre.length > (pre ++ (spaces p ++ h ++ rest)).length := by simp
  simp only [this, if_false, List.drop_left]
  rw [find_after_spaces h rest p hne hh]
  simp [Nat.add_comm]

/-! ### fixed-width tables -/

/-- a header: not empty and free of white space -/
def NameOk (n : Str) : Prop := n ≠ [] ∧ ∀ x ∈ n, isSpace x = false

theorem NameOk.head {n : Str} (h : NameOk n) : ∀ x, n.head? = some x → isSpace x = false := by
  intro x hx
  cases n with
  | nil => simp at hx
  | cons y ys => simp at hx; subst hx; exact h.2 y (by simp)

/-- the true start of every column, the last one included -/
def starts (s : Nat) : List Col → List Nat
  | [] => [s]
  | c :: cs => s :: starts (s + c.width) cs

theorem starts_head (s : Nat) (cols : List Col) : ∃ tl, starts s cols = s :: tl := by
  cases cols with
  | nil => exact ⟨[], rfl⟩
  | cons c cs => exact ⟨_, rfl⟩

theorem padTo_length (w : Nat) (x : Str) (h : x.length ≤ w) : (padTo w x).length = w := by
  simp [padTo, spaces]; omega

theorem calcColumnIndices_render (lastName tail : Str) (hlast : NameOk lastName) :
    ∀ (cols : List Col), (∀ c ∈ cols, NameOk c.name ∧ c.name.length < c.width) → ∀ (pre : Str) (p : Nat),
      calcColumnIndices (pre ++ (spaces p ++ (renderCells cols (cols.map (·.name)) ++ (lastName ++ tail))))
        (cols.map (·.name) ++ [lastName]) pre.length = some (starts (pre.length + p) cols) := by
  intro cols
  induction cols with
  | nil =>
    intro _ pre p
    simp only [List.map_nil, renderCells, List.nil_append, calcColumnIndices]
    have := findFrom_after_spaces pre lastName tail p hlast.1 hlast.head
    simp only [List.append_assoc] at this
    rw [this]; rfl
  | cons c cs ih =>
    intro hc pre p
    have hc0 := hc c (by simp)
    have hcs : ∀ c ∈ cs, NameOk c.name ∧ c.name.length < c.width := fun x hx => hc x (by simp [hx])
    simp only [List.map_cons, renderCells, List.cons_append, calcColumnIndices, padTo]
    have hf := findFrom_after_spaces pre c.name
      (spaces (c.width - c.name.length) ++ (renderCells cs (cs.map (·.name)) ++ (lastName ++ tail))) p hc0.1.1 hc0.1.head
    simp only [List.append_assoc] at hf ⊢
    rw [hf]
    simp only
    have e : pre ++ (spaces p ++ (c.name ++ (spaces (c.width - c.name.length) ++
          (renderCells cs (cs.map (·.name)) ++ (lastName ++ tail)))))
        = (pre ++ spaces p ++ c.name) ++ (spaces (c.width - c.name.length) ++
          (renderCells cs (cs.map (·.name)) ++ (lastName ++ tail))) := by simp [List.append_assoc]
    have hl : (pre ++ spaces p ++ c.name).length = pre.length + p + c.name.length := by
      simp [spaces_length]; omega
    have := ih hcs (pre ++ spaces p ++ c.name) (c.width - c.name.length)
    rw [hl] at this
    rw [e, this]
    have : pre.length + p + c.name.length + (c.width - c.name.length) = pre.length + p + c.width := by
      have := hc0.2; omega
    simp [starts, this]

theorem cutRow_cons (line h : Str) (hs : List Str) (p : Nat × Option Nat) (ps : List (Nat × Option Nat)) :
    cutRow line (h :: hs) (p :: ps) = (h, strip (slice line p.1 p.2)) :: cutRow line hs ps := by
  simp [cutRow]

theorem cutRow_render (lastName lastCell : Str) (trail : Nat) (hlc : Stripped lastCell) :
    ∀ (cols : List Col) (cells : List Str) (pre : Str), cells.length = cols.length →
      (∀ p ∈ cells.zip cols, p.1.length ≤ p.2.width) → (∀ x ∈ cells, Stripped x) →
      cutRow (pre ++ (renderCells cols cells ++ (lastCell ++ spaces trail)))
          (cols.map (·.name) ++ [lastName]) (idxPairs (starts pre.length cols))
        = (cols.map (·.name) ++ [lastName]).zip (cells ++ [lastCell]) := by
  intro cols
  induction cols with
  | nil =>
    intro cells pre hlen _ _
    have : cells = [] := by cases cells with
      | nil => rfl
      | cons _ _ => simp at hlen
    subst this
    simp only [List.map_nil, List.nil_append, renderCells, starts, idxPairs]
    rw [cutRow_cons]
    simp only [slice, List.drop_left, cutRow, List.zip_nil_left, List.map_nil, List.zip_cons_cons, List.zip_nil_right]
    rw [strip_append_spaces _ _ hlc]
  | cons c cs ih =>
    intro cells pre hlen hfit hstr
    cases cells with
    | nil => simp at hlen
    | cons x xs =>
      have hlen' : xs.length = cs.length := by simpa using hlen
      have hx : x.length ≤ c.width := hfit (x, c) (by simp)
      have hfit' : ∀ p ∈ xs.zip cs, p.1.length ≤ p.2.width := fun p hp => hfit p (by simp [hp])
      have hsx : Stripped x := hstr x (by simp)
      have hstr' : ∀ y ∈ xs, Stripped y := fun y hy => hstr y (by simp [hy])
      obtain ⟨tl, htl⟩ := starts_head (pre.length + c.width) cs
      simp only [List.map_cons, List.cons_append, renderCells, starts]
      rw [htl]
      simp only [idxPairs]
      rw [cutRow_cons, ← htl]
      have hsl : slice (pre ++ (padTo c.width x ++ renderCells cs xs ++ (lastCell ++ spaces trail))) pre.length
          (some (pre.length + c.width)) = padTo c.width x := by
        simp only [slice, List.drop_left, List.append_assoc]
        have : pre.length + c.width - pre.length = (padTo c.width x).length := by
          rw [padTo_length _ _ hx]; omega
        rw [this, List.take_left]
      simp only at hsl ⊢
      rw [hsl, strip_padTo _ _ hsx]
      have e : pre ++ (padTo c.width x ++ renderCells cs xs ++ (lastCell ++ spaces trail))
          = (pre ++ padTo c.width x) ++ (renderCells cs xs ++ (lastCell ++ spaces trail)) := by
        simp [List.append_assoc]
      have hl : (pre ++ padTo c.width x).length = pre.length + c.width := by
        simp [padTo_length _ _ hx]
      have := ih xs (pre ++ padTo c.width x) hlen' hfit' hstr'
      rw [hl] at this
      rw [e, this]
      simp

/-! ### white-space splitting of the header line -/

theorem splitWsGo_allSpace (w : Str) (hw : AllSpace w) :
    ∀ cur : Str, splitWsGo none cur w = if cur.isEmpty then [] else [cur] := by
  induction w with
  | nil => intro cur; simp [splitWsGo]
  | cons c cs ih =>
    intro cur
    have hc : isSpace c = true := hw c (by simp)
    have hcs : AllSpace cs := fun x hx => hw x (by simp [hx])
    have h0 := ih hcs []
    simp only [List.isEmpty_nil, if_true] at h0
    cases hcur : cur.isEmpty with
    | true => simp [splitWsGo, hcur, hc, h0]
    | false => simp [splitWsGo, hcur, hc, h0]

theorem splitWsGo_lead (w rest : Str) (hw : AllSpace w) : splitWsGo none [] (w ++ rest) = splitWsGo none [] rest := by
  induction w with
  | nil => rfl
  | cons c cs ih =>
    have hc : isSpace c = true := hw c (by simp)
    simp only [List.cons_append, splitWsGo, List.isEmpty_nil, if_true, hc]
    exact ih (fun x hx => hw x (by simp [hx]))

theorem splitWsGo_trail (w : Str) (hw : AllSpace w) : ∀ (t cur : Str),
    splitWsGo none cur (t ++ w) = splitWsGo none cur t := by
  intro t
  induction t with
  | nil => intro cur; simp [splitWsGo, splitWsGo_allSpace w hw]
  | cons c cs ih =>
    intro cur
    have hb : ((none : Option Nat) == some 0) = false := rfl
    simp only [List.cons_append, splitWsGo, ih, hb, Option.map_none]
    simp

theorem splitWs_strip (s : Str) : splitWs none (strip s) = splitWs none s := by
  obtain ⟨w1, w2, h1, h2, e⟩ := strip_decomp s
  unfold splitWs
  conv => rhs; rw [e]
  rw [List.append_assoc, splitWsGo_lead _ _ h1, splitWsGo_trail _ h2]

theorem splitWsGo_word (w rest : Str) (hw : ∀ x ∈ w, isSpace x = false) : ∀ cur : Str,
    splitWsGo none cur (w ++ rest) = splitWsGo none (cur ++ w) rest := by
  induction w with
  | nil => intro cur; simp
  | cons c cs ih =>
    intro cur
    have hc : isSpace c = false := hw c (by simp)
    have hcs : ∀ x ∈ cs, isSpace x = false := fun x hx => hw x (by simp [hx])
    cases hcur : cur.isEmpty with
    | true =>
      have : cur = [] := by simpa using hcur
      subst this
      simp only [List.cons_append, splitWsGo, List.isEmpty_nil, if_true, hc, Bool.false_eq_true, if_false]
      have hb : ((none : Option Nat) == some 0) = false := rfl
      simp only [hb, Bool.false_eq_true, if_false]
      rw [ih hcs]; simp
    | false =>
      simp only [List.cons_append, splitWsGo, hcur, Bool.false_eq_true, if_false, hc]
      rw [ih hcs]; simp

theorem splitWsGo_gap (cur rest : Str) (n : Nat) (hcur : cur ≠ []) :
    splitWsGo none cur (spaces (n + 1) ++ rest) = cur :: splitWsGo none [] rest := by
  have e : spaces (n + 1) ++ rest = ' ' :: (spaces n ++ rest) := by simp [spaces, List.replicate_succ]
  have hc : cur.isEmpty = false := by cases cur with
    | nil => exact absurd rfl hcur
    | cons _ _ => rfl
  rw [e]
  simp only [splitWsGo, hc, Bool.false_eq_true, if_false, isSpace_space, if_true, Option.map_none]
  rw [splitWsGo_lead _ _ (allSpace_spaces n)]

theorem splitWs_header (lastName : Str) (lastPad : Nat) (hlast : NameOk lastName) :
    ∀ (cols : List Col), (∀ c ∈ cols, NameOk c.name ∧ c.name.length < c.width) →
      splitWsGo none [] (renderCells cols (cols.map (·.name)) ++ (lastName ++ spaces lastPad))
        = cols.map (·.name) ++ [lastName] := by
  intro cols
  induction cols with
  | nil =>
    intro _
    simp only [List.map_nil, renderCells, List.nil_append]
    rw [splitWsGo_word _ _ hlast.2, splitWsGo_allSpace _ (allSpace_spaces _)]
    have : ([] ++ lastName).isEmpty = false := by
      cases lastName with
      | nil => exact absurd rfl hlast.1
      | cons _ _ => rfl
    simp [this, hlast.1]
  | cons c cs ih =>
    intro hc
    have hc0 := hc c (by simp)
    have hcs : ∀ c ∈ cs, NameOk c.name ∧ c.name.length < c.width := fun x hx => hc x (by simp [hx])
    obtain ⟨g, hg⟩ : ∃ g, c.width - c.name.length = g + 1 := ⟨c.width - c.name.length - 1, by have := hc0.2; omega⟩
    simp only [List.map_cons, renderCells, padTo, List.append_assoc, List.cons_append]
    rw [splitWsGo_word _ _ hc0.1.2, hg, List.nil_append, splitWsGo_gap _ _ _ hc0.1.1, ih hcs]

/-! ### calc_offset on a rendered table -/

theorem calcOffsetGo_heading (tgt : List Str) (hdr : Str) (rest : List Str) (hh : foundAny tgt (strip hdr) = true) :
    ∀ junk : List Str, (∀ j ∈ junk, foundAny tgt (strip j) = false) →
      calcOffsetGo tgt false false (junk ++ hdr :: rest) = some junk.length := by
  intro junk
  induction junk with
  | nil => intro _; simp [calcOffsetGo, hh]
  | cons j js ih =>
    intro hj
    have h0 := hj j (by simp)
    have := ih (fun x hx => hj x (by simp [hx]))
    simp [calcOffsetGo, h0, this]

theorem calcOffsetGo_trailing (tgt : List Str) (ra : Bool) (x : Str) (rest : List Str)
    (hx1 : strip x ≠ []) (hx2 : foundAny tgt (strip x) = false) :
    ∀ foot : List Str, (∀ f ∈ foot, strip f = [] ∨ foundAny tgt (strip f) = true) →
      calcOffsetGo tgt true ra (foot ++ x :: rest) = some foot.length := by
  intro foot
  induction foot with
  | nil =>
    intro _
    have : (strip x).isEmpty = false := by
      cases h : strip x with
      | nil => exact absurd h hx1
      | cons _ _ => rfl
    simp [calcOffsetGo, hx2, this]
  | cons f fs ih =>
    intro hf
    have := ih (fun y hy => hf y (by simp [hy]))
    rcases hf f (by simp) with h0 | h0
    · simp [calcOffsetGo, h0, this]
    · simp [calcOffsetGo, h0, this]

/-! ### the fixed-width round trip -/

/-- what `renderFixed` admits, relative to the `heading_ignore` / `trailing_ignore` arguments `hi`, `ti` -/
structure FixedTable.WF (t : FixedTable) (hi ti : List Str) : Prop where
  /-- headers are non-empty and space-free; every column but the last is wider than its header -/
  cols_ok : ∀ c ∈ t.cols, NameOk c.name ∧ c.name.length < c.width
  last_ok : NameOk t.lastName
  /-- a row has one cell per column, each stripped and fitting its column (the last is open-ended),
      and at least one non-empty cell -/
  rows_ok : ∀ r ∈ t.rows, r.1.length = t.cols.length ∧ (∀ p ∈ r.1.zip t.cols, p.1.length ≤ p.2.width) ∧
              (∀ x ∈ rowCells r, Stripped x) ∧ (∃ x ∈ rowCells r, x ≠ [])
  /-- no junk line looks like the heading; the heading line does (junk needs a `heading_ignore`) -/
  junk_ok : ∀ j ∈ t.junk, foundAny (hi.map strip) (strip j) = false
  head_ok : if hi = [] then t.junk = [] else foundAny (hi.map strip) (strip t.headerLine) = true
  /-- footer lines are blank or start with a `trailing_ignore` string; heading and data lines do not -/
  foot_ok : if ti = [] then t.footer = [] else ∀ f ∈ t.footer, strip f = [] ∨ foundAny (ti.map strip) (strip f) = true
  data_ok : ∀ l ∈ t.headerLine :: t.rows.map t.rowLine, foundAny (ti.map strip) (strip l) = false

theorem mem_renderCells (x : Char) (cell : Str) (hx : x ∈ cell) :
    ∀ (cols : List Col) (cells : List Str), cells.length = cols.length → cell ∈ cells → x ∈ renderCells cols cells := by
  intro cols
  induction cols with
  | nil => intro cells hl hc; cases cells with
    | nil => simp at hc
    | cons _ _ => simp at hl
  | cons c cs ih =>
    intro cells hl hc
    cases cells with
    | nil => simp at hc
    | cons y ys =>
      simp only [renderCells, List.mem_append]
      rcases List.mem_cons.mp hc with rfl | h
      · left; simp [padTo, hx]
      · right; exact ih ys (by simpa using hl) h

theorem strip_ne_nil_of_mem (l : Str) (x : Char) (hx : x ∈ l) (hs : isSpace x = false) : strip l ≠ [] := by
  intro h
  have := allSpace_of_strip_nil l h x hx
  rw [hs] at this; cases this

theorem stripped_head_mem (cell : Str) (hne : cell ≠ []) (hs : Stripped cell) : ∃ x ∈ cell, isSpace x = false := by
  cases cell with
  | nil => exact absurd rfl hne
  | cons y ys => exact ⟨y, by simp, hs.1 y rfl⟩

theorem rowLine_nonblank (t : FixedTable) (r : List Str × Str × Nat) (hlen : r.1.length = t.cols.length)
    (hstr : ∀ x ∈ rowCells r, Stripped x) (hne : ∃ x ∈ rowCells r, x ≠ []) : strip (t.rowLine r) ≠ [] := by
  obtain ⟨cell, hc, hcne⟩ := hne
  obtain ⟨x, hx, hxs⟩ := stripped_head_mem cell hcne (hstr cell hc)
  apply strip_ne_nil_of_mem _ x _ hxs
  simp only [rowCells, List.mem_append, List.mem_singleton] at hc
  simp only [FixedTable.rowLine, List.mem_append]
  rcases hc with h | h
  · left; left; right; exact mem_renderCells x cell hx t.cols r.1 hlen h
  · left; right; rw [← h]; exact hx

theorem headerLine_nonblank (t : FixedTable) (hlast : NameOk t.lastName) : strip t.headerLine ≠ [] := by
  cases hn : t.lastName with
  | nil => exact absurd hn hlast.1
  | cons y ys =>
    apply strip_ne_nil_of_mem _ y _ (hlast.2 y (by rw [hn]; simp))
    simp [FixedTable.headerLine, hn]

theorem fixedRows_render (t : FixedTable) (hi ti : List Str) (h : t.WF hi ti) :
    ∀ rows : List (List Str × Str × Nat), (∀ r ∈ rows, r ∈ t.rows) →
      fixedRows false t.names (idxPairs (starts t.lead t.cols)) (rows.map t.rowLine)
        = .ok (rows.map (fun r => fromPairs (t.names.zip (rowCells r)))) := by
  intro rows
  induction rows with
  | nil => intro _; rfl
  | cons r rs ih =>
    intro hr
    obtain ⟨hlen, hfit, hstr, hne⟩ := h.rows_ok r (hr r (by simp))
    have hnb := rowLine_nonblank t r hlen hstr hne
    have hnb' : (strip (t.rowLine r)).isEmpty = false := by
      cases hs : strip (t.rowLine r) with
      | nil => exact absurd hs hnb
      | cons _ _ => rfl
    have hcut : cutRow (t.rowLine r) t.names (idxPairs (starts t.lead t.cols)) = t.names.zip (rowCells r) := by
      have := cutRow_render t.lastName r.2.1 r.2.2 (hstr r.2.1 (by simp [rowCells])) t.cols r.1 (spaces t.lead) hlen hfit
        (fun x hx => hstr x (by simp [rowCells, hx]))
      simp only [spaces_length] at this
      simp only [FixedTable.rowLine, FixedTable.names, rowCells, List.append_assoc] at this ⊢
      exact this
    simp only [List.map_cons, fixedRows, hnb', Bool.false_eq_true, if_false, Bool.false_and, hcut]
    rw [ih (fun x hx => hr x (by simp [hx]))]

theorem fixed_roundtrip_aux (t : FixedTable) (hi ti : List Str) (h : t.WF hi ti) :
    parseFixedTable (renderFixed t) hi [] ti false
      = .ok (t.rows.map (fun r => fromPairs (t.names.zip (rowCells r)))) := by
  -- first line
  have hfirst : calcOffset (renderFixed t) hi false false = some t.junk.length := by
    unfold calcOffset renderFixed
    have hh := h.head_ok
    by_cases e : hi = []
    · simp only [e, if_true] at hh
      simp [e, hh]
    · simp only [e, if_false] at hh
      have : hi.isEmpty = false := by cases hi with
        | nil => exact absurd rfl e
        | cons _ _ => rfl
      simp only [this, Bool.false_eq_true, if_false]
      exact calcOffsetGo_heading _ _ _ hh _ h.junk_ok
  -- last line
  have hlast : calcOffset (renderFixed t).reverse ti true false = some t.footer.length := by
    unfold calcOffset
    have hf := h.foot_ok
    by_cases e : ti = []
    · simp only [e, if_true] at hf
      simp [e, hf]
    · simp only [e, if_false] at hf
      have : ti.isEmpty = false := by cases ti with
        | nil => exact absurd rfl e
        | cons _ _ => rfl
      simp only [this, Bool.false_eq_true, if_false]
      -- the reversed text: reversed footer, then the last data line (or the heading)
      have hrev : (renderFixed t).reverse = t.footer.reverse ++ ((t.headerLine :: t.rows.map t.rowLine).reverse ++ t.junk.reverse) := by
        simp [renderFixed, List.append_assoc]
      cases hd : (t.headerLine :: t.rows.map t.rowLine).reverse with
      | nil => simp at hd
      | cons x xs =>
        have hxmem : x ∈ t.headerLine :: t.rows.map t.rowLine := by
          have : x ∈ (t.headerLine :: t.rows.map t.rowLine).reverse := by rw [hd]; simp
          exact List.mem_reverse.mp this
        have hx2 := h.data_ok x hxmem
        have hx1 : strip x ≠ [] := by
          rcases List.mem_cons.mp hxmem with rfl | hm
          · exact headerLine_nonblank t h.last_ok
          · obtain ⟨r, hr, rfl⟩ := List.mem_map.mp hm
            obtain ⟨hlen, _, hstr, hne⟩ := h.rows_ok r hr
            exact rowLine_nonblank t r hlen hstr hne
        rw [hrev, hd, List.cons_append]
        have := calcOffsetGo_trailing (ti.map strip) false x (xs ++ t.junk.reverse) hx1 hx2 t.footer.reverse
          (fun f hf' => hf f (by simpa using hf'))
        simpa using this
  have hget : (renderFixed t)[t.junk.length]? = some t.headerLine := by
    simp [renderFixed]
  have hsplit : splitWs none (strip (applySubst [] t.headerLine)) = t.names := by
    simp only [applySubst, List.foldl_nil]
    rw [splitWs_strip]
    unfold splitWs FixedTable.headerLine FixedTable.names
    rw [List.append_assoc, List.append_assoc, splitWsGo_lead _ _ (allSpace_spaces _)]
    exact splitWs_header _ _ h.last_ok _ h.cols_ok
  have hidx : calcColumnIndices (applySubst [] t.headerLine) t.names 0 = some (starts t.lead t.cols) := by
    simp only [applySubst, List.foldl_nil]
    have := calcColumnIndices_render t.lastName (spaces t.lastPad) h.last_ok t.cols h.cols_ok [] t.lead
    simp only [List.nil_append, List.length_nil, Nat.zero_add] at this
    simp only [FixedTable.headerLine, FixedTable.names, List.append_assoc]
    exact this
  have hslice : sliceLines (renderFixed t) (t.junk.length + 1) ((renderFixed t).length - t.footer.length)
      = t.rows.map t.rowLine := by
    unfold sliceLines renderFixed
    have e1 : (t.junk ++ t.headerLine :: (t.rows.map t.rowLine ++ t.footer)).drop (t.junk.length + 1)
        = t.rows.map t.rowLine ++ t.footer := by
      have : t.junk.length + 1 = t.junk.length + 1 := rfl
      rw [List.drop_append]
      simp
    rw [e1]
    have e2 : (t.junk ++ t.headerLine :: (t.rows.map t.rowLine ++ t.footer)).length - t.footer.length - (t.junk.length + 1)
        = (t.rows.map t.rowLine).length := by
      simp; omega
    rw [e2, List.take_left]
  unfold parseFixedTable
  simp only [hfirst, hlast, hget, hsplit, hidx, hslice]
  exact fixedRows_render t hi ti h t.rows (fun r hr => hr)

/-! ### IniConfigFile: the section list -/

def insKey (acc : List Str) (k : Str) : List Str := if k ∈ acc then acc else acc ++ [k]

theorem keys_dictSet {β : Type} (d : List (Str × β)) (k : Str) (v : β) :
    (dictSet d k v).map (·.1) = insKey (d.map (·.1)) k := by
  induction d with
  | nil => simp [dictSet, insKey]
  | cons p rest ih =>
    simp only [dictSet]
    by_cases h : p.1 = k
    · simp [h, insKey]
    · have h' : ¬ k = p.1 := fun e => h e.symm
      simp only [h, if_false, List.map_cons, ih, insKey, List.mem_cons, h', false_or]
      split <;> simp

theorem foldl_insKey (ks : List Str) : ∀ acc : List Str,
    ks.foldl insKey acc = acc ++ (dedup ks).filter (fun x => decide (x ∉ acc)) := by
  induction ks with
  | nil => intro acc; simp [dedup]
  | cons k ks ih =>
    intro acc
    simp only [List.foldl_cons, dedup]
    by_cases hk : k ∈ acc
    · simp only [insKey, hk, if_true, ih, List.filter_cons, decide_not, decide_true, Bool.not_true, Bool.false_eq_true, if_false, List.filter_filter]
      congr 1
      apply List.filter_congr
      intro x _
      by_cases hx : x ∈ acc
      · simp [hx]
      · have : x ≠ k := fun e => hx (e ▸ hk)
        simp [hx, this]
    · simp only [insKey, hk, if_false, ih, List.filter_cons, decide_not, decide_false, Bool.not_false, if_true, List.filter_filter, List.append_assoc, List.singleton_append]
      congr 2
      apply List.filter_congr
      intro x _
      by_cases hx : x ∈ acc
      · simp [hx]
      · by_cases e : x = k <;> simp [hx, e]

theorem keys_buildDict (anv : Bool) (t : IniTree) : ∀ d : IniDict,
    (t.foldl (fun d s =>
      let sd := sectionDict anv s
      match dictGet d s.name with
      | some old => dictSet d s.name (dictUpdate old sd)
      | none => dictSet d s.name sd) d).map (·.1) = (t.map (·.name)).foldl insKey (d.map (·.1)) := by
  induction t with
  | nil => intro d; rfl
  | cons s rest ih =>
    intro d
    simp only [List.foldl_cons, List.map_cons]
    rw [ih]
    congr 1
    cases dictGet d s.name <;> simp [keys_dictSet]

theorem applyDefaults_names (t : IniTree) : (applyDefaults t).map (·.name) = t.map (·.name) := by
  unfold applyDefaults
  split
  · rfl
  · simp only [List.map_map]
    apply List.map_congr_left
    intro s _
    simp only [Function.comp]
    split <;> rfl

theorem ini_sections_aux (anv : Bool) (t : IniTree) :
    iniSections (iniView anv t) = (dedup (t.map (·.name))).filter (· ≠ DEFAULT) := by
  have h2 : (buildDict anv (applyDefaults t)).map (·.1)
      = ((applyDefaults t).map (·.name)).foldl insKey (([] : IniDict).map (·.1)) := keys_buildDict anv (applyDefaults t) []
  unfold iniSections iniView
  rw [h2, applyDefaults_names, foldl_insKey]
  simp


/-! ### keyword_search: the keyword of a heading -/

theorem replaceGo_char (a b : Char) (s : Str) :
    replaceGo [a] [b] 0 s = s.map (fun c => if c = a then b else c) := by
  induction s with
  | nil => rfl
  | cons c cs ih =>
    by_cases h : c = a
    · subst h; simp [replaceGo, List.isPrefixOf, ih]
    · have h' : ¬ a = c := fun e => h e.symm
      simp [replaceGo, List.isPrefixOf, ih, h, h']

theorem replaceAll_char (a b : Char) (s : Str) :
    replaceAll [a] [b] s = s.map (fun c => if c = a then b else c) := by
  simp [replaceAll, replaceGo_char]

/-- the transformation in the code is the documented one: only ' ' and '-' become '_' -/
theorem txKey_eq_kwOf_aux (k : Str) : txKey k = kwOf k := by
  unfold txKey kwOf
  rw [replaceAll_char, replaceAll_char, List.map_map]
  apply List.map_congr_left
  intro c _
  simp only [Function.comp]
  by_cases h1 : c = ' '
  · subst h1; decide
  · by_cases h2 : c = '-'
    · subst h2; decide
    · simp [h1, h2]

theorem kwOf_self (h : Str) (h1 : ' ' ∉ h) (h2 : '-' ∉ h) : kwOf h = h := by
  unfold kwOf
  conv => rhs; rw [← List.map_id h]
  apply List.map_congr_left
  intro c hc
  have a : c ≠ ' ' := fun e => h1 (e ▸ hc)
  have b : c ≠ '-' := fun e => h2 (e ▸ hc)
  simp [a, b]

theorem find_map_pair (f : Str → Str) (kw : Str) (l : List Str) :
    ((l.map (fun k => (f k, k))).find? (fun p => p.1 = kw)).map (·.2) = l.find? (fun k => f k = kw) := by
  induction l with
  | nil => rfl
  | cons x xs ih =>
    simp only [List.map_cons, List.find?_cons]
    by_cases h : f x = kw
    · simp [h]
    · simp only [h, decide_false, Bool.false_eq_true, if_false]
      exact ih

/-- which heading a keyword names: the LAST one, in the iteration order of the key set, whose
    documented keyword it is -/
theorem txKeysOf_get (keys : List Str) (kw : Str) :
    dictGet (txKeysOf keys) kw = keys.reverse.find? (fun k => kwOf k = kw) := by
  unfold txKeysOf
  rw [dictGet_fromPairs, ← List.map_reverse]
  have := find_map_pair txKey kw keys.reverse
  rw [this]
  simp only [txKey_eq_kwOf_aux]


/-! ### keyword_search: the table since fix 1e9b608 (sorted keys, exact headings name themselves) -/

theorem char_eq_of_toNat {a b : Char} (h : a.toNat = b.toNat) : a = b := by
  apply Char.ext; apply UInt32.toNat_inj.mp; exact h

theorem strLe_refl : ∀ a : Str, strLe a a = true
  | [] => rfl
  | x :: xs => by simp [strLe, strLe_refl xs]

theorem strLe_total : ∀ a b : Str, (strLe a b || strLe b a) = true
  | [], _ => by simp [strLe]
  | _ :: _, [] => by simp [strLe]
  | x :: xs, y :: ys => by
    have := strLe_total xs ys
    simp only [strLe]
    by_cases h1 : x.toNat < y.toNat
    · simp [h1]
    · by_cases h2 : y.toNat < x.toNat
      · simp [h1, h2]
      · simpa [h1, h2] using this

theorem strLe_antisymm : ∀ a b : Str, strLe a b = true → strLe b a = true → a = b
  | [], [], _, _ => rfl
  | [], _ :: _, _, h => by simp [strLe] at h
  | _ :: _, [], h, _ => by simp [strLe] at h
  | x :: xs, y :: ys, h1, h2 => by
    simp only [strLe] at h1 h2
    by_cases a : x.toNat < y.toNat
    · have : ¬ y.toNat < x.toNat := by omega
      simp [a, this] at h2
    · by_cases b : y.toNat < x.toNat
      · simp [a, b] at h1
      · simp [a, b] at h1 h2
        have e : x = y := char_eq_of_toNat (by omega)
        rw [e, strLe_antisymm xs ys h1 h2]

theorem strLe_trans : ∀ a b c : Str, strLe a b = true → strLe b c = true → strLe a c = true
  | [], _, _, _, _ => by simp [strLe]
  | _ :: _, [], _, h, _ => by simp [strLe] at h
  | _ :: _, _ :: _, [], _, h => by simp [strLe] at h
  | x :: xs, y :: ys, z :: zs, h1, h2 => by
    simp only [strLe] at h1 h2 ⊢
    by_cases a : x.toNat < y.toNat
    · by_cases b : y.toNat < z.toNat
      · have : x.toNat < z.toNat := by omega
        simp [this]
      · by_cases b' : z.toNat < y.toNat
        · simp [b, b'] at h2
        · have : x.toNat < z.toNat := by omega
          simp [this]
    · by_cases a' : y.toNat < x.toNat
      · simp [a, a'] at h1
      · simp [a, a'] at h1
        by_cases b : y.toNat < z.toNat
        · have : x.toNat < z.toNat := by omega
          simp [this]
        · by_cases b' : z.toNat < y.toNat
          · simp [b, b'] at h2
          · simp [b, b'] at h2
            have c1 : ¬ x.toNat < z.toNat := by omega
            have c2 : ¬ z.toNat < x.toNat := by omega
            simp [c1, c2]
            exact strLe_trans xs ys zs h1 h2


theorem insertSorted_perm (k : Str) : ∀ l : List Str, (insertSorted k l).Perm (k :: l)
  | [] => List.Perm.refl _
  | x :: xs => by
    simp only [insertSorted]
    split
    · exact List.Perm.refl _
    · exact ((insertSorted_perm k xs).cons x).trans (List.Perm.swap k x xs)

theorem sortKeys_perm : ∀ l : List Str, (sortKeys l).Perm l
  | [] => List.Perm.refl _
  | k :: ks => (insertSorted_perm k (sortKeys ks)).trans ((sortKeys_perm ks).cons k)

theorem insertSorted_pairwise (k : Str) : ∀ l : List Str, l.Pairwise (fun a b => strLe a b = true) →
    (insertSorted k l).Pairwise (fun a b => strLe a b = true)
  | [], _ => by simp [insertSorted]
  | x :: xs, h => by
    simp only [insertSorted]
    have hx := List.pairwise_cons.mp h
    split
    · rename_i hk
      refine List.pairwise_cons.mpr ⟨?_, h⟩
      intro b hb
      rcases List.mem_cons.mp hb with rfl | hb
      · exact hk
      · exact strLe_trans _ _ _ hk (hx.1 b hb)
    · rename_i hk
      have hxk : strLe x k = true := by
        have := strLe_total k x
        simp only [Bool.or_eq_true] at this
        rcases this with h' | h'
        · exact absurd h' hk
        · exact h'
      refine List.pairwise_cons.mpr ⟨?_, insertSorted_pairwise k xs hx.2⟩
      intro b hb
      have : b ∈ k :: xs := (insertSorted_perm k xs).mem_iff.mp hb
      rcases List.mem_cons.mp this with rfl | hb'
      · exact hxk
      · exact hx.1 b hb'

theorem sortKeys_pairwise : ∀ l : List Str, (sortKeys l).Pairwise (fun a b => strLe a b = true)
  | [] => List.Pairwise.nil
  | k :: ks => insertSorted_pairwise k _ (sortKeys_pairwise ks)

/-- sorting depends on the SET of keys only -/
theorem sortKeys_perm_eq (l₁ l₂ : List Str) (h : l₁.Perm l₂) : sortKeys l₁ = sortKeys l₂ :=
  List.Perm.eq_of_pairwise (fun a b _ _ h1 h2 => strLe_antisymm a b h1 h2) (sortKeys_pairwise l₁) (sortKeys_pairwise l₂)
    ((sortKeys_perm l₁).trans (h.trans (sortKeys_perm l₂).symm))

/-! the `update` step as a map over a table with distinct keys -/

theorem insKey_nodup (acc : List Str) (k : Str) (h : acc.Nodup) : (insKey acc k).Nodup := by
  unfold insKey
  split
  · exact h
  · rename_i hk
    exact List.nodup_append.mpr ⟨h, by simp, by intro a ha b hb; simp at hb; subst hb; intro e; exact hk (e ▸ ha)⟩

theorem keys_foldl_nodup {β : Type} (ps : List (Str × β)) : ∀ d : List (Str × β), (d.map (·.1)).Nodup →
    ((ps.foldl (fun d p => dictSet d p.1 p.2) d).map (·.1)).Nodup := by
  induction ps with
  | nil => intro d h; exact h
  | cons p rest ih =>
    intro d h
    simp only [List.foldl_cons]
    apply ih
    rw [keys_dictSet]
    exact insKey_nodup _ _ h

theorem keys_fromPairs_nodup {β : Type} (ps : List (Str × β)) : ((fromPairs ps).map (·.1)).Nodup :=
  keys_foldl_nodup ps [] (by simp)

theorem dictGet_isSome_iff {β : Type} (d : List (Str × β)) (k : Str) : (dictGet d k).isSome = true ↔ k ∈ d.map (·.1) := by
  induction d with
  | nil => simp [dictGet]
  | cons p rest ih =>
    simp only [dictGet, List.map_cons, List.mem_cons]
    by_cases h : p.1 = k
    · simp [h]
    · have h' : ¬ k = p.1 := fun e => h e.symm
      simp [h, h', ih]

def selfAt (k : Str) (p : Str × Str) : Str × Str := if p.1 = k then (k, k) else p

theorem map_selfAt_absent (k : Str) (d : Dict) (h : k ∉ d.map (·.1)) : d.map (selfAt k) = d := by
  induction d with
  | nil => rfl
  | cons p rest ih =>
    have h1 : ¬ p.1 = k := fun e => h (by simp [e])
    have h2 : k ∉ rest.map (·.1) := fun e => h (by simp [e])
    simp [selfAt, h1, ih h2]

theorem dictSet_eq_map (k : Str) : ∀ d : Dict, (d.map (·.1)).Nodup → k ∈ d.map (·.1) → dictSet d k k = d.map (selfAt k) := by
  intro d
  induction d with
  | nil => intro _ h; simp at h
  | cons p rest ih =>
    intro hn hk
    have hn' := List.nodup_cons.mp hn
    simp only [dictSet]
    by_cases h : p.1 = k
    · have : k ∉ rest.map (·.1) := by rw [← h]; exact hn'.1
      simp only [h, if_true, List.map_cons, selfAt, map_selfAt_absent k rest this]
    · have hk' : k ∈ rest.map (·.1) := by
        simp only [List.map_cons, List.mem_cons] at hk
        rcases hk with e | e
        · exact absurd e.symm h
        · exact e
      simp only [h, if_false, List.map_cons, selfAt, ih hn'.2 hk']

theorem updSelf_eq_map (d : Dict) (k : Str) (hn : (d.map (·.1)).Nodup) : updSelf d k = d.map (selfAt k) := by
  unfold updSelf
  by_cases h : k ∈ d.map (·.1)
  · rw [if_pos ((dictGet_isSome_iff d k).mpr h)]
    exact dictSet_eq_map k d hn h
  · have : ¬ (dictGet d k).isSome = true := fun e => h ((dictGet_isSome_iff d k).mp e)
    rw [if_neg this, map_selfAt_absent k d h]

/-- the table after the `update`: every keyword that is itself a heading names itself -/
def selfIn (keys : List Str) (p : Str × Str) : Str × Str := if p.1 ∈ keys then (p.1, p.1) else p

theorem keys_map_selfAt (k : Str) (d : Dict) : (d.map (selfAt k)).map (·.1) = d.map (·.1) := by
  rw [List.map_map]
  apply List.map_congr_left
  intro p _
  simp only [Function.comp, selfAt]
  split
  · rename_i h; exact h.symm
  · rfl

theorem foldl_updSelf (keys : List Str) : ∀ d : Dict, (d.map (·.1)).Nodup →
    keys.foldl updSelf d = d.map (selfIn keys) := by
  induction keys with
  | nil =>
    intro d _
    simp only [List.foldl_nil]
    conv => lhs; rw [← List.map_id d]
    apply List.map_congr_left
    intro p _; simp [selfIn]
  | cons k ks ih =>
    intro d hn
    simp only [List.foldl_cons]
    rw [updSelf_eq_map d k hn, ih _ (by rw [keys_map_selfAt]; exact hn), List.map_map]
    apply List.map_congr_left
    intro p _
    simp only [Function.comp, selfAt, selfIn]
    by_cases h : p.1 = k
    · simp [h]
    · have h' : ¬ k = p.1 := fun e => h e.symm
      by_cases h2 : p.1 ∈ ks <;> simp [h, h2]

theorem txKeysFix_eq (keys : List Str) : txKeysFix keys = (txKeysOf (sortKeys keys)).map (selfIn keys) := by
  unfold txKeysFix
  exact foldl_updSelf keys _ (keys_fromPairs_nodup _)

theorem selfIn_perm (k₁ k₂ : List Str) (h : k₁.Perm k₂) : selfIn k₁ = selfIn k₂ := by
  funext p
  simp only [selfIn, h.mem_iff]

theorem txKeysFix_perm (k₁ k₂ : List Str) (h : k₁.Perm k₂) : txKeysFix k₁ = txKeysFix k₂ := by
  rw [txKeysFix_eq, txKeysFix_eq, sortKeys_perm_eq k₁ k₂ h, selfIn_perm k₁ k₂ h]

theorem dictGet_map_selfIn (keys : List Str) (kw : Str) : ∀ d : Dict,
    dictGet (d.map (selfIn keys)) kw = (dictGet d kw).map (fun h => if kw ∈ keys then kw else h) := by
  intro d
  induction d with
  | nil => rfl
  | cons p rest ih =>
    simp only [List.map_cons, selfIn]
    by_cases h1 : p.1 ∈ keys
    · by_cases h2 : p.1 = kw
      · subst h2; simp [dictGet, h1]
      · simp only [h1, if_true, dictGet, h2, if_false]; exact ih
    · by_cases h2 : p.1 = kw
      · subst h2; simp [dictGet, h1]
      · simp only [h1, if_false, dictGet, h2]; exact ih

/-- which heading a keyword names since fix 1e9b608 -/
theorem txKeysFix_get (keys : List Str) (kw : Str) :
    dictGet (txKeysFix keys) kw
      = ((sortKeys keys).reverse.find? (fun k => kwOf k = kw)).map (fun h => if kw ∈ keys then kw else h) := by
  rw [txKeysFix_eq, dictGet_map_selfIn, txKeysOf_get]

/-- in a sorted list, the last element with a property is the greatest with it -/
theorem last_found_is_greatest (p : Str → Bool) (l : List Str) (hl : l.Pairwise (fun a b => strLe a b = true))
    (h : Str) (hf : l.reverse.find? p = some h) : ∀ k ∈ l, p k = true → strLe k h = true := by
  obtain ⟨_, as, bs, e, hno⟩ := List.find?_eq_some_iff_append.mp hf
  have el : l = bs.reverse ++ h :: as.reverse := by
    have := congrArg List.reverse e
    simpa using this
  intro k hk hp
  rw [el] at hk hl
  rcases List.mem_append.mp hk with h1 | h1
  · exact (List.pairwise_append.mp hl).2.2 k h1 h (by simp)
  · rcases List.mem_cons.mp h1 with rfl | h2
    · exact strLe_refl _
    · have := hno k (by simpa using h2)
      simp [hp] at this


/-! ### INI documents: reading rendered lines back over the grammar's whole alphabet -/

theorem takeWhile_stop {p : Char → Bool} (a b : Str) (y : Char) (ha : ∀ x ∈ a, p x = true) (hy : p y = false) :
    (a ++ y :: b).takeWhile p = a ∧ (a ++ y :: b).dropWhile p = y :: b := by
  induction a with
  | nil => simp [List.takeWhile_cons, List.dropWhile_cons, hy]
  | cons x xs ih =>
    have hx := ha x (by simp)
    have := ih (fun z hz => ha z (by simp [hz]))
    simp [List.takeWhile_cons, List.dropWhile_cons, hx, this]

theorem takeWhile_all {p : Char → Bool} (a : Str) (ha : ∀ x ∈ a, p x = true) :
    a.takeWhile p = a ∧ a.dropWhile p = [] := by
  induction a with
  | nil => simp
  | cons x xs ih =>
    have hx := ha x (by simp)
    have := ih (fun z hz => ha z (by simp [hz]))
    simp [List.takeWhile_cons, List.dropWhile_cons, hx, this]

theorem isIniWs_space : isIniWs ' ' = true := by decide

theorem lstripWs_spaces (n : Nat) (s : Str) : lstripWs (spaces n ++ s) = lstripWs s := by
  induction n with
  | zero => rfl
  | succ k ih =>
    have : spaces (k + 1) ++ s = ' ' :: (spaces k ++ s) := by simp [spaces, List.replicate_succ]
    rw [this]; simp only [lstripWs, List.dropWhile_cons, isIniWs_space, if_true]; exact ih

theorem lstripWs_head (s : Str) (h : ∀ c, s.head? = some c → isIniWs c = false) : lstripWs s = s := by
  cases s with
  | nil => rfl
  | cons c cs => simp [lstripWs, List.dropWhile_cons, h c rfl]

theorem leadWs_head (s : Str) (h : ∀ c, s.head? = some c → isIniWs c = false) : leadWs s = 0 := by
  cases s with
  | nil => rfl
  | cons c cs => simp [leadWs, List.takeWhile_cons, h c rfl]

theorem rstripBS_id (v : Str) (h : ∀ c, v.getLast? = some c → c ≠ ' ' ∧ c ≠ '\\') : rstripBS v = v := by
  unfold rstripBS
  cases hr : v.reverse with
  | nil =>
    have : v = [] := by simpa using hr
    simp [this]
  | cons c cs =>
    have hl : v.getLast? = some c := by rw [List.getLast?_eq_head?_reverse, hr]; rfl
    have := h c hl
    simp only [List.dropWhile_cons, this.1, this.2, decide_false, Bool.or_self, Bool.false_eq_true, if_false]
    rw [← hr]; simp

theorem isIniWs_isSpace (c : Char) (h : isIniWs c = true) : isSpace c = true := by
  unfold isIniWs at h
  simp only [Bool.or_eq_true, decide_eq_true_eq] at h
  rcases h with ((((h | h) | h) | h) | h) | h <;> (subst h; decide)

theorem not_iniWs_of_not_space (c : Char) (h : isSpace c = false) : isIniWs c = false := by
  cases hw : isIniWs c with
  | false => rfl
  | true => rw [isIniWs_isSpace c hw] at h; cases h

/-- what the proofs need of the grammar's character sets -/
structure IniAlphaOk (A : IniAlphabet) : Prop where
  sp_key : A.key.contains ' ' = true
  sp_header : A.header.contains ' ' = true
  sp_value : A.value.contains ' ' = true
  rb_header : A.header.contains ']' = false
  lb_comment : A.comment.contains '[' = false
  hash : A.comment.contains '#' = true
  semi : A.comment.contains ';' = true
  sep_key : ∀ c, A.sep.contains c = true → A.key.contains c = false ∧ isIniWs c = false

/-- an option name the format admits: not empty, no blank at either end, every character a key character —
    ANY key character at ANY position, except that a comment starter (or `[`) cannot come first -/
def OptNameOk (A : IniAlphabet) (n : Str) : Prop :=
  n ≠ [] ∧ Stripped n ∧ (∀ c ∈ n, A.key.contains c = true) ∧
  (∀ c, n.head? = some c → A.comment.contains c = false ∧ c ≠ '[')

def SecNameOk (A : IniAlphabet) (n : Str) : Prop :=
  n ≠ [] ∧ Stripped n ∧ (∀ c ∈ n, A.header.contains c = true)

/-- a value the format admits: value characters, no `#` (inline comment), no white space in front, neither
    blank nor backslash at the end; `;`, `=`, `:`, `[`, `]` are all allowed -/
def IniValOk (A : IniAlphabet) (v : Str) : Prop :=
  (∀ c ∈ v, A.value.contains c = true) ∧ '#' ∉ v ∧ (∀ c, v.head? = some c → isIniWs c = false) ∧
  (∀ c, v.getLast? = some c → c ≠ ' ' ∧ c ≠ '\\')

theorem mem_spaces_eq (c : Char) (n : Nat) (h : c ∈ spaces n) : c = ' ' := by
  simp [spaces, List.mem_replicate] at h; exact h.2

/-- a rendered option line is read back as exactly that option: it can neither vanish nor lose its value -/
theorem classify_opt_line (A : IniAlphabet) (hA : IniAlphaOk A) (n v : Str) (s1 s2 : Nat) (sep : Char)
    (hn : OptNameOk A n) (hsep : A.sep.contains sep = true) (hv : IniValOk A v) :
    classifyIniLine A (renderIniItem (.opt n s1 sep s2 v)) = .opt ⟨n, some v⟩ (!v.isEmpty) ∧
    leadWs (renderIniItem (.opt n s1 sep s2 v)) = 0 := by
  obtain ⟨hn0, hns, hnk, hnh⟩ := hn
  obtain ⟨hvv, hvhash, hvh, hvl⟩ := hv
  obtain ⟨hsk, hsw⟩ := hA.sep_key sep hsep
  cases n with
  | nil => exact absurd rfl hn0
  | cons c cs =>
    have hcw : isIniWs c = false := not_iniWs_of_not_space c (hns.1 c rfl)
    have hcc := hnh c rfl
    have hline : renderIniItem (.opt (c :: cs) s1 sep s2 v) = c :: (cs ++ spaces s1 ++ sep :: (spaces s2 ++ v)) := by
      simp [renderIniItem]
    constructor
    · rw [hline]
      have hl : lstripWs (c :: (cs ++ spaces s1 ++ sep :: (spaces s2 ++ v))) = c :: (cs ++ spaces s1 ++ sep :: (spaces s2 ++ v)) :=
        lstripWs_head _ (by intro x hx; simp at hx; subst hx; exact hcw)
      have hkey : ∀ x ∈ (c :: cs) ++ spaces s1, A.key.contains x = true := by
        intro x hx
        rcases List.mem_append.mp hx with h | h
        · exact hnk x h
        · rw [mem_spaces_eq x s1 h]; exact hA.sp_key
      have htd := takeWhile_stop (p := fun c => A.key.contains c) ((c :: cs) ++ spaces s1) (spaces s2 ++ v) sep hkey hsk
      have e2 : c :: (cs ++ spaces s1 ++ sep :: (spaces s2 ++ v)) = ((c :: cs) ++ spaces s1) ++ sep :: (spaces s2 ++ v) := by simp
      have hvall : (spaces s2 ++ v).all (fun c => A.value.contains c) = true := by
        apply List.all_eq_true.mpr
        intro x hx
        rcases List.mem_append.mp hx with h | h
        · rw [mem_spaces_eq x s2 h]; exact hA.sp_value
        · exact hvv x h
      have hlv : lstripWs (spaces s2 ++ v) = v := by rw [lstripWs_spaces]; exact lstripWs_head v hvh
      have hstrip : strip ((c :: cs) ++ spaces s1) = c :: cs := strip_append_spaces _ _ hns
      have hsepw : lstripWs (sep :: (spaces s2 ++ v)) = sep :: (spaces s2 ++ v) :=
        lstripWs_head _ (by intro x hx; simp at hx; subst hx; exact hsw)
      unfold classifyIniLine
      rw [hl]
      simp only [hcc.1, Bool.false_eq_true, if_false, hcc.2]
      rw [e2, htd.1, htd.2, hsepw]
      have hne : ((c :: cs) ++ spaces s1).isEmpty = false := rfl
      simp only [hne, Bool.false_eq_true, if_false, hsep, hvall, Bool.and_self, if_true, hlv, hstrip]
      cases v with
      | nil => rfl
      | cons w ws =>
        have hp : iniValuePiece (w :: ws) = w :: ws := by
          unfold iniValuePiece
          rw [before_char_miss _ _ hvhash]; exact rstripBS_id _ hvl
        simp [hp]
    · rw [hline]; exact leadWs_head _ (by intro x hx; simp at hx; subst hx; exact hcw)

/-- a comment line — with or without blanks in front, whatever its text (`key = value`, `[section]`, …) —
    is read as a comment, never as an option -/
theorem classify_comment_line (A : IniAlphabet) (hA : IniAlphaOk A) (semi : Bool) (text : Str) (indent : Nat) :
    classifyIniLine A (renderIniItem (.comment semi text indent)) = .comment := by
  have hch : A.comment.contains (if semi then ';' else '#') = true := by
    cases semi
    · exact hA.hash
    · exact hA.semi
  have hws : isIniWs (if semi then ';' else '#') = false := by cases semi <;> decide
  unfold classifyIniLine
  simp only [renderIniItem]
  rw [lstripWs_spaces, lstripWs_head _ (by intro x hx; simp at hx; subst hx; exact hws)]
  simp only [hch, if_true]

theorem dropWhile_wschar_spaces (l : Nat) (s : Str) (h : ∀ c, s.head? = some c → isIniWs c = false) :
    (spaces l ++ s).dropWhile (fun c => isIniWs c && c != '\n' && c != '\r') = s := by
  induction l with
  | zero =>
    cases s with
    | nil => rfl
    | cons x xs => simp [spaces, List.dropWhile_cons, h x rfl]
  | succ k ih =>
    have : spaces (k + 1) ++ s = ' ' :: (spaces k ++ s) := by simp [spaces, List.replicate_succ]
    rw [this]
    have hsp : (isIniWs ' ' && ' ' != '\n' && ' ' != '\r') = true := by decide
    simp only [List.dropWhile_cons, hsp, if_true]
    exact ih

theorem classify_sec_line (A : IniAlphabet) (hA : IniAlphaOk A) (l r : Nat) (n : Str) (hn : SecNameOk A n) :
    classifyIniLine A (renderIniItem (.sec l n r)) = .header n ∧ leadWs (renderIniItem (.sec l n r)) = 0 := by
  obtain ⟨hn0, hns, hnh⟩ := hn
  have hbw : isIniWs '[' = false := by decide
  cases n with
  | nil => exact absurd rfl hn0
  | cons c cs =>
    have hcw : isIniWs c = false := not_iniWs_of_not_space c (hns.1 c rfl)
    have hline : renderIniItem (.sec l (c :: cs) r) = '[' :: (spaces l ++ (((c :: cs) ++ spaces r) ++ [']'])) := by
      simp [renderIniItem]
    constructor
    · rw [hline]
      unfold classifyIniLine
      rw [lstripWs_head _ (by intro x hx; simp at hx; subst hx; exact hbw)]
      simp only [hA.lb_comment, Bool.false_eq_true, if_false, if_true]
      have hdw := dropWhile_wschar_spaces l (((c :: cs) ++ spaces r) ++ [']']) (by intro x hx; simp at hx; subst hx; exact hcw)
      rw [hdw]
      have hhdr : ∀ x ∈ (c :: cs) ++ spaces r, A.header.contains x = true := by
        intro x hx
        rcases List.mem_append.mp hx with h | h
        · exact hnh x h
        · rw [mem_spaces_eq x r h]; exact hA.sp_header
      have htd := takeWhile_stop (p := fun c => A.header.contains c) ((c :: cs) ++ spaces r) [] ']' hhdr hA.rb_header
      rw [htd.1, htd.2]
      have hne : ((c :: cs) ++ spaces r).isEmpty = false := rfl
      simp only [hne, Bool.false_eq_true, if_false, lstripWs, List.dropWhile_nil]
      rw [strip_append_spaces _ _ hns]
    · rw [hline]; exact leadWs_head _ (by intro x hx; simp at hx; subst hx; exact hbw)

/-- what the INI renderer admits for one item; comment lines here start in column 0 (see the finding
    `ini-indented-comment-joins-value` for indented ones) -/
def IniItemOk (A : IniAlphabet) : IniItem → Prop
  | .sec _ n _ => SecNameOk A n
  | .opt n _ sep _ v => OptNameOk A n ∧ A.sep.contains sep = true ∧ IniValOk A v
  | .comment _ _ indent => indent = 0
  | .blank => True

theorem not_continues (A : IniAlphabet) (line : Str) (h0 : leadWs line = 0) (hang : Option (Nat × Bool)) (cur : Option IniSec) :
    (match hang, cur with
      | some (k, _), some _ => decide (leadWs line > k) && (lstripWs line).all (fun c => A.value.contains c)
      | _, _ => false) = false := by
  cases hang with
  | none => rfl
  | some p =>
    cases cur with
    | none => rfl
    | some s => obtain ⟨k, b⟩ := p; simp [h0]

theorem iniLinesGo_step (A : IniAlphabet) (line : Str) (rest : List Str) (cur : Option IniSec) (acc : IniTree)
    (hang : Option (Nat × Bool)) (hne : (lstripWs line).isEmpty = false) (h0 : leadWs line = 0) :
    iniLinesGo A (line :: rest) cur acc hang =
      (match classifyIniLine A line with
      | .blank => iniLinesGo A rest cur acc hang
      | .comment => iniLinesGo A rest cur acc none
      | .header n => iniLinesGo A rest (some ⟨n, []⟩) (match cur with | some s => acc ++ [s] | none => acc) none
      | .opt o hp => (match cur with
        | none => none
        | some s => iniLinesGo A rest (some ⟨s.name, s.opts ++ [o]⟩) acc
            (if o.value.isSome then some (leadWs line, hp) else none))
      | .bad => none) := by
  simp only [iniLinesGo, hne, Bool.false_eq_true, if_false]
  cases hang with
  | none => simp only []; cases classifyIniLine A line <;> rfl
  | some p =>
    cases cur with
    | none => simp only []; cases classifyIniLine A line <;> rfl
    | some s =>
      obtain ⟨k, b⟩ := p
      simp only [h0, Nat.not_lt_zero, gt_iff_lt, decide_false, Bool.false_and, Bool.false_eq_true, if_false]
      cases classifyIniLine A line <;> rfl

/-- reading a rendered document line by line gives back its sections and options, exactly and in order -/
theorem iniLinesGo_render (A : IniAlphabet) (hA : IniAlphaOk A) :
    ∀ (doc : List IniItem) (cur : Option IniSec) (acc : IniTree) (hang : Option (Nat × Bool)),
      (∀ it ∈ doc, IniItemOk A it) → iniLinesGo A (renderIni doc) cur acc hang = iniTreeGo doc cur acc := by
  intro doc
  induction doc with
  | nil => intro cur acc hang _; simp [renderIni, iniLinesGo, iniTreeGo]
  | cons it rest ih =>
    intro cur acc hang hok
    have hrest : ∀ it ∈ rest, IniItemOk A it := fun x hx => hok x (by simp [hx])
    have hit := hok it (by simp)
    cases it with
    | blank =>
      simp only [renderIni, List.map_cons, renderIniItem, iniTreeGo]
      simp only [iniLinesGo, lstripWs, List.dropWhile_nil, List.isEmpty_nil, if_true]
      exact ih cur acc hang hrest
    | comment semi text indent =>
      have hi : indent = 0 := hit
      subst hi
      have hws : isIniWs (if semi then ';' else '#') = false := by cases semi <;> decide
      have hline : renderIniItem (.comment semi text 0) = (if semi then ';' else '#') :: text := by simp [renderIniItem, spaces]
      have hl := lstripWs_head ((if semi then ';' else '#') :: text) (by intro x hx; simp at hx; subst hx; exact hws)
      have h0 := leadWs_head ((if semi then ';' else '#') :: text) (by intro x hx; simp at hx; subst hx; exact hws)
      have hc := classify_comment_line A hA semi text 0
      simp only [renderIni, List.map_cons, iniTreeGo]
      rw [hline] at hc ⊢
      rw [iniLinesGo_step A _ _ cur acc hang (by rw [hl]; rfl) h0, hc]
      exact ih cur acc none hrest
    | sec l n r =>
      obtain ⟨hc, h0⟩ := classify_sec_line A hA l r n hit
      have hne : (lstripWs (renderIniItem (.sec l n r))).isEmpty = false := by
        have : renderIniItem (.sec l n r) = '[' :: (spaces l ++ n ++ spaces r ++ [']']) := by simp [renderIniItem]
        rw [this, lstripWs_head _ (by intro x hx; simp at hx; subst hx; decide)]; rfl
      simp only [renderIni, List.map_cons, iniTreeGo]
      rw [iniLinesGo_step A _ _ cur acc hang hne h0, hc]
      exact ih _ _ none hrest
    | opt n s1 sep s2 v =>
      obtain ⟨hn, hsep, hv⟩ := hit
      obtain ⟨hc, h0⟩ := classify_opt_line A hA n v s1 s2 sep hn hsep hv
      have hne : (lstripWs (renderIniItem (.opt n s1 sep s2 v))).isEmpty = false := by
        cases n with
        | nil => exact absurd rfl hn.1
        | cons c cs =>
          have hcw : isIniWs c = false := not_iniWs_of_not_space c (hn.2.1.1 c rfl)
          have : renderIniItem (.opt (c :: cs) s1 sep s2 v) = c :: (cs ++ spaces s1 ++ sep :: (spaces s2 ++ v)) := by
            simp [renderIniItem]
          rw [this, lstripWs_head _ (by intro x hx; simp at hx; subst hx; exact hcw)]; rfl
      simp only [renderIni, List.map_cons, iniTreeGo]
      rw [iniLinesGo_step A _ _ cur acc hang hne h0, hc]
      cases cur with
      | none => rfl
      | some s => exact ih _ _ _ hrest


end IV.TextFormats
