import IV.Model.ClientState
/-! helper lemmas for C17 (model: IV/Model/ClientState.lean) -/
namespace IV.ClientState

/-! ### canonical form -/

/-- the 8-4-4-4-12 lower-case rendering of a version-4, RFC-4122-variant UUID -/
def Canonical (s : Str) : Prop :=
  ∃ a b c v d e, s = a ++ '-' :: b ++ '-' :: '4' :: c ++ '-' :: v :: d ++ '-' :: e ∧
    a.length = 8 ∧ b.length = 4 ∧ c.length = 3 ∧ d.length = 3 ∧ e.length = 12 ∧
    (∀ x ∈ a ++ b ++ c ++ d ++ e, lowerHex x = true) ∧ (v = '8' ∨ v = '9' ∨ v = 'a' ∨ v = 'b')

theorem variantDigit_mem (c : Char) :
    variantDigit c = '8' ∨ variantDigit c = '9' ∨ variantDigit c = 'a' ∨ variantDigit c = 'b' := by
  unfold variantDigit; split <;> simp

theorem hexLower_lower (c : Char) (h : isHex c = true) : lowerHex (hexLower c) = true := by
  simp only [isHex, lowerHexDigits, upperHexLetters, List.contains_eq_mem, List.mem_cons, List.not_mem_nil,
    Bool.or_eq_true, decide_eq_true_eq, or_false] at h
  rcases h with (h | h) <;> (rcases h with rfl | rfl | rfl | rfl | rfl | rfl | rfl | rfl | rfl | rfl | rfl | rfl | rfl | rfl | rfl | rfl) <;> decide

theorem dropWhile_length_le (p : Char → Bool) (s : Str) : (s.dropWhile p).length ≤ s.length := by
  induction s with
  | nil => simp
  | cons c cs ih => simp only [List.dropWhile_cons]; split <;> simp <;> omega

theorem stripBy_length_le (p : Char → Bool) (s : Str) : (stripBy p s).length ≤ s.length := by
  unfold stripBy
  have h1 := dropWhile_length_le p s
  have h2 := dropWhile_length_le p (s.dropWhile p).reverse
  simp at h2 ⊢; omega

theorem scanDigits_spec (pu : Bool) (s ds : Str) (h : scanDigits pu s = some ds) :
    (∀ x ∈ ds, isHex x = true) ∧ ds.length ≤ s.length := by
  induction s generalizing pu ds with
  | nil => simp [scanDigits] at h; simp [h.2]
  | cons c cs ih =>
    simp only [scanDigits] at h
    split at h
    · split at h
      · simp at h
      · have := ih _ _ h; exact ⟨this.1, by simp; omega⟩
    · split at h
      · rename_i hc
        cases hr : scanDigits false cs with
        | none => simp [hr] at h
        | some r =>
          simp [hr] at h; subst h
          have := ih _ _ hr
          refine ⟨?_, by simp; omega⟩
          intro x hx; simp at hx; rcases hx with rfl | hx
          · exact hc
          · exact this.1 x hx
      · simp at h

theorem dropSign_length_le (s : Str) : (dropSign s).length ≤ s.length := by
  unfold dropSign; split <;> simp

theorem dropHexPrefix_length_le (s : Str) : (dropHexPrefix s).length ≤ s.length := by
  unfold dropHexPrefix
  split
  · split
    · split <;> simp <;> omega
    · simp
  · simp

theorem pyInt16_spec (s ds : Str) (h : pyInt16 s = some ds) :
    (∀ x ∈ ds, isHex x = true) ∧ ds.length ≤ s.length := by
  unfold pyInt16 at h
  have h0 := stripBy_length_le intSpace s
  have h1 := dropSign_length_le (stripBy intSpace s)
  have h2 := dropHexPrefix_length_le (dropSign (stripBy intSpace s))
  split at h
  · simp at h
  · simp at h
  · have := scanDigits_spec _ _ _ h
    exact ⟨this.1, by omega⟩

theorem pad32_spec (ds : Str) (hl : ds.length ≤ 32) (hh : ∀ x ∈ ds, isHex x = true) :
    ((pad32 ds).map hexLower).length = 32 ∧ ∀ x ∈ (pad32 ds).map hexLower, lowerHex x = true := by
  refine ⟨by simp [pad32]; omega, ?_⟩
  intro x hx
  simp only [pad32, List.map_append, List.mem_append, List.mem_map, List.mem_replicate] at hx
  rcases hx with ⟨y, ⟨_, rfl⟩, rfl⟩ | ⟨y, hy, rfl⟩
  · decide
  · exact hexLower_lower y (hh y hy)

theorem render_canonical (p : Str) (hl : p.length = 32) (hh : ∀ x ∈ p, lowerHex x = true) :
    ∃ x, render p = some x ∧ Canonical x := by
  unfold render
  have h12 : (p.drop 12).length = 20 := by simp; omega
  cases hr : p.drop 12 with
  | nil => simp [hr] at h12
  | cons z r =>
    have hrl : r.length = 19 := by simp [hr] at h12; omega
    have hrm : ∀ x ∈ r, x ∈ p := fun x hx => List.mem_of_mem_drop (hr ▸ List.mem_cons_of_mem z hx)
    simp only
    have h3 : (r.drop 3).length = 16 := by simp; omega
    cases hr' : r.drop 3 with
    | nil => simp [hr'] at h3
    | cons v r' =>
      have hrl' : r'.length = 15 := by simp [hr'] at h3; omega
      have hrm' : ∀ x ∈ r', x ∈ r := fun x hx => List.mem_of_mem_drop (hr' ▸ List.mem_cons_of_mem v hx)
      refine ⟨_, rfl, p.take 8, (p.drop 8).take 4, r.take 3, variantDigit v, r'.take 3, r'.drop 3, rfl, ?_, ?_, ?_, ?_, ?_, ?_, variantDigit_mem v⟩
      · simp; omega
      · simp; omega
      · simp; omega
      · simp; omega
      · simp; omega
      · intro x hx
        simp only [List.mem_append] at hx
        apply hh
        rcases hx with (((hx | hx) | hx) | hx) | hx
        · exact List.mem_of_mem_take hx
        · exact List.mem_of_mem_drop (List.mem_of_mem_take hx)
        · exact hrm x (List.mem_of_mem_take hx)
        · exact hrm x (hrm' x (List.mem_of_mem_take hx))
        · exact hrm x (hrm' x (List.mem_of_mem_drop hx))

/-- whatever `canon` accepts comes out in canonical form -/
theorem canon_canonical (raw x : Str) (h : canon raw = some x) : Canonical x := by
  unfold canon at h
  simp only at h
  split at h
  · simp at h
  · rename_i hlen
    split at h
    · simp at h
    · rename_i ds hds
      have sp := pyInt16_spec _ _ hds
      have pp := pad32_spec ds (by have := sp.2; omega) sp.1
      obtain ⟨y, hy, hc⟩ := render_canonical _ pp.1 pp.2
      rw [hy] at h; cases h; exact hc

theorem canon_ne_nil (m x : Str) (h : canon m = some x) : m ≠ [] := by
  intro hm; subst hm
  have : canon [] = none := by decide
  rw [this] at h; cases h

/-! ### file-system primitives -/

@[simp] theorem set_ext (fs : FS) (l : Loc) (n : Node) : (fs.set l n).ext = fs.ext := rfl
@[simp] theorem set_node_self (fs : FS) (l : Loc) (n : Node) : (fs.set l n).node l = n := by simp [FS.set]
theorem set_node_ne (fs : FS) (l l' : Loc) (n : Node) (h : l' ≠ l) : (fs.set l n).node l' = fs.node l' := by
  simp [FS.set, h]
@[simp] theorem setExt_node (fs : FS) (k : Nat) (n : ENode) : (fs.setExt k n).node = fs.node := rfl
@[simp] theorem setExt_ext_self (fs : FS) (k : Nat) (n : ENode) : (fs.setExt k n).ext k = n := by simp [FS.setExt]

/-- `fs'` differs from `fs` at most in the node at `l` -/
def OnlyAt (l : Loc) (fs fs' : FS) : Prop := fs'.ext = fs.ext ∧ ∀ l', l' ≠ l → fs'.node l' = fs.node l'

theorem OnlyAt.refl (l : Loc) (fs : FS) : OnlyAt l fs fs := ⟨rfl, fun _ _ => rfl⟩
theorem OnlyAt.set (l : Loc) (fs : FS) (n : Node) : OnlyAt l fs (fs.set l n) :=
  ⟨rfl, fun l' h => set_node_ne fs l l' n h⟩
theorem onlyAt_look {l : Loc} {fs fs' : FS} (h : OnlyAt l fs fs') (E : Env) (l' : Loc) (hne : l' ≠ l) :
    look E fs' l' = look E fs l' := by simp [look, h.2 l' hne]

theorem wtdDelete_onlyAt (E : Env) (fs : FS) (l : Loc) : OnlyAt l fs (wtdDelete E fs l).1 := by
  unfold wtdDelete
  split
  · exact OnlyAt.refl _ _
  · split <;> first | exact OnlyAt.refl _ _ | exact OnlyAt.set _ _ _ |
      (split <;> first | exact OnlyAt.refl _ _ | exact OnlyAt.set _ _ _)

/-- after `write_to_disk(f, delete=True)` the location is what it was, or gone -/
theorem wtdDelete_post (E : Env) (fs : FS) (l : Loc) :
    look E (wtdDelete E fs l).1 l = look E fs l ∨ look E (wtdDelete E fs l).1 l = .absent := by
  unfold wtdDelete
  split
  · exact Or.inl rfl
  · split
    · exact Or.inl rfl
    · exact Or.inl rfl
    · split
      · exact Or.inl rfl
      · right; simp [look]

/-- if it returned, the location is gone -/
theorem wtdDelete_ok (E : Env) (fs : FS) (l : Loc) (h : (wtdDelete E fs l).2 = true) :
    look E (wtdDelete E fs l).1 l = .absent := by
  unfold wtdDelete at h ⊢
  split
  · rename_i hd; simp at hd; simp [look, hd]
  · split
    · rename_i hn; simp [look, hn]
    · rename_i hn; simp [hn] at h
      split at h <;> simp_all
    · by_cases hdn : E.denied l = true
      · simp [hdn] at h
        split at h <;> simp_all
      · simp [hdn, look]

theorem writeMarker_onlyAt (E : Env) (c : Str) (fs : FS) (l : Loc) : OnlyAt l fs (writeMarker E c fs l).1 := by
  unfold writeMarker look wtdWrite
  by_cases hd : E.has l.dir = true
  · simp only [hd, if_true, Bool.not_true, Bool.false_eq_true, if_false]
    cases hn : fs.node l with
    | absent => exact OnlyAt.set _ _ _
    | file c' => exact OnlyAt.refl _ _
    | dir => exact OnlyAt.refl _ _
    | link k =>
      simp only [set_node_self]
      refine ⟨rfl, fun l' h => ?_⟩
      rw [set_node_ne _ _ _ _ h, set_node_ne _ _ _ _ h]
  · simp only [hd]
    simp
    exact OnlyAt.refl _ _

/-- the marker writers never raise (in the model: no permission errors) -/
theorem writeMarker_ok (E : Env) (c : Str) (fs : FS) (l : Loc) : (writeMarker E c fs l).2 = true := by
  unfold writeMarker look wtdWrite
  by_cases hd : E.has l.dir = true
  · simp only [hd, if_true, Bool.not_true, Bool.false_eq_true, if_false]
    cases fs.node l <;> simp
  · simp [hd]

/-- what is at a marker location after its writer ran -/
def markerAfter (c : Str) : Node → Node
  | .absent => .file c
  | .link _ => .file c
  | n => n

theorem writeMarker_post (E : Env) (c : Str) (fs : FS) (l : Loc) (hd : E.has l.dir = true) :
    look E (writeMarker E c fs l).1 l = markerAfter c (look E fs l) := by
  unfold writeMarker wtdWrite
  simp only [look, hd, if_true, Bool.not_true, Bool.false_eq_true, if_false]
  cases hn : fs.node l <;> simp [hn, markerAfter]

theorem look_of_not_has (E : Env) (fs : FS) (l : Loc) (hd : E.has l.dir = false) : look E fs l = .absent := by
  simp [look, hd]

/-! ### the loops over the two configuration directories -/

/-- every location is what it was, or gone -/
def Shrinks (E : Env) (fs fs' : FS) : Prop := ∀ l, look E fs' l = look E fs l ∨ look E fs' l = .absent

theorem Shrinks.refl (E : Env) (fs : FS) : Shrinks E fs fs := fun _ => Or.inl rfl
theorem Shrinks.trans {E : Env} {a b c : FS} (h1 : Shrinks E a b) (h2 : Shrinks E b c) : Shrinks E a c := by
  intro l
  rcases h2 l with h | h
  · rw [h]; exact h1 l
  · exact Or.inr h

theorem wtdDelete_shrinks (E : Env) (fs : FS) (l : Loc) : Shrinks E fs (wtdDelete E fs l).1 := by
  intro l'
  by_cases h : l' = l
  · subst h; exact wtdDelete_post E fs l'
  · exact Or.inl (onlyAt_look (wtdDelete_onlyAt E fs l) E l' h)

/-- `fs'` differs from `fs` at most at the two locations `mk false`, `mk true` -/
def OnlyMk (mk : Bool → Loc) (fs fs' : FS) : Prop :=
  fs'.ext = fs.ext ∧ ∀ l', (∀ d, l' ≠ mk d) → fs'.node l' = fs.node l'

theorem OnlyMk.refl (mk : Bool → Loc) (fs : FS) : OnlyMk mk fs fs := ⟨rfl, fun _ _ => rfl⟩

theorem OnlyMk.step {mk : Bool → Loc} {a b c : FS} (d : Bool) (h1 : OnlyMk mk a b) (h2 : OnlyAt (mk d) b c) :
    OnlyMk mk a c :=
  ⟨h2.1.trans h1.1, fun l' hl => (h2.2 l' (hl d)).trans (h1.2 l' hl)⟩

theorem onlyMk_look {mk : Bool → Loc} {fs fs' : FS} (h : OnlyMk mk fs fs') (E : Env) (l' : Loc)
    (hne : ∀ d, l' ≠ mk d) : look E fs' l' = look E fs l' := by simp [look, h.2 l' hne]

theorem deleteMarkers_onlyMk (E : Env) (mk : Bool → Loc) (fs : FS) : OnlyMk mk fs (deleteMarkers E mk fs).1 := by
  unfold deleteMarkers forDirs
  simp only
  split
  · exact (OnlyMk.refl mk fs).step false (wtdDelete_onlyAt E fs _) |>.step true (wtdDelete_onlyAt E _ _)
  · exact (OnlyMk.refl mk fs).step false (wtdDelete_onlyAt E fs _)

theorem deleteMarkers_shrinks (E : Env) (mk : Bool → Loc) (fs : FS) : Shrinks E fs (deleteMarkers E mk fs).1 := by
  unfold deleteMarkers forDirs
  simp only
  split
  · exact (wtdDelete_shrinks E fs _).trans (wtdDelete_shrinks E _ _)
  · exact wtdDelete_shrinks E fs _

/-- if the deletion loop returned, both markers of that kind are gone -/
theorem deleteMarkers_ok (E : Env) (mk : Bool → Loc) (fs : FS) (h : (deleteMarkers E mk fs).2 = true) (d : Bool) :
    look E (deleteMarkers E mk fs).1 (mk d) = .absent := by
  unfold deleteMarkers forDirs at h ⊢
  simp only at h ⊢
  split
  · rename_i h1
    rw [if_pos h1] at h
    cases d
    · rcases wtdDelete_shrinks E (wtdDelete E fs (mk false)).1 (mk true) (mk false) with h2 | h2
      · rw [h2]; exact wtdDelete_ok E fs _ h1
      · exact h2
    · exact wtdDelete_ok E _ _ h
  · rename_i h1; rw [if_neg h1] at h; cases h

theorem writeMarkers_ok (E : Env) (mk : Bool → Loc) (c : Str) (fs : FS) : (writeMarkers E mk c fs).2 = true := by
  unfold writeMarkers forDirs
  simp only [writeMarker_ok, if_true]

theorem writeMarkers_onlyMk (E : Env) (mk : Bool → Loc) (c : Str) (fs : FS) :
    OnlyMk mk fs (writeMarkers E mk c fs).1 := by
  unfold writeMarkers forDirs
  simp only [writeMarker_ok, if_true]
  exact (OnlyMk.refl mk fs).step false (writeMarker_onlyAt E c fs _) |>.step true (writeMarker_onlyAt E c _ _)

theorem writeMarkers_post (E : Env) (mk : Bool → Loc) (c : Str) (fs : FS) (hne : mk false ≠ mk true)
    (hdir : ∀ d, (mk d).dir = d) (d : Bool) (hd : E.has d = true) :
    look E (writeMarkers E mk c fs).1 (mk d) = markerAfter c (look E fs (mk d)) := by
  unfold writeMarkers forDirs
  simp only [writeMarker_ok, if_true]
  cases d
  · rw [onlyAt_look (writeMarker_onlyAt E c _ (mk true)) E (mk false) hne]
    exact writeMarker_post E c fs _ (by rw [hdir]; exact hd)
  · rw [writeMarker_post E c _ _ (by rw [hdir]; exact hd)]
    rw [onlyAt_look (writeMarker_onlyAt E c fs (mk false)) E (mk true) (Ne.symm hne)]

/-! ### write_registered_file / write_unregistered_file -/

theorem writeState_onlyMk (E : Env) (del mk : Bool → Loc) (c : Str) (fs : FS) :
    ∃ mid, OnlyMk del fs mid ∧ OnlyMk mk mid (writeState E del mk c fs).1 := by
  unfold writeState
  simp only
  split
  · exact ⟨_, deleteMarkers_onlyMk E del fs, writeMarkers_onlyMk E mk c _⟩
  · exact ⟨_, deleteMarkers_onlyMk E del fs, OnlyMk.refl _ _⟩

theorem writeState_res (E : Env) (del mk : Bool → Loc) (c : Str) (fs : FS) :
    ((writeState E del mk c fs).2 = .done ∧ (deleteMarkers E del fs).2 = true ∧
        (writeState E del mk c fs).1 = (writeMarkers E mk c (deleteMarkers E del fs).1).1) ∨
    ((writeState E del mk c fs).2 = .oserror ∧ (writeState E del mk c fs).1 = (deleteMarkers E del fs).1) := by
  unfold writeState
  simp only
  split
  · rename_i h; left; simp [writeMarkers_ok, ofOk, h]
  · right; simp

/-! ### generate_machine_id -/

theorem wtdWrite_node_ne (E : Env) (fs : FS) (l l' : Loc) (c : Str) (h : l' ≠ l) :
    (wtdWrite E fs l c).1.node l' = fs.node l' := by
  unfold wtdWrite
  split
  · rfl
  · split
    · exact set_node_ne _ _ _ _ h
    · exact set_node_ne _ _ _ _ h
    · rfl
    · split <;> rfl

theorem readsAs_congr (E : Env) (fs fs' : FS) (h1 : fs'.ext = fs.ext) (h2 : fs'.node .id = fs.node .id) :
    readsAs E fs' = readsAs E fs := by
  simp [readsAs, look, h1, h2]

/-- a read that finds a non-empty identifier file returns its canonical form and writes nothing -/
theorem genId_reuse (E : Env) (fs : FS) (r : Option Str) (f c : Str) (h : readsAs E fs = some c) (hc : c ≠ []) :
    genId E fs false r f = (fs, ofCanon c) := by
  unfold genId
  simp [h, hc]

/-- a non-empty identifier file holding (a spelling of) `x` -/
def Holds (E : Env) (fs : FS) (x : Str) : Prop := ∃ c, readsAs E fs = some c ∧ c ≠ [] ∧ canon c = some x

theorem ofCanon_id (m x : Str) (h : ofCanon m = .id x) : canon m = some x := by
  unfold ofCanon at h; split at h
  · rename_i y hy; cases h; exact hy
  · cases h

/-- the two ways generate_machine_id ends: reuse of a non-empty file (nothing written), or a write of `m` -/
theorem genId_cases (E : Env) (fs : FS) (new : Bool) (r : Option Str) (f : Str) :
    (∃ c, new = false ∧ readsAs E fs = some c ∧ c ≠ [] ∧ genId E fs new r f = (fs, ofCanon c)) ∨
    (∃ m, genId E fs new r f =
      ((wtdWrite E fs .id m).1, if (wtdWrite E fs .id m).2 = true then ofCanon m else .oserror)) := by
  cases new
  · cases hra : readsAs E fs with
    | none =>
      right
      refine ⟨chooseId r f, ?_⟩
      unfold genId
      simp only [hra, Bool.false_eq_true, if_false]
      split <;> rfl
    | some c =>
      by_cases hc : c = []
      · right
        refine ⟨chooseId r f, ?_⟩
        unfold genId
        simp only [hra, hc, Bool.false_eq_true, if_false, List.isEmpty_nil, if_true]
        split <;> rfl
      · left; exact ⟨c, rfl, rfl, hc, genId_reuse E fs r f c hra hc⟩
  · right
    refine ⟨chooseId r f, ?_⟩
    unfold genId
    simp only [if_true]
    split <;> rfl

/-- a successful identifier write makes the file (or its symlink target) hold exactly what was written -/
theorem wtdWrite_id_reads (E : Env) (fs : FS) (m : Str) (hD : E.has false = true)
    (hw : (wtdWrite E fs .id m).2 = true) : readsAs E (wtdWrite E fs .id m).1 = some m := by
  revert hw
  unfold wtdWrite
  simp only [Loc.dir, hD, Bool.not_true, Bool.false_eq_true, if_false]
  cases hn : fs.node .id with
  | absent => intro _; simp [readsAs, look, Loc.dir, hD]
  | file c' => intro _; simp [readsAs, look, Loc.dir, hD]
  | dir => simp
  | link k =>
    simp only
    cases he : fs.ext k with
    | dir => simp
    | absent => intro _; simp [readsAs, look, Loc.dir, hD, hn]
    | file c' => intro _; simp [readsAs, look, Loc.dir, hD, hn]

/-- when the configuration directory exists, whatever identifier is returned is then held by the file -/
theorem genId_holds (E : Env) (fs : FS) (new : Bool) (r : Option Str) (f x : Str) (hD : E.has false = true)
    (h : (genId E fs new r f).2 = .id x) : Holds E (genId E fs new r f).1 x := by
  rcases genId_cases E fs new r f with ⟨c, _, hra, hc, hg⟩ | ⟨m, hg⟩
  · rw [hg] at h ⊢
    exact ⟨c, hra, hc, ofCanon_id _ _ h⟩
  · rw [hg] at h ⊢
    simp only at h ⊢
    split at h
    · rename_i hw
      have hx := ofCanon_id _ _ h
      exact ⟨m, wtdWrite_id_reads E fs m hD hw, canon_ne_nil _ _ hx, hx⟩
    · cases h

/-! ### error branches, histories -/

/-- `write_to_disk(f, delete=True)` raises only for a directory or a removal that is denied (errno other than ENOENT) -/
theorem wtdDelete_false (E : Env) (fs : FS) (l : Loc) (h : (wtdDelete E fs l).2 = false) :
    look E fs l = .dir ∨ E.denied l = true := by
  unfold wtdDelete at h
  split at h
  · cases h
  · rename_i hd; simp at hd
    split at h
    · cases h
    · rename_i hn; left; simp [look, hd, hn]
    · by_cases hdn : E.denied l = true
      · exact Or.inr hdn
      · simp [hdn] at h

theorem deleteMarkers_false (E : Env) (mk : Bool → Loc) (fs : FS) (hne : mk true ≠ mk false)
    (h : (deleteMarkers E mk fs).2 = false) : ∃ d, look E fs (mk d) = .dir ∨ E.denied (mk d) = true := by
  unfold deleteMarkers forDirs at h
  simp only at h
  split at h
  · refine ⟨true, ?_⟩
    rw [← onlyAt_look (wtdDelete_onlyAt E fs (mk false)) E (mk true) hne]
    exact wtdDelete_false E _ _ h
  · rename_i h1
    exact ⟨false, wtdDelete_false E fs _ (by simpa using h1)⟩

theorem exec_append (E : Env) (fs : FS) (h1 h2 : List Op) : exec E fs (h1 ++ h2) = exec E (exec E fs h1) h2 := by
  induction h1 generalizing fs with
  | nil => rfl
  | cons o h ih => simp [exec, ih]

/-! ### frames of the composite operations -/

/-- write_registered_file / write_unregistered_file touch neither the identifier file nor any outside path -/
theorem writeState_frame (E : Env) (del mk : Bool → Loc) (c : Str) (fs : FS)
    (h1 : ∀ d, Loc.id ≠ del d) (h2 : ∀ d, Loc.id ≠ mk d) :
    (writeState E del mk c fs).1.ext = fs.ext ∧ (writeState E del mk c fs).1.node .id = fs.node .id := by
  obtain ⟨mid, a, b⟩ := writeState_onlyMk E del mk c fs
  exact ⟨b.1.trans a.1, (b.2 _ h2).trans (a.2 _ h1)⟩

theorem writeState_not_id (E : Env) (del mk : Bool → Loc) (c : Str) (fs : FS) (x : Str) :
    (writeState E del mk c fs).2 ≠ .id x := by
  rcases writeState_res E del mk c fs with h | h <;> simp [h.1]

theorem genId_node_ne (E : Env) (fs : FS) (new : Bool) (r : Option Str) (f : Str) (l : Loc) (hl : l ≠ .id) :
    (genId E fs new r f).1.node l = fs.node l := by
  rcases genId_cases E fs new r f with ⟨c, _, _, _, hg⟩ | ⟨m, hg⟩
  · rw [hg]
  · rw [hg]; exact wtdWrite_node_ne E fs .id l m hl

theorem fetch_cases (E : Env) (fs : FS) (r : Option Str) (f : Str) :
    fetch E fs r f = genId E fs false r f ∨ fetch E fs r f = (fs, .done) := by
  unfold fetch; split <;> simp

theorem fetch_node_ne (E : Env) (fs : FS) (r : Option Str) (f : Str) (l : Loc) (hl : l ≠ .id) :
    (fetch E fs r f).1.node l = fs.node l := by
  rcases fetch_cases E fs r f with h | h <;> rw [h]
  exact genId_node_ne E fs false r f l hl

/-- a look-up that finds a non-empty identifier file reads it and writes nothing -/
theorem fetch_reuse (E : Env) (fs : FS) (r : Option Str) (f c : Str) (h : readsAs E fs = some c) (hc : c ≠ []) :
    fetch E fs r f = (fs, ofCanon c) := by
  unfold fetch
  simp [idIsFile, h, genId_reuse E fs r f c h hc]

theorem ofCanon_ne_done (c : Str) : ofCanon c ≠ .done := by
  unfold ofCanon; split <;> simp

/-! ### exclusivity of the markers -/

/-- no configuration directory holds both `.registered` and `.unregistered` (as file, symlink or directory) -/
def Excl (E : Env) (fs : FS) : Prop :=
  ∀ d, look E fs (.reg d) = .absent ∨ look E fs (.unreg d) = .absent

theorem Excl.of_shrinks {E : Env} {fs fs' : FS} (h : Excl E fs) (s : Shrinks E fs fs') : Excl E fs' := by
  intro d
  rcases h d with h | h
  · left; rcases s (.reg d) with e | e
    · rw [e]; exact h
    · exact e
  · right; rcases s (.unreg d) with e | e
    · rw [e]; exact h
    · exact e

theorem Excl.of_markers_same {E : Env} {fs fs' : FS} (h : Excl E fs) (same : ∀ l, l ≠ .id → fs'.node l = fs.node l) :
    Excl E fs' := by
  intro d
  have a := same (.reg d) (by simp)
  have b := same (.unreg d) (by simp)
  simpa [look, a, b] using h d

/-- after a write_*_file that returned, the opposite markers are gone -/
theorem writeState_done_del_absent (E : Env) (del mk : Bool → Loc) (c : Str) (fs : FS) (hdm : ∀ d d', del d ≠ mk d')
    (hdone : (writeState E del mk c fs).2 = .done) (d : Bool) :
    look E (writeState E del mk c fs).1 (del d) = .absent := by
  rcases writeState_res E del mk c fs with ⟨_, hok, hfs⟩ | ⟨herr, _⟩
  · rw [hfs, onlyMk_look (writeMarkers_onlyMk E mk c _) E (del d) (fun d' => hdm d d')]
    exact deleteMarkers_ok E del fs hok d
  · rw [herr] at hdone; cases hdone

theorem register_done_excl (E : Env) (c : Str) (fs : FS) (h : (writeState E .unreg .reg c fs).2 = .done) :
    Excl E (writeState E .unreg .reg c fs).1 :=
  fun d => Or.inr (writeState_done_del_absent E .unreg .reg c fs (by intro d d'; simp) h d)

theorem unregister_done_excl (E : Env) (c : Str) (fs : FS) (h : (writeState E .reg .unreg c fs).2 = .done) :
    Excl E (writeState E .reg .unreg c fs).1 :=
  fun d => Or.inl (writeState_done_del_absent E .reg .unreg c fs (by intro d d'; simp) h d)

theorem writeState_err_shrinks (E : Env) (del mk : Bool → Loc) (c : Str) (fs : FS)
    (h : (writeState E del mk c fs).2 ≠ .done) : Shrinks E fs (writeState E del mk c fs).1 := by
  rcases writeState_res E del mk c fs with ⟨hd, _, _⟩ | ⟨_, hfs⟩
  · exact absurd hd h
  · rw [hfs]; exact deleteMarkers_shrinks E del fs

/-- write_registered_file preserves exclusivity whether it returns or raises half-way -/
theorem register_excl (E : Env) (c : Str) (fs : FS) (h : Excl E fs) : Excl E (writeState E .unreg .reg c fs).1 := by
  by_cases hd : (writeState E .unreg .reg c fs).2 = .done
  · exact register_done_excl E c fs hd
  · exact h.of_shrinks (writeState_err_shrinks E _ _ c fs hd)

theorem unregister_excl (E : Env) (c : Str) (fs : FS) (h : Excl E fs) : Excl E (writeState E .reg .unreg c fs).1 := by
  by_cases hd : (writeState E .reg .unreg c fs).2 = .done
  · exact unregister_done_excl E c fs hd
  · exact h.of_shrinks (writeState_err_shrinks E _ _ c fs hd)

theorem unregisterAndDrop_excl (E : Env) (fs : FS) (h : Excl E fs) : Excl E (unregisterAndDrop E fs).1 := by
  unfold unregisterAndDrop
  simp only
  split
  · exact (unregister_excl E _ fs h).of_shrinks (wtdDelete_shrinks E _ .id)
  · exact unregister_excl E _ fs h

theorem unregisterAndDrop_not_id (E : Env) (fs : FS) (x : Str) : (unregisterAndDrop E fs).2 ≠ .id x := by
  unfold unregisterAndDrop
  simp only
  split
  · unfold ofOk; split <;> simp
  · exact writeState_not_id E _ _ _ fs x

/-- the unregistration paths unlink; they never touch an outside path -/
theorem unregisterAndDrop_ext (E : Env) (fs : FS) : (unregisterAndDrop E fs).1.ext = fs.ext := by
  unfold unregisterAndDrop
  simp only
  have fr := (writeState_frame E .reg .unreg timeStamp fs (by intro d; simp) (by intro d; simp)).1
  split
  · exact (wtdDelete_onlyAt E _ .id).1.trans fr
  · exact fr

theorem connUnregister_excl (E : Env) (fs : FS) (h : Excl E fs) : Excl E (connUnregister E fs).1.1 := by
  unfold connUnregister; split
  · exact unregisterAndDrop_excl E fs h
  · exact h

theorem handleUnregistration_excl (E : Env) (fs : FS) (force : Bool) (h : Excl E fs) :
    Excl E (handleUnregistration E fs force).1 := by
  unfold handleUnregistration
  simp only
  have hu := connUnregister_excl E fs h
  split
  · split
    · exact unregisterAndDrop_excl E _ hu
    · exact hu
  · exact hu

theorem registrationCheck_excl (E : Env) (fs : FS) (http : Option Bool) (r : Option Str) (f : Str) (h : Excl E fs) :
    Excl E (registrationCheck E fs http r f).1 := by
  have hg : Excl E (fetch E fs r f).1 := h.of_markers_same (fun l hl => fetch_node_ne E fs r f l hl)
  have pr : ∀ (st : Option Bool),
      Excl E (match (if (st != some true && idIsFile E (fetch E fs r f).1 && existsFollow E (fetch E fs r f).1 (.reg false)) = true
          then some true else st) with
        | some true => writeState E .unreg .reg timeStamp (fetch E fs r f).1
        | some false => unregisterAndDrop E (fetch E fs r f).1
        | none => ((fetch E fs r f).1, Res.done)).1 := by
    intro st
    split
    · exact register_excl E _ _ hg
    · exact unregisterAndDrop_excl E _ hg
    · exact hg
  unfold registrationCheck
  simp only
  split
  · exact pr _
  · exact pr _
  · exact hg

theorem connUnregister_not_id (E : Env) (fs : FS) (x : Str) : (connUnregister E fs).1.2 ≠ .id x := by
  unfold connUnregister; split
  · exact unregisterAndDrop_not_id E fs x
  · simp

theorem handleUnregistration_not_id (E : Env) (fs : FS) (force : Bool) (x : Str) :
    (handleUnregistration E fs force).2 ≠ .id x := by
  unfold handleUnregistration
  simp only
  split
  · split
    · exact unregisterAndDrop_not_id E _ x
    · exact connUnregister_not_id E fs x
  · exact connUnregister_not_id E fs x

theorem registrationCheck_not_id (E : Env) (fs : FS) (http : Option Bool) (r : Option Str) (f x : Str) :
    (registrationCheck E fs http r f).2 ≠ .id x := by
  have pr : ∀ (st : Option Bool),
      (match (if (st != some true && idIsFile E (fetch E fs r f).1 && existsFollow E (fetch E fs r f).1 (.reg false)) = true
          then some true else st) with
        | some true => writeState E .unreg .reg timeStamp (fetch E fs r f).1
        | some false => unregisterAndDrop E (fetch E fs r f).1
        | none => ((fetch E fs r f).1, Res.done)).2 ≠ .id x := by
    intro st
    split
    · exact writeState_not_id E _ _ _ _ x
    · exact unregisterAndDrop_not_id E _ x
    · simp
  unfold registrationCheck
  simp only
  split
  · exact pr _
  · exact pr _
  · rename_i hne _
    intro hx
    exact hne x hx

/-- a registration check that is not told "unregistered" leaves a non-empty identifier file alone -/
theorem registrationCheck_keeps (E : Env) (fs : FS) (http : Option Bool) (r : Option Str) (f c : Str)
    (hh : http ≠ some false) (hr : readsAs E fs = some c) (hc : c ≠ []) :
    readsAs E (registrationCheck E fs http r f).1 = some c := by
  unfold registrationCheck
  simp only [fetch_reuse E fs r f c hr hc]
  split
  · -- the identifier was read: status = http ∈ {found, unreachable}
    split
    · have fr := writeState_frame E .unreg .reg timeStamp fs (by intro d; simp) (by intro d; simp)
      rw [readsAs_congr E fs _ fr.1 fr.2]; exact hr
    · rename_i hst
      split at hst
      · cases hst
      · exact absurd hst hh
    · exact hr
  · rename_i hd; exact absurd hd (ofCanon_ne_done c)
  · exact hr

/-- `write_unregistered_file(); write_to_disk(machine_id_file, delete=True)`: the identifier file is touched only
    after the unregistration record is completely in place -/
theorem unregisterAndDrop_id_last (E : Env) (fs : FS)
    (h : (unregisterAndDrop E fs).1.node .id ≠ fs.node .id) :
    (writeState E .reg .unreg timeStamp fs).2 = .done ∧ Excl E (unregisterAndDrop E fs).1 ∧
      look E (unregisterAndDrop E fs).1 .id = .absent ∧ (unregisterAndDrop E fs).2 = .done := by
  have fr := (writeState_frame E .reg .unreg timeStamp fs (by intro d; simp) (by intro d; simp)).2
  unfold unregisterAndDrop at h ⊢
  simp only at h ⊢
  split
  · rename_i hdone
    rw [if_pos hdone] at h
    refine ⟨hdone, (unregister_done_excl E _ fs hdone).of_shrinks (wtdDelete_shrinks E _ .id), ?_⟩
    cases hok : (wtdDelete E (writeState E .reg .unreg timeStamp fs).1 .id).2 with
    | true => exact ⟨wtdDelete_ok E _ .id hok, by simp [ofOk]⟩
    | false =>
      exfalso; apply h
      rw [← fr]
      revert hok
      unfold wtdDelete
      split
      · simp
      · split
        · simp
        · simp
        · split <;> simp
  · rename_i hnd
    rw [if_neg hnd] at h
    exact absurd fr h

/-- a denied unlink of the identifier file: the unregistration reports the error and the identifier survives -/
theorem unregisterAndDrop_denied_id (E : Env) (fs : FS) (hden : E.denied .id = true) :
    (unregisterAndDrop E fs).1.node .id = fs.node .id ∧
      (look E fs .id ≠ .absent → (unregisterAndDrop E fs).2 = .oserror) := by
  have fr := (writeState_frame E .reg .unreg timeStamp fs (by intro d; simp) (by intro d; simp)).2
  have key : ∀ s : FS, s.node .id = fs.node .id →
      (wtdDelete E s .id).1.node .id = fs.node .id ∧ (look E fs .id ≠ .absent → (wtdDelete E s .id).2 = false) := by
    intro s hs
    cases hh : E.has false with
    | false => simp [wtdDelete, look, Loc.dir, hh, hs]
    | true =>
      cases hn : fs.node .id with
      | absent => simp [wtdDelete, look, Loc.dir, hh, hs, hn]
      | dir => simp [wtdDelete, look, Loc.dir, hh, hs, hn]
      | file c => simp [wtdDelete, look, Loc.dir, hh, hs, hn, hden]
      | link k => simp [wtdDelete, look, Loc.dir, hh, hs, hn, hden]
  unfold unregisterAndDrop
  simp only
  split
  · obtain ⟨a, b⟩ := key _ fr
    exact ⟨a, fun hl => by rw [b hl]; rfl⟩
  · rename_i hnd
    refine ⟨fr, fun _ => ?_⟩
    rcases writeState_res E .reg .unreg timeStamp fs with ⟨hd, _, _⟩ | ⟨he, _⟩
    · exact absurd hd hnd
    · exact he

/-! ### the legacy registration flow -/

theorem legacySync_excl (E : Env) (fs : FS) (a : Api) (h : Excl E fs) : Excl E (legacySync E fs a).1 := by
  cases a with
  | registered => exact register_excl E _ fs h
  | unreachable => exact h
  | notYet => exact unregisterAndDrop_excl E fs h
  | unregAt d => exact unregisterAndDrop_excl E fs h

theorem legacySync_not_id (E : Env) (fs : FS) (a : Api) (x : Str) : (legacySync E fs a).2 ≠ .id x := by
  cases a with
  | registered => exact writeState_not_id E _ _ _ fs x
  | unreachable => simp [legacySync]
  | notYet => exact unregisterAndDrop_not_id E fs x
  | unregAt d => exact unregisterAndDrop_not_id E fs x

theorem legacySync_keeps (E : Env) (fs : FS) (a : Api) (c : Str) (ha : a = .registered ∨ a = .unreachable)
    (hr : readsAs E fs = some c) : readsAs E (legacySync E fs a).1 = some c := by
  rcases ha with rfl | rfl
  · have fr := writeState_frame E .unreg .reg timeStamp fs (by intro d; simp) (by intro d; simp)
    simp only [legacySync]
    rw [readsAs_congr E fs _ fr.1 fr.2]; exact hr
  · exact hr

theorem legacyRegistrationCheck_excl (E : Env) (fs : FS) (a : Api) (r : Option Str) (f : Str) (h : Excl E fs) :
    Excl E (legacyRegistrationCheck E fs a r f).1 := by
  have hg : Excl E (fetch E fs r f).1 := h.of_markers_same (fun l hl => fetch_node_ne E fs r f l hl)
  unfold legacyRegistrationCheck
  simp only
  split
  · exact legacySync_excl E _ _ hg
  · exact legacySync_excl E _ _ hg
  · exact hg

theorem legacyRegistrationCheck_not_id (E : Env) (fs : FS) (a : Api) (r : Option Str) (f x : Str) :
    (legacyRegistrationCheck E fs a r f).2 ≠ .id x := by
  unfold legacyRegistrationCheck
  simp only
  split
  · exact legacySync_not_id E _ _ x
  · exact legacySync_not_id E _ _ x
  · rename_i hne _
    intro hx
    exact hne x hx

/-- a legacy registration check told "registered" or left without an answer leaves a non-empty identifier file alone -/
theorem legacyRegistrationCheck_keeps (E : Env) (fs : FS) (a : Api) (r : Option Str) (f c : Str)
    (ha : a = .registered ∨ a = .unreachable) (hr : readsAs E fs = some c) (hc : c ≠ []) :
    readsAs E (legacyRegistrationCheck E fs a r f).1 = some c := by
  unfold legacyRegistrationCheck
  simp only [fetch_reuse E fs r f c hr hc]
  split
  · exact legacySync_keeps E fs a c ha hr
  · rename_i hd; exact absurd hd (ofCanon_ne_done c)
  · exact hr

theorem legacyHandleRegistration_excl (E : Env) (fs : FS) (a : Api) (reg : Bool) (r : Option Str) (f f2 : Str)
    (h : Excl E fs) : Excl E (legacyHandleRegistration E fs a reg r f f2).1 := by
  have hc := legacyRegistrationCheck_excl E fs a r f h
  have gen : ∀ s {f'}, Excl E s → Excl E (genId E s false r f').1 :=
    fun s f' hs => hs.of_markers_same (fun l hl => genId_node_ne E s false r f' l hl)
  unfold legacyHandleRegistration
  simp only
  split
  · split
    · exact hc
    · split
      · split
        · exact gen _ hc
        · split
          · exact register_excl E _ _ (gen _ hc)
          · split
            · split
              · exact register_excl E _ _ (gen _ (gen _ hc))
              · exact gen _ (gen _ hc)
            · exact unregister_excl E _ _ (gen _ hc)
      · exact gen _ hc
  · exact hc

theorem legacyHandleRegistration_not_id (E : Env) (fs : FS) (a : Api) (reg : Bool) (r : Option Str) (f f2 x : Str) :
    (legacyHandleRegistration E fs a reg r f f2).2 ≠ .id x := by
  unfold legacyHandleRegistration
  simp only
  split
  · split
    · simp
    · split
      · split
        · simp
        · split
          · exact writeState_not_id E _ _ _ _ x
          · split
            · split
              · exact writeState_not_id E _ _ _ _ x
              · rename_i hne; intro hx; exact hne x hx
            · exact writeState_not_id E _ _ _ _ x
      · rename_i hne; intro hx; exact hne x hx
  · exact legacyRegistrationCheck_not_id E fs a r f x

theorem legacyHandleUnregistration_excl (E : Env) (fs : FS) (a : Api) (force ok : Bool) (r : Option Str) (f f2 : Str)
    (h : Excl E fs) : Excl E (legacyHandleUnregistration E fs a force ok r f f2).1 := by
  have hc := legacyRegistrationCheck_excl E fs a r f h
  have gen : ∀ s {f'}, Excl E s → Excl E (genId E s false r f').1 :=
    fun s f' hs => hs.of_markers_same (fun l hl => genId_node_ne E s false r f' l hl)
  unfold legacyHandleUnregistration
  simp only
  repeat' split
  all_goals first | exact hc | exact gen _ hc | exact unregisterAndDrop_excl E _ hc | exact unregisterAndDrop_excl E _ (gen _ hc)

theorem legacyHandleUnregistration_not_id (E : Env) (fs : FS) (a : Api) (force ok : Bool) (r : Option Str) (f f2 x : Str) :
    (legacyHandleUnregistration E fs a force ok r f f2).2 ≠ .id x := by
  unfold legacyHandleUnregistration
  simp only
  generalize (if readsAs E fs = some [] then f2 else f) = fg
  repeat' split
  all_goals first
    | exact unregisterAndDrop_not_id E _ x
    | exact legacyRegistrationCheck_not_id E fs a r f x
    | (rename_i hne; intro hx; exact hne x hx)
    | simp

/-- the legacy registration told "registered", or left without an answer, leaves a non-empty identifier file alone -/
theorem legacyHandleRegistration_keeps (E : Env) (fs : FS) (a : Api) (reg : Bool) (r : Option Str) (f f2 c : Str)
    (ha : a = .registered ∨ a = .unreachable) (hr : readsAs E fs = some c) (hc : c ≠ []) :
    readsAs E (legacyHandleRegistration E fs a reg r f f2).1 = some c := by
  have hfg : (if readsAs E fs = some [] then f2 else f) = f := by simp [hr, hc]
  have hk := legacyRegistrationCheck_keeps E fs a r f c ha hr hc
  have hf : idIsFile E fs = true := by simp [idIsFile, hr]
  have hf' : idIsFile E (legacyRegistrationCheck E fs a r f).1 = true := by simp [idIsFile, hk]
  unfold legacyHandleRegistration
  simp only [hfg, effApi, hf, if_true, hf', Bool.true_and, genId_reuse E _ r f c hk hc]
  split
  · split
    · exact hk
    · split
      · split
        · exact hk
        · split
          · have fr := writeState_frame E .unreg .reg timeStamp (legacyRegistrationCheck E fs a r f).1
              (by intro d; simp) (by intro d; simp)
            rw [readsAs_congr E _ _ fr.1 fr.2]; exact hk
          · rename_i h1 h2 h3
            rcases ha with rfl | rfl
            · exact absurd rfl h3
            · exact absurd rfl h2
      · exact hk
  · exact hk

end IV.ClientState
