import IV.Model.Subgraphs
/-! `close` computes the connected component of its start key; rounds are disjoint (C04). -/
namespace IV.Dr

variable (r : Rel) (G : List Comp)

/-- reachable from `k` through dependency/dependent edges inside the graph -/
inductive SgReach (k : Comp) : Comp → Prop
  | refl : SgReach k k
  | step {x y : Comp} : SgReach k x → y ∈ nbrs r G x → SgReach k y

/-- a set of components closed under "neighbour inside the graph" -/
def Closed (s : List Comp) : Prop := ∀ x ∈ s, ∀ y ∈ nbrs r G x, y ∈ s

/-- number of graph keys not yet seen -/
def unseen (seen : List Comp) : Nat := (G.filter (fun x => !seen.contains x)).length

theorem unseen_cons_lt (seen : List Comp) (c : Comp) (hc : c ∈ G) (hn : c ∉ seen) :
    unseen G (c :: seen) < unseen G seen := by
  unfold unseen
  have e : G.filter (fun x => !(c :: seen).contains x) =
      (G.filter (fun x => !seen.contains x)).filter (fun x => !(c :: seen).contains x) := by
    rw [List.filter_filter]
    apply List.filter_congr
    intro x _
    by_cases hx : x = c <;> simp [hx]
  rw [e]
  apply List.length_filter_lt_length_iff_exists.mpr
  refine ⟨c, ?_, by simp⟩
  rw [List.mem_filter]
  exact ⟨hc, by simpa using hn⟩

theorem nbrs_mem_G (c y : Comp) (h : y ∈ nbrs r G c) : y ∈ G := by
  simp only [nbrs, List.mem_filter, List.contains_eq_mem, decide_eq_true_eq] at h
  exact h.2

/-- loop invariant of `close` -/
structure Inv (k : Comp) (fr seen : List Comp) : Prop where
  frG : ∀ x ∈ fr, x ∈ G ∧ x ∉ seen
  seenG : ∀ x ∈ seen, x ∈ G
  border : ∀ x ∈ seen, ∀ y ∈ nbrs r G x, y ∈ seen ∨ y ∈ fr
  reach : ∀ x, x ∈ seen ∨ x ∈ fr → SgReach r G k x

theorem close_spec (k : Comp) : ∀ (f : Nat) (fr seen : List Comp), Inv r G k fr seen → unseen G seen < f →
    Closed r G (close r G f fr seen) ∧ (∀ x ∈ seen, x ∈ close r G f fr seen) ∧
    (∀ x ∈ fr, x ∈ close r G f fr seen) ∧
    (∀ x ∈ close r G f fr seen, SgReach r G k x ∧ x ∈ G) := by
  intro f
  induction f with
  | zero => intro fr seen _ h; omega
  | succ f ih =>
    intro fr seen hinv hf
    cases fr with
    | nil =>
      simp only [close]
      refine ⟨?_, fun x hx => hx, by simp, fun x hx => ⟨hinv.reach x (Or.inl hx), hinv.seenG x hx⟩⟩
      intro x hx y hy
      rcases hinv.border x hx y hy with h | h
      · exact h
      · simp at h
    | cons c fr =>
      simp only [close]
      obtain ⟨hcG, hcs⟩ := hinv.frG c (by simp)
      have hlt := unseen_cons_lt G seen c hcG hcs
      have hinv' : Inv r G k ((fr ++ nbrs r G c).filter (fun x => !(c :: seen).contains x)) (c :: seen) := by
        refine ⟨?_, ?_, ?_, ?_⟩
        · intro x hx
          rw [List.mem_filter] at hx
          obtain ⟨hx1, hx2⟩ := hx
          refine ⟨?_, by simpa using hx2⟩
          rcases List.mem_append.mp hx1 with h | h
          · exact (hinv.frG x (by simp [h])).1
          · exact nbrs_mem_G r G c x h
        · intro x hx
          rcases List.mem_cons.mp hx with rfl | h
          · exact hcG
          · exact hinv.seenG x h
        · intro x hx y hy
          by_cases hys : y ∈ c :: seen
          · exact Or.inl hys
          · right
            rw [List.mem_filter]
            refine ⟨?_, by simpa using hys⟩
            rcases List.mem_cons.mp hx with rfl | h
            · exact List.mem_append.mpr (Or.inr hy)
            · rcases hinv.border x h y hy with h1 | h1
              · exact absurd (List.mem_cons_of_mem _ h1) hys
              · rcases List.mem_cons.mp h1 with rfl | h2
                · exact absurd (by simp) hys
                · exact List.mem_append.mpr (Or.inl h2)
        · intro x hx
          rcases hx with hx | hx
          · rcases List.mem_cons.mp hx with rfl | h
            · exact hinv.reach _ (Or.inr (by simp))
            · exact hinv.reach x (Or.inl h)
          · rw [List.mem_filter] at hx
            rcases List.mem_append.mp hx.1 with h | h
            · exact hinv.reach x (Or.inr (by simp [h]))
            · exact SgReach.step (hinv.reach c (Or.inr (by simp))) h
      obtain ⟨h1, h2, h3, h4⟩ := ih _ _ hinv' (by omega)
      refine ⟨h1, fun x hx => h2 x (by simp [hx]), ?_, h4⟩
      intro x hx
      rcases List.mem_cons.mp hx with rfl | h
      · exact h2 _ (by simp)
      · by_cases hxs : x ∈ c :: seen
        · exact h2 x hxs
        · exact h3 x (by rw [List.mem_filter]; exact ⟨by simp [h], by simpa using hxs⟩)

theorem unseen_le (seen : List Comp) : unseen G seen ≤ G.length := by
  unfold unseen; exact List.length_filter_le _ _

/-- one round: the closure of `{k}` is closed, contains `k`, and is exactly what is reachable from `k` -/
theorem round_spec (k : Comp) (hk : k ∈ G) :
    let s := close r G (G.length + 1) [k] []
    Closed r G s ∧ k ∈ s ∧ ∀ x ∈ s, SgReach r G k x ∧ x ∈ G := by
  intro s
  have hinv : Inv r G k [k] [] := ⟨by simp [hk], by simp, by simp, by
    intro x hx; rcases hx with h | h
    · simp at h
    · simp at h; rw [h]; exact SgReach.refl⟩
  obtain ⟨h1, _, h3, h4⟩ := close_spec r G k (G.length + 1) [k] [] hinv (by have := unseen_le G []; omega)
  exact ⟨h1, h3 k (by simp), h4⟩

/-- the dependents relation is the inverse of the dependencies relation (an invariant of registration:
`ComponentType.__call__` / `add_dependency` call `add_dependent` for every dependency) -/
def Symmetric : Prop := ∀ c d, c ∈ G → d ∈ G → (d ∈ r.deps c ↔ c ∈ r.dependents d)

theorem nbrs_symm (hs : Symmetric r G) (x y : Comp) (hx : x ∈ G) (h : y ∈ nbrs r G x) : x ∈ nbrs r G y := by
  have hy : y ∈ G := nbrs_mem_G r G x y h
  simp only [nbrs, List.mem_filter, List.mem_append, List.contains_eq_mem, decide_eq_true_eq] at h ⊢
  refine ⟨?_, hx⟩
  rcases h.1 with h1 | h1
  · right; exact (hs x y hx hy).mp h1
  · left; exact (hs y x hy hx).mpr h1

/-- a closed set that contains something reachable from `k` contains `k` -/
theorem closed_back (hs : Symmetric r G) (s : List Comp) (hc : Closed r G s) (k : Comp) (hk : k ∈ G) :
    ∀ x, SgReach r G k x → x ∈ s → k ∈ s := by
  intro x hr
  induction hr with
  | refl => exact id
  | @step a b hra hb ih =>
    intro hbs
    have haG : a ∈ G := by
      cases hra with
      | refl => exact hk
      | step _ h => exact nbrs_mem_G r G _ _ h
    exact ih (hc b hbs a (nbrs_symm r G hs a b haG hb))

end IV.Dr

namespace IV.Dr

variable (r : Rel) (G : List Comp)

theorem filter_length_le' (l : List Comp) (p : Comp → Bool) : (l.filter p).length ≤ l.length := List.length_filter_le _ _

theorem subgraphs_spec (hs : Symmetric r G) : ∀ (f : Nat) (ks : List Comp), ks.length ≤ f → (∀ k ∈ ks, k ∈ G) →
    (∀ k ∈ ks, ∃ s ∈ subgraphs r G f ks, k ∈ s) ∧
    (subgraphs r G f ks).Pairwise (fun a b => ∀ x ∈ a, x ∉ b) ∧
    (∀ s ∈ subgraphs r G f ks, Closed r G s ∧ (∀ x ∈ s, x ∈ G) ∧ ∃ k ∈ ks, k ∈ s ∧ ∀ x ∈ s, SgReach r G k x) := by
  intro f
  induction f with
  | zero =>
    intro ks hl _
    have : ks = [] := List.length_eq_zero_iff.mp (by omega)
    subst this
    simp [subgraphs]
  | succ f ih =>
    intro ks hl hG
    cases ks with
    | nil => simp [subgraphs]
    | cons k ks =>
      simp only [subgraphs]
      obtain ⟨hcl, hks, hreach⟩ := round_spec r G k (hG k (by simp))
      have hrest_len : (ks.filter (fun x => !(close r G (G.length + 1) [k] []).contains x)).length ≤ f := by
        have := filter_length_le' ks (fun x => !(close r G (G.length + 1) [k] []).contains x)
        simp only [List.length_cons] at hl
        omega
      have hrest_G : ∀ x ∈ ks.filter (fun x => !(close r G (G.length + 1) [k] []).contains x), x ∈ G :=
        fun x hx => hG x (by simp [(List.mem_filter.mp hx).1])
      obtain ⟨i1, i2, i3⟩ := ih _ hrest_len hrest_G
      refine ⟨?_, ?_, ?_⟩
      · intro k2 hk2
        rcases List.mem_cons.mp hk2 with rfl | h
        · exact ⟨_, by simp, hks⟩
        · by_cases hin : k2 ∈ close r G (G.length + 1) [k] []
          · exact ⟨_, by simp, hin⟩
          · obtain ⟨s, hs1, hs2⟩ := i1 k2 (by rw [List.mem_filter]; exact ⟨h, by simpa using hin⟩)
            exact ⟨s, List.mem_cons_of_mem _ hs1, hs2⟩
      · rw [List.pairwise_cons]
        refine ⟨?_, i2⟩
        intro s' hs' x hx hx'
        obtain ⟨hc', _, k', hk', _, hr'⟩ := i3 s' hs'
        have hk'G : k' ∈ G := hrest_G k' hk'
        have : k' ∈ close r G (G.length + 1) [k] [] :=
          closed_back r G hs _ hcl k' hk'G x (hr' x hx') hx
        have hnot := (List.mem_filter.mp hk').2
        simp [this] at hnot
      · intro s hs'
        rcases List.mem_cons.mp hs' with rfl | h
        · exact ⟨hcl, fun x hx => (hreach x hx).2, k, by simp, hks, fun x hx => (hreach x hx).1⟩
        · obtain ⟨a, b, k', hk', c, d⟩ := i3 s h
          exact ⟨a, b, k', by simp [(List.mem_filter.mp hk').1], c, d⟩

theorem insertPrio_mem (prio : Comp → Nat) (a x : Comp) (l : List Comp) :
    x ∈ insertPrio prio a l ↔ x = a ∨ x ∈ l := by
  induction l with
  | nil => simp [insertPrio]
  | cons y ys ih =>
    simp only [insertPrio]
    split
    · simp
    · simp [ih]; constructor <;> (intro h; rcases h with h | h | h <;> simp [h])

theorem insertPrio_length (prio : Comp → Nat) (a : Comp) (l : List Comp) :
    (insertPrio prio a l).length = l.length + 1 := by
  induction l with
  | nil => simp [insertPrio]
  | cons y ys ih => simp only [insertPrio]; split <;> simp [ih]

theorem sortPrio_mem (prio : Comp → Nat) (l : List Comp) (x : Comp) : x ∈ sortPrio prio l ↔ x ∈ l := by
  induction l with
  | nil => simp [sortPrio]
  | cons a as ih =>
    simp only [sortPrio, List.foldr_cons] at ih ⊢
    rw [insertPrio_mem, ih]; simp

theorem sortPrio_length (prio : Comp → Nat) (l : List Comp) : (sortPrio prio l).length = l.length := by
  induction l with
  | nil => simp [sortPrio]
  | cons a as ih =>
    simp only [sortPrio, List.foldr_cons] at ih ⊢
    rw [insertPrio_length, ih]; simp

end IV.Dr
