import IV.Model.Rules
/-!
Helper lemmas for C12 (IV.Rules): association lists, `mkResp`, the refinement
`run = fold of the per-rule outcomes`, and additive counting over that fold.
-/
namespace IV.Rules

/-! ### association lists -/

theorem lookup_append_of_not_hasKey {α : Type} (k : Str) (d e : List (Str × α)) (h : hasKey k d = false) :
    lookup k (d ++ e) = lookup k e := by
  induction d with
  | nil => rfl
  | cons kv rest ih =>
    obtain ⟨k', v⟩ := kv
    simp only [hasKey, List.any_cons, Bool.or_eq_false_iff, beq_eq_false_iff_ne, ne_eq] at h
    simp only [List.cons_append, lookup, h.1, if_false]
    exact ih (by simpa [hasKey] using h.2)

theorem lookup_setKey_self {α : Type} (k : Str) (v : α) (d : List (Str × α)) : lookup k (setKey k v d) = some v := by
  induction d with
  | nil => simp [setKey, lookup]
  | cons kv rest ih =>
    obtain ⟨k', v'⟩ := kv
    by_cases h : k' = k
    · simp [setKey, lookup, h]
    · simp [setKey, lookup, h, ih]

theorem lookup_setKey_ne {α : Type} (k k' : Str) (v : α) (d : List (Str × α)) (hne : k' ≠ k) :
    lookup k' (setKey k v d) = lookup k' d := by
  induction d with
  | nil => simp [setKey, lookup, Ne.symm hne]
  | cons kv rest ih =>
    obtain ⟨k'', v'⟩ := kv
    by_cases h : k'' = k
    · subst h
      simp [setKey, lookup, Ne.symm hne]
    · by_cases h2 : k'' = k'
      · subst h2; simp [setKey, lookup, h]
      · simp [setKey, lookup, h, h2, ih]

theorem lookup_setKey {α : Type} (k k' : Str) (v : α) (d : List (Str × α)) :
    lookup k' (setKey k v d) = if k' = k then some v else lookup k' d := by
  by_cases h : k' = k
  · subst h; simp [lookup_setKey_self]
  · simp [h, lookup_setKey_ne _ _ _ _ h]

theorem lookup_erase {α : Type} (k k' : Str) (d : List (Str × α)) :
    lookup k' (erase k d) = if k' = k then none else lookup k' d := by
  induction d with
  | nil => simp [erase, lookup]
  | cons kv rest ih =>
    obtain ⟨k'', v⟩ := kv
    unfold erase at ih ⊢
    by_cases h : k'' = k
    · subst h
      by_cases h2 : k' = k''
      · subst h2; simpa [List.filter, lookup] using ih
      · simp only [List.filter, bne_self_eq_false, lookup, Ne.symm h2, if_false]
        simpa [h2] using ih
    · have hb : (k'' != k) = true := by simpa using h
      by_cases h2 : k' = k
      · subst h2
        simp only [List.filter, hb, lookup, h, if_false]
        simpa using ih
      · simp only [List.filter, hb, lookup]
        by_cases h3 : k'' = k'
        · simp [h3, h2]
        · simp only [h3, if_false]
          simpa [h2] using ih

theorem getList_appendAt {α : Type} (k k' : Str) (e : α) (d : List (Str × List α)) :
    getList k' (appendAt k e d) = if k' = k then getList k' d ++ [e] else getList k' d := by
  induction d with
  | nil =>
    by_cases h : k' = k
    · subst h; simp [appendAt, getList, lookup]
    · simp [appendAt, getList, lookup, h, Ne.symm h]
  | cons kv rest ih =>
    obtain ⟨k'', es⟩ := kv
    by_cases h : k'' = k
    · subst h
      by_cases h2 : k' = k''
      · subst h2; simp [appendAt, getList, lookup]
      · simp [appendAt, getList, lookup, h2, Ne.symm h2]
    · by_cases h2 : k'' = k'
      · subst h2
        have : ¬ k'' = k := h
        simp [appendAt, getList, lookup, h]
      · simp only [appendAt, h, if_false, getList, lookup, h2]
        simpa [getList] using ih

/-- counting over all lists of a `defaultdict(list)` -/
def countAll {α : Type} (p : α → Bool) (d : List (Str × List α)) : Nat := (d.map (fun kv => kv.2.countP p)).sum

theorem countAll_appendAt {α : Type} (p : α → Bool) (k : Str) (e : α) (d : List (Str × List α)) :
    countAll p (appendAt k e d) = countAll p d + (if p e then 1 else 0) := by
  induction d with
  | nil => simp [appendAt, countAll, List.countP_cons]
  | cons kv rest ih =>
    obtain ⟨k', es⟩ := kv
    by_cases h : k' = k
    · simp only [appendAt, h, if_true, countAll, List.map_cons, List.sum_cons, List.countP_append, List.countP_cons,
        List.countP_nil]
      omega
    · unfold countAll at ih ⊢
      simp only [appendAt, h, if_false, List.map_cons, List.sum_cons, ih]
      omega

/-! ### `mkResp` -/

instance : DecidableEq (Except VErr Resp) := fun a b =>
  match a, b with
  | .ok x, .ok y => if h : x = y then isTrue (by rw [h]) else isFalse (by intro h'; cases h'; exact h rfl)
  | .error x, .error y => if h : x = y then isTrue (by rw [h]) else isFalse (by intro h'; cases h'; exact h rfl)
  | .ok _, .error _ => isFalse (by intro h; cases h)
  | .error _, .ok _ => isFalse (by intro h; cases h)

theorem key_ok_iff (key : PyVal) : (key.truthy = true ∧ key.isStr = true) ↔ ∃ s, key = .str s ∧ s ≠ [] := by
  cases key <;> simp [PyVal.truthy, PyVal.isStr]

/-- the arguments pass validation -/
def Valid (c : RClass) (key : PyVal) (kwargs : Dict) : Prop :=
  c.rtype.isSome = true ∧ hasKey sType kwargs = false ∧
    ∀ kn, c.keyName = some kn → hasKey kn kwargs = false ∧ key.truthy = true ∧ key.isStr = true

theorem reserved_any (c : RClass) (kwargs : Dict) :
    (reservedNames c).any (fun n => hasKey n kwargs) =
      (hasKey sType kwargs || match c.keyName with | some kn => hasKey kn kwargs | none => false) := by
  cases h : c.keyName <;> simp [reservedNames, h]

/-- the response `Response.__init__` builds from valid arguments -/
def built (limit : Nat) (c : RClass) (t : Str) (key : PyVal) (kwargs : Dict) : Resp :=
  let r := baseFields t c key
  let length := (reprDict (kwargs ++ r)).length
  if !c.exempt && length > limit then ⟨c, r ++ [(sMaxErr, .int length)]⟩ else ⟨c, kwargs ++ r⟩

theorem mkResp_of_valid (limit : Nat) (c : RClass) (t : Str) (key : PyVal) (kwargs : Dict)
    (ht : c.rtype = some t) (hv : Valid c key kwargs) : mkResp limit c key kwargs = .ok (built limit c t key kwargs) := by
  obtain ⟨_, h2, h3⟩ := hv
  unfold mkResp built
  simp only [ht, reserved_any, h2, Bool.false_or]
  cases hk : c.keyName with
  | none => simp; split <;> rfl
  | some kn =>
    obtain ⟨a, b, d⟩ := h3 kn hk
    simp [a, b, d]; split <;> rfl

theorem mkResp_error_of_invalid (limit : Nat) (c : RClass) (key : PyVal) (kwargs : Dict) (hv : ¬ Valid c key kwargs) :
    ∃ e, mkResp limit c key kwargs = .error e := by
  unfold mkResp
  cases ht : c.rtype with
  | none => exact ⟨_, rfl⟩
  | some t =>
    simp only [reserved_any]
    by_cases h2 : hasKey sType kwargs = true
    · exact ⟨.reserved, by simp [h2]⟩
    · have h2' : hasKey sType kwargs = false := by simpa using h2
      cases hk : c.keyName with
      | none =>
        exfalso; apply hv
        exact ⟨by simp [ht], h2', by intro kn hkn; rw [hk] at hkn; cases hkn⟩
      | some kn =>
        by_cases h3 : hasKey kn kwargs = true
        · exact ⟨.reserved, by simp [h2', h3]⟩
        · have h3' : hasKey kn kwargs = false := by simpa using h3
          by_cases h4 : key.truthy = true
          · by_cases h5 : key.isStr = true
            · exfalso; apply hv
              refine ⟨by simp [ht], h2', ?_⟩
              intro kn' hkn'; rw [hk] at hkn'; cases hkn'
              exact ⟨h3', h4, h5⟩
            · exact ⟨.keyType, by simp [h2', h3', h4, h5]⟩
          · exact ⟨.keyMissing, by simp [h2', h3', h4]⟩

theorem built_cls (limit : Nat) (c : RClass) (t : Str) (key : PyVal) (kwargs : Dict) : (built limit c t key kwargs).cls = c := by
  simp only [built]; split <;> rfl

theorem built_type (limit : Nat) (c : RClass) (t : Str) (key : PyVal) (kwargs : Dict) (h : hasKey sType kwargs = false) :
    lookup sType (built limit c t key kwargs).fields = some (.str t) := by
  simp only [built]
  split
  · simp [baseFields, lookup]
  · simp only
    rw [lookup_append_of_not_hasKey _ _ _ h]
    simp [baseFields, lookup]

theorem built_getKey (limit : Nat) (c : RClass) (t : Str) (key : PyVal) (kwargs : Dict) (kn : Str)
    (hk : c.keyName = some kn) (hne : kn ≠ sType) (h : hasKey kn kwargs = false) :
    (built limit c t key kwargs).getKey = some key := by
  unfold Resp.getKey
  rw [built_cls, hk]
  simp only [built]
  split
  · simp [baseFields, keyField, hk, lookup, Ne.symm hne]
  · simp only
    rw [lookup_append_of_not_hasKey _ _ _ h]
    simp [baseFields, keyField, hk, lookup, Ne.symm hne]

/-! ### the per-rule step as "apply the rule's outcome" -/

def applyFinal (st : St) (r : Rule) : Final → St
  | .entry t resp =>
    { st with inst := st.inst ++ [(r.id, some resp)], handled := st.handled ++ [r.id],
              results := appendAt t (mkEntry r t resp) st.results }
  | .skipEntry resp =>
    { st with inst := st.inst ++ [(r.id, some resp)], handled := st.handled ++ [r.id], skips := st.skips ++ [(r.id, resp)] }
  | .metadata resp =>
    { st with inst := st.inst ++ [(r.id, some resp)], handled := st.handled ++ [r.id],
              metadata := mergeMd st.metadata resp.fields, mdFrom := st.mdFrom ++ [r.id] }
  | .metadataKey resp k v =>
    { st with inst := st.inst ++ [(r.id, some resp)], handled := st.handled ++ [r.id],
              mdKeys := setKey k v st.mdKeys, mdkFrom := st.mdkFrom ++ [r.id] }
  | .unlisted resp => { st with inst := st.inst ++ [(r.id, some resp)], handled := st.handled ++ [r.id] }
  | .exception es => { st with excs := st.excs ++ es.map (r.id, ·) }
  | .nothing => st

theorem lookup'_append_new (c : Comp) (v : Option Resp) (l : List (Comp × Option Resp)) (h : c ∉ l.map (·.1)) :
    observe.lookup' c (l ++ [(c, v)]) = some v := by
  induction l with
  | nil => simp [observe.lookup']
  | cons kv rest ih =>
    obtain ⟨c', v'⟩ := kv
    simp only [List.map_cons, List.mem_cons, not_or] at h
    simp only [List.cons_append, observe.lookup', Ne.symm h.1, if_false]
    exact ih h.2

theorem lookup'_absent (c : Comp) (l : List (Comp × Option Resp)) (h : c ∉ l.map (·.1)) : observe.lookup' c l = none := by
  induction l with
  | nil => rfl
  | cons kv rest ih =>
    obtain ⟨c', v'⟩ := kv
    simp only [List.map_cons, List.mem_cons, not_or] at h
    simp only [observe.lookup', Ne.symm h.1, if_false]
    exact ih h.2

theorem md_ne_skip : sMetadata ≠ sSkip := by decide
theorem mdk_ne_skip : sMetadataKey ≠ sSkip := by decide
theorem mdk_ne_md : sMetadataKey ≠ sMetadata := by decide

theorem handle_eq (st : St) (r : Rule) (resp : Resp) :
    handle { st with inst := st.inst ++ [(r.id, some resp)], handled := st.handled ++ [r.id] } r resp =
      applyFinal st r (observeKind resp) := by
  unfold handle observeKind
  split
  · rename_i t ht
    by_cases h1 : t = sSkip
    · simp [h1, applyFinal]
    · by_cases h2 : t = sMetadata
      · subst h2; simp [md_ne_skip, applyFinal]
      · by_cases h3 : t = sMetadataKey
        · subst h3
          simp only [mdk_ne_skip, mdk_ne_md, if_false, if_true]
          split
          · simp [applyFinal]
          · simp [applyFinal]
        · simp [h1, h2, h3, applyFinal]
  · rfl

theorem step_eq (env : Env) (st : St) (r : Rule) (hnew : r.id ∉ st.present) (hh : r.id ∉ st.handled) :
    step env st r = applyFinal st r (classify env st.present r) := by
  have hc : st.present.contains r.id = false := by simpa using hnew
  have hhc : st.handled.contains r.id = false := by simpa using hh
  unfold step classify
  simp only [hc, Bool.not_false, Bool.true_and]
  cases hen : r.enabled with
  | false =>
    simp only [Bool.false_eq_true, if_false, Bool.not_false, if_true]
    unfold observe
    rw [lookup'_absent _ _ hnew]
    rfl
  | true =>
    simp only [if_true, Bool.not_true, Bool.false_eq_true, if_false]
    cases hp : process env st.present r with
    | stored resp =>
      simp only [applyProc, finalOfProc]
      unfold observe
      simp only
      rw [lookup'_append_new _ _ _ hnew]
      simp only [hhc, Bool.false_eq_true, if_false, observeNew]
      exact handle_eq st r resp
    | skipped pre =>
      simp only [applyProc, finalOfProc]
      unfold observe
      simp only
      rw [lookup'_absent _ _ hnew]
      by_cases he : (skipExcs env pre).isEmpty = true
      · have : skipExcs env pre = [] := by simpa using he
        simp [this, applyFinal]
      · simp [he, applyFinal]
    | raised e =>
      simp only [applyProc, finalOfProc]
      unfold observe
      simp only
      rw [lookup'_absent _ _ hnew]
      simp [applyFinal]

theorem applyFinal_present (st : St) (r : Rule) (f : Final) :
    (applyFinal st r f).present = if f.stored then st.present ++ [r.id] else st.present := by
  cases f <;> simp [applyFinal, St.present, Final.stored]

/-- the rules' identities are distinct and none is in the broker beforehand -/
def Fresh (present : List Comp) (rules : List Rule) : Prop :=
  (rules.map (·.id)).Nodup ∧ ∀ r ∈ rules, r.id ∉ present

def applyAll (st : St) (fs : List (Rule × Final)) : St := fs.foldl (fun s rf => applyFinal s rf.1 rf.2) st

theorem applyFinal_handled (st : St) (r : Rule) (f : Final) :
    (applyFinal st r f).handled = if f.stored then st.handled ++ [r.id] else st.handled := by
  cases f <;> simp [applyFinal, Final.stored]

theorem foldl_step_eq (env : Env) (rules : List Rule) (st : St) (h : Fresh st.present rules)
    (hsub : ∀ c ∈ st.handled, c ∈ st.present) :
    rules.foldl (step env) st = applyAll st (finals env st.present rules) := by
  induction rules generalizing st with
  | nil => rfl
  | cons r rs ih =>
    obtain ⟨hnd, hfresh⟩ := h
    have hr : r.id ∉ st.present := hfresh r (by simp)
    have hrh : r.id ∉ st.handled := fun hc => hr (hsub _ hc)
    simp only [List.foldl_cons, finals, applyAll]
    rw [step_eq env st r hr hrh]
    have hsub' : ∀ c ∈ (applyFinal st r (classify env st.present r)).handled,
        c ∈ (applyFinal st r (classify env st.present r)).present := by
      intro c hc
      rw [applyFinal_handled] at hc
      rw [applyFinal_present]
      split at hc
      · rename_i hs
        simp only [hs, if_true]
        rcases List.mem_append.mp hc with h1 | h1
        · exact List.mem_append.mpr (Or.inl (hsub _ h1))
        · exact List.mem_append.mpr (Or.inr h1)
      · rename_i hs
        simp only [hs, if_false]
        exact hsub _ hc
    have hp := applyFinal_present st r (classify env st.present r)
    have hfr : Fresh (applyFinal st r (classify env st.present r)).present rs := by
      simp only [List.map_cons, List.nodup_cons] at hnd
      refine ⟨hnd.2, ?_⟩
      intro r' hr'
      rw [hp]
      have h1 : r'.id ∉ st.present := hfresh r' (by simp [hr'])
      have h2 : r'.id ≠ r.id := by
        intro heq; apply hnd.1; rw [← heq]; exact List.mem_map_of_mem hr'
      split <;> simp [h1, h2]
    rw [ih _ hfr hsub', hp]
    rfl

theorem finals_map_fst (env : Env) (present : List Comp) (rules : List Rule) :
    (finals env present rules).map (·.1) = rules := by
  induction rules generalizing present with
  | nil => rfl
  | cons r rs ih => simp [finals, ih]

/-! ### what the fold leaves in each part of the state -/

def entryOf (t : Str) : Rule × Final → Option Entry
  | (r, .entry t' resp) => if t' = t then some (mkEntry r t' resp) else none
  | _ => none

def skipOf : Rule × Final → Option (Comp × Resp)
  | (r, .skipEntry resp) => some (r.id, resp)
  | _ => none

def excsOf : Rule × Final → List (Comp × Exc)
  | (r, .exception es) => es.map (r.id, ·)
  | _ => []

def mdStep (md : Dict) : Rule × Final → Dict
  | (_, .metadata resp) => mergeMd md resp.fields
  | _ => md

def mdkStep (d : Dict) : Rule × Final → Dict
  | (_, .metadataKey _ k v) => setKey k v d
  | _ => d

theorem applyAll_results (t : Str) (fs : List (Rule × Final)) (st : St) :
    getList t (applyAll st fs).results = getList t st.results ++ fs.filterMap (entryOf t) := by
  induction fs generalizing st with
  | nil => simp [applyAll]
  | cons rf rest ih =>
    obtain ⟨r, f⟩ := rf
    simp only [applyAll, List.foldl_cons] at ih ⊢
    rw [ih]
    cases f with
    | entry t' resp =>
      simp only [applyFinal, getList_appendAt, List.filterMap_cons, entryOf]
      by_cases h : t = t'
      · subst h; simp
      · simp [h, Ne.symm h]
    | _ => simp [applyFinal, entryOf, List.filterMap_cons]

theorem applyAll_skips (fs : List (Rule × Final)) (st : St) :
    (applyAll st fs).skips = st.skips ++ fs.filterMap skipOf := by
  induction fs generalizing st with
  | nil => simp [applyAll]
  | cons rf rest ih =>
    obtain ⟨r, f⟩ := rf
    simp only [applyAll, List.foldl_cons] at ih ⊢
    rw [ih]
    cases f <;> simp [applyFinal, skipOf, List.filterMap_cons]

theorem applyAll_excs (fs : List (Rule × Final)) (st : St) :
    (applyAll st fs).excs = st.excs ++ fs.flatMap excsOf := by
  induction fs generalizing st with
  | nil => simp [applyAll]
  | cons rf rest ih =>
    obtain ⟨r, f⟩ := rf
    simp only [applyAll, List.foldl_cons] at ih ⊢
    rw [ih]
    cases f <;> simp [applyFinal, excsOf, List.flatMap_cons]

theorem applyAll_metadata (fs : List (Rule × Final)) (st : St) :
    (applyAll st fs).metadata = fs.foldl mdStep st.metadata := by
  induction fs generalizing st with
  | nil => simp [applyAll]
  | cons rf rest ih =>
    obtain ⟨r, f⟩ := rf
    simp only [applyAll, List.foldl_cons] at ih ⊢
    rw [ih]
    cases f <;> simp [applyFinal, mdStep]

theorem applyAll_mdKeys (fs : List (Rule × Final)) (st : St) :
    (applyAll st fs).mdKeys = fs.foldl mdkStep st.mdKeys := by
  induction fs generalizing st with
  | nil => simp [applyAll]
  | cons rf rest ih =>
    obtain ⟨r, f⟩ := rf
    simp only [applyAll, List.foldl_cons] at ih ⊢
    rw [ih]
    cases f <;> simp [applyFinal, mdkStep]

/-! ### additive counting -/

/-- how often a rule is listed, per place -/
structure Tally where
  results : Nat
  skips : Nat
  metadata : Nat
  mdKeys : Nat
  excs : List Exc
deriving DecidableEq, Repr

def Tally.zero : Tally := ⟨0, 0, 0, 0, []⟩

def Tally.add (a b : Tally) : Tally :=
  ⟨a.results + b.results, a.skips + b.skips, a.metadata + b.metadata, a.mdKeys + b.mdKeys, a.excs ++ b.excs⟩

/-- what is listed for component `id` in a state -/
def tally (st : St) (id : Comp) : Tally :=
  { results := countAll (fun e => e.src == id) st.results
    skips := st.skips.countP (fun p => p.1 == id)
    metadata := st.mdFrom.countP (· == id)
    mdKeys := st.mdkFrom.countP (· == id)
    excs := (st.excs.filter (fun p => p.1 == id)).map (·.2) }

/-- what an outcome lists -/
def Final.tally : Final → Tally
  | .entry _ _ => ⟨1, 0, 0, 0, []⟩
  | .skipEntry _ => ⟨0, 1, 0, 0, []⟩
  | .metadata _ => ⟨0, 0, 1, 0, []⟩
  | .metadataKey _ _ _ => ⟨0, 0, 0, 1, []⟩
  | .unlisted _ => Tally.zero
  | .exception es => ⟨0, 0, 0, 0, es⟩
  | .nothing => Tally.zero

theorem Tally.add_zero (a : Tally) : a.add Tally.zero = a := by
  cases a; simp [Tally.add, Tally.zero]

theorem filter_map_self (id : Comp) (es : List Exc) :
    (List.filter (fun p : Comp × Exc => p.1 == id) (es.map (id, ·))).map (·.2) = es := by
  induction es with
  | nil => rfl
  | cons e rest ih => simp [ih]

theorem filter_map_other (id id' : Comp) (es : List Exc) (h : id' ≠ id) :
    List.filter (fun p : Comp × Exc => p.1 == id) (es.map (id', ·)) = [] := by
  induction es with
  | nil => rfl
  | cons e rest ih => simp [ih, h]

theorem tally_applyFinal (st : St) (r : Rule) (f : Final) (id : Comp) :
    tally (applyFinal st r f) id = (tally st id).add (if r.id = id then f.tally else Tally.zero) := by
  by_cases h : r.id = id
  · subst h
    cases f <;>
      simp [applyFinal, tally, Tally.add, Final.tally, Tally.zero, countAll_appendAt, mkEntry, List.countP_append,
        filter_map_self]
  · have hb : (r.id == id) = false := by simpa using h
    cases f <;>
      simp [applyFinal, tally, Tally.add, Tally.zero, h, hb, countAll_appendAt, mkEntry, List.countP_append,
        filter_map_other _ _ _ h]

theorem tally_applyAll_absent (fs : List (Rule × Final)) (st : St) (id : Comp) (h : id ∉ fs.map (·.1.id)) :
    tally (applyAll st fs) id = tally st id := by
  induction fs generalizing st with
  | nil => rfl
  | cons rf rest ih =>
    simp only [List.map_cons, List.mem_cons, not_or] at h
    simp only [applyAll, List.foldl_cons] at ih ⊢
    rw [ih _ h.2, tally_applyFinal]
    simp [Ne.symm h.1, Tally.add_zero]

theorem tally_applyAll (fs : List (Rule × Final)) (st : St) (r : Rule) (f : Final)
    (hnd : (fs.map (·.1.id)).Nodup) (hmem : (r, f) ∈ fs) :
    tally (applyAll st fs) r.id = (tally st r.id).add f.tally := by
  induction fs generalizing st with
  | nil => cases hmem
  | cons rf rest ih =>
    simp only [List.map_cons, List.nodup_cons] at hnd
    simp only [applyAll, List.foldl_cons] at ih ⊢
    rcases List.mem_cons.mp hmem with heq | hin
    · subst heq
      have h0 := tally_applyAll_absent rest (applyFinal st r f) r.id hnd.1
      simp only [applyAll] at h0
      rw [h0, tally_applyFinal]
      simp
    · have hne : rf.1.id ≠ r.id := by
        intro heq; apply hnd.1; rw [heq]
        exact List.mem_map_of_mem (f := fun x : Rule × Final => x.1.id) hin
      rw [ih _ hnd.2 hin, tally_applyFinal]
      simp [hne, Tally.add_zero]

theorem tally_init (seed : List Comp) (id : Comp) : tally (St.init seed) id = Tally.zero := by
  simp [tally, St.init, Tally.zero, countAll]

theorem Tally.zero_add (a : Tally) : Tally.zero.add a = a := by
  cases a; simp [Tally.add, Tally.zero]

/-! ### classification of one rule, whole runs, the formatter filter (helpers of Props/C12) -/

/-- what the theorems below assume about the two infrastructure classes -/
structure WFCfg (cfg : Cfg) : Prop where
  skip_type : cfg.skipCls.rtype = some sSkip
  skip_nokey : cfg.skipCls.keyName = none
  none_type : cfg.noneCls.rtype = some sNoneT
  none_key : ∃ kn, cfg.noneCls.keyName = some kn ∧ kn ≠ sType
  none_key_ok : cfg.noneKey ≠ []

theorem valid_iff (c : RClass) (key : PyVal) (kwargs : Dict) :
    Valid c key kwargs ↔
      ¬ (c.rtype = none ∨ hasKey sType kwargs = true ∨
          ∃ kn, c.keyName = some kn ∧ (hasKey kn kwargs = true ∨ ¬ ∃ s, key = .str s ∧ s ≠ [])) := by
  constructor
  · rintro ⟨h1, h2, h3⟩ h
    rcases h with h | h | ⟨kn, hk, h⟩
    · simp [h] at h1
    · simp [h2] at h
    · obtain ⟨a, b, d⟩ := h3 kn hk
      rcases h with h | h
      · simp [a] at h
      · exact h ((key_ok_iff key).mp ⟨b, d⟩)
  · intro h
    simp only [not_or, not_exists, not_and] at h
    obtain ⟨h1, h2, h3⟩ := h
    refine ⟨?_, by simpa using h2, ?_⟩
    · cases hr : c.rtype with
      | none => exact absurd hr h1
      | some t => rfl
    · intro kn hk
      have := h3 kn hk
      refine ⟨by simpa using this.1, ?_⟩
      have hk' : ∃ s, key = .str s ∧ s ≠ [] := by
        by_cases hh : ∃ s, key = .str s ∧ s ≠ []
        · exact hh
        · exact absurd hh (by simpa using this.2)
      exact (key_ok_iff key).mpr hk'

theorem observeKind_ne_nothing (resp : Resp) : observeKind resp ≠ .nothing := by
  unfold observeKind
  repeat' split
  all_goals simp

theorem observeKind_ne_exception (resp : Resp) (es : List Exc) : observeKind resp ≠ .exception es := by
  unfold observeKind
  repeat' split
  all_goals simp

theorem ofMk_ne_skipped (x : Except VErr Resp) (pre : List Exc) : ofMk x ≠ .skipped pre := by
  cases x <;> simp [ofMk]

theorem invoke_skipped_nil_iff (env : Env) (r : Rule) : invoke env r = .skipped [] ↔ r.act = .raise .skip := by
  unfold invoke
  cases ha : r.act with
  | ret c key kwargs => simp [ofMk_ne_skipped]
  | retNone => simp [ofMk_ne_skipped]
  | retOther b => simp
  | raise e => cases e <;> simp

theorem process_ignored (env : Env) (present : List Comp) (r : Rule) (h : ignored present r = true) :
    process env present r = .skipped [] := by
  simp [process, h]

theorem process_missing (env : Env) (present : List Comp) (r : Rule) (m : Missing) (h : ignored present r = false)
    (hm : missingDeps present r = some m) :
    process env present r = ofMk (mkResp env.limit env.cfg.skipCls .none (skipKwargs env r m)) := by
  simp [process, h, hm]

theorem process_invoked' (env : Env) (present : List Comp) (r : Rule) (h : ignored present r = false)
    (hm : missingDeps present r = none) : process env present r = invoke env r := by
  simp [process, h, hm]

theorem process_skipped_nil_iff (env : Env) (present : List Comp) (r : Rule) :
    process env present r = .skipped [] ↔
      (ignored present r = true ∨ (missingDeps present r = none ∧ r.act = .raise .skip)) := by
  cases hi : ignored present r with
  | true => simp [process_ignored env present r hi]
  | false =>
    cases hm : missingDeps present r with
    | some m => simp [process_missing env present r m hi hm, ofMk_ne_skipped]
    | none => simp [process_invoked' env present r hi hm, invoke_skipped_nil_iff]

theorem classify_enabled (env : Env) (present : List Comp) (r : Rule) (h : r.enabled = true) :
    classify env present r = finalOfProc env (process env present r) := by
  simp [classify, h]

/-- the body ran: the rule is enabled, not ignored and has what it requires -/
def Invoked (present : List Comp) (r : Rule) : Prop :=
  r.enabled = true ∧ ignored present r = false ∧ missingDeps present r = none

theorem classify_invoked (env : Env) (present : List Comp) (r : Rule) (h : Invoked present r) :
    classify env present r = finalOfProc env (invoke env r) := by
  rw [classify_enabled env present r h.1, process_invoked' env present r h.2.1 h.2.2]

theorem observeKind_built_typed (limit : Nat) (c : RClass) (t : Str) (key : PyVal) (kwargs : Dict)
    (hty : hasKey sType kwargs = false) (h1 : t ≠ sSkip) (h2 : t ≠ sMetadata) (h3 : t ≠ sMetadataKey) :
    observeKind (built limit c t key kwargs) = .entry t (built limit c t key kwargs) := by
  unfold observeKind
  rw [built_type limit c t key kwargs hty]
  simp [h1, h2, h3]

theorem none_valid (cfg : Cfg) (h : WFCfg cfg) : Valid cfg.noneCls (.str cfg.noneKey) [] := by
  refine ⟨by simp [h.none_type], by simp [hasKey], ?_⟩
  intro kn _
  refine ⟨by simp [hasKey], ?_, rfl⟩
  have := h.none_key_ok
  cases hk : cfg.noneKey with
  | nil => exact absurd hk this
  | cons a b => simp [PyVal.truthy]

theorem skipKwargs_no_type (env : Env) (r : Rule) (m : Missing) : hasKey sType (skipKwargs env r m) = false := by
  simp only [hasKey, skipKwargs, List.any_cons, List.any_nil]
  decide

theorem skip_valid (env : Env) (r : Rule) (m : Missing) (h : WFCfg env.cfg) :
    Valid env.cfg.skipCls .none (skipKwargs env r m) := by
  refine ⟨by simp [h.skip_type], skipKwargs_no_type env r m, ?_⟩
  intro kn hk
  rw [h.skip_nokey] at hk
  cases hk

theorem observeKind_built_skip (limit : Nat) (c : RClass) (key : PyVal) (kwargs : Dict)
    (hty : hasKey sType kwargs = false) :
    observeKind (built limit c sSkip key kwargs) = .skipEntry (built limit c sSkip key kwargs) := by
  unfold observeKind
  rw [built_type limit c sSkip key kwargs hty]
  simp

theorem observeKind_built_not_skip (limit : Nat) (c : RClass) (t : Str) (key : PyVal) (kwargs : Dict)
    (hty : hasKey sType kwargs = false) (hne : t ≠ sSkip) (resp : Resp) :
    observeKind (built limit c t key kwargs) ≠ .skipEntry resp := by
  unfold observeKind
  rw [built_type limit c t key kwargs hty]
  simp only [hne, if_false]
  repeat' split
  all_goals simp

theorem invoke_not_skipEntry (env : Env) (r : Rule) (hc : WFCfg env.cfg)
    (hact : ∀ c key kwargs, r.act = .ret c key kwargs → c.rtype ≠ some sSkip) (resp : Resp) :
    finalOfProc env (invoke env r) ≠ .skipEntry resp := by
  unfold invoke
  cases ha : r.act with
  | ret c key kwargs =>
    simp only
    cases ht : c.rtype with
    | none => simp [mkResp, ht, ofMk, finalOfProc]
    | some t =>
      by_cases hv : Valid c key kwargs
      · rw [mkResp_of_valid env.limit c t key kwargs ht hv]
        simp only [ofMk, finalOfProc]
        have hne : t ≠ sSkip := by
          intro heq; exact hact c key kwargs ha (by rw [ht, heq])
        exact observeKind_built_not_skip _ _ _ _ _ hv.2.1 hne resp
      · obtain ⟨e, he⟩ := mkResp_error_of_invalid env.limit c key kwargs hv
        simp [he, ofMk, finalOfProc]
  | retNone =>
    simp only
    rw [mkResp_of_valid env.limit env.cfg.noneCls sNoneT _ [] hc.none_type (none_valid env.cfg hc)]
    simp only [ofMk, finalOfProc]
    exact observeKind_built_not_skip _ _ _ _ _ (by simp [hasKey]) (by decide) resp
  | retOther b => simp [finalOfProc]
  | raise e => cases e <;> simp [finalOfProc] <;> split <;> simp

theorem observeKind_built_mdk (limit : Nat) (c : RClass) (kn k : Str) (v : PyVal)
    (ht : c.rtype = some sMetadataKey) (hex : c.exempt = true) (hk : c.keyName = some kn)
    (hne : kn ≠ sType) (hnv : kn ≠ sValue) :
    observeKind (built limit c sMetadataKey (.str k) [(sValue, v)]) =
      .metadataKey (built limit c sMetadataKey (.str k) [(sValue, v)]) k v := by
  have e1 : sValue ≠ sType := by decide
  have hty : hasKey sType [(sValue, v)] = false := by simp [hasKey, e1]
  have hkn : hasKey kn [(sValue, v)] = false := by simp [hasKey, Ne.symm hnv]
  have hval : lookup sValue (built limit c sMetadataKey (.str k) [(sValue, v)]).fields = some v := by
    simp only [built, hex, Bool.not_true, Bool.false_and, Bool.false_eq_true, if_false, List.cons_append, lookup,
      if_true]
  unfold observeKind
  rw [built_type _ _ _ _ _ hty, built_getKey _ _ _ _ _ kn hk hne hkn, hval]
  simp [mdk_ne_skip, mdk_ne_md]

theorem init_present (seed : List Comp) : (St.init seed).present = seed := by
  induction seed with
  | nil => rfl
  | cons a rest ih => simp only [St.init, St.present, List.map_cons, List.map_map] at ih ⊢; rw [ih]

/-- `run` is "apply each rule's outcome, in order" -/
theorem run_eq (env : Env) (seed : List Comp) (rules : List Rule) (h : Fresh seed rules) :
    run env seed rules = applyAll (St.init seed) (finals env seed rules) := by
  unfold run
  have := foldl_step_eq env rules (St.init seed) (by rw [init_present]; exact h) (by intro c hc; cases hc)
  rw [init_present] at this
  exact this

theorem finals_nodup (env : Env) (seed : List Comp) (rules : List Rule) (h : Fresh seed rules) :
    ((finals env seed rules).map (·.1.id)).Nodup := by
  have h3 : ((finals env seed rules).map (·.1)).map (·.id) = rules.map (·.id) := by rw [finals_map_fst]
  rw [List.map_map] at h3
  have h2 : (finals env seed rules).map (·.1.id) = rules.map (·.id) := h3
  rw [h2]; exact h.1

theorem finals_mem_classify (env : Env) (present : List Comp) (rules : List Rule) (r : Rule) (f : Final)
    (h : (r, f) ∈ finals env present rules) : ∃ p, f = classify env p r := by
  induction rules generalizing present with
  | nil => cases h
  | cons r' rs ih =>
    simp only [finals, List.mem_cons] at h
    rcases h with h | h
    · cases h; exact ⟨present, rfl⟩
    · exact ih _ h

def dropMd : Top → Top
  | .system _ => .system none
  | v => v

theorem lookup_popMetadata (h : Str) (r : Report) :
    lookup h (popMetadata r) = if h = sSystem then (lookup h r).map dropMd else lookup h r := by
  induction r with
  | nil => simp [popMetadata, lookup]
  | cons kv rest ih =>
    obtain ⟨k, v⟩ := kv
    by_cases hk : k = sSystem
    · subst hk
      by_cases hh : h = sSystem
      · subst hh; cases v <;> simp [popMetadata, lookup, dropMd]
      · simp [popMetadata, lookup, hh, Ne.symm hh]
    · by_cases hh : k = h
      · subst hh; simp [popMetadata, lookup, hk]
      · simp only [popMetadata, hk, if_false, lookup, hh]
        exact ih

theorem lookup_condErase (b : Bool) (k h : Str) (d : Report) :
    lookup h (condErase b k d) = if b = true ∧ h = k then none else lookup h d := by
  cases b <;> simp [condErase, lookup_erase]

theorem lookup_condPop (b : Bool) (h : Str) (d : Report) :
    lookup h (condPop b d) = if b = true ∧ h = sSystem then (lookup h d).map dropMd else lookup h d := by
  cases b <;> simp [condPop, lookup_popMetadata]

/-! ### get_response -/

abbrev keysOf {α : Type} (d : List (Str × α)) : List Str := d.map (·.1)

theorem keysOf_appendAt {α : Type} (k : Str) (e : α) (d : List (Str × List α)) :
    keysOf (appendAt k e d) = if k ∈ keysOf d then keysOf d else keysOf d ++ [k] := by
  induction d with
  | nil => simp [appendAt]
  | cons kv rest ih =>
    obtain ⟨k', es⟩ := kv
    by_cases h : k' = k
    · subst h; simp [appendAt]
    · have h' : ¬ k = k' := fun e => h e.symm
      simp only [appendAt, h, if_false, List.map_cons, List.mem_cons, h', false_or, ih]
      split <;> simp_all

theorem nodup_appendAt {α : Type} (k : Str) (e : α) (d : List (Str × List α)) (h : (keysOf d).Nodup) :
    (keysOf (appendAt k e d)).Nodup := by
  rw [keysOf_appendAt]
  split
  · exact h
  · rename_i hk
    exact List.nodup_append.mpr ⟨h, by simp, by intro a ha b hb; simp at hb; subst hb; intro e; exact hk (e ▸ ha)⟩

theorem applyAll_results_nodup (fs : List (Rule × Final)) (st : St) (h : (keysOf st.results).Nodup) :
    (keysOf (applyAll st fs).results).Nodup := by
  induction fs generalizing st with
  | nil => exact h
  | cons rf rest ih =>
    obtain ⟨r, f⟩ := rf
    simp only [applyAll, List.foldl_cons] at ih ⊢
    apply ih
    cases f <;> simp only [applyFinal] <;> first | exact h | exact nodup_appendAt _ _ _ h

/-- the loop of get_response over `results` -/
def addTyped (r : Report) (kv : Str × List Entry) : Report :=
  if kv.1 = sRule ∨ kv.1 = sFingerprint then r else setKey kv.1 (.entries kv.2) r

theorem lookup_foldl_addTyped (h : Str) (rs : List (Str × List Entry)) (r1 : Report) (hnd : (keysOf rs).Nodup) :
    lookup h (rs.foldl addTyped r1) =
      if h ∈ keysOf rs ∧ ¬ (h = sRule ∨ h = sFingerprint) then some (.entries (getList h rs)) else lookup h r1 := by
  induction rs generalizing r1 with
  | nil => simp
  | cons kv rest ih =>
    obtain ⟨k, es⟩ := kv
    simp only [List.map_cons, List.nodup_cons] at hnd
    simp only [List.foldl_cons]
    rw [ih _ hnd.2]
    by_cases hk : k = h
    · subst hk
      have hnot : ¬ k ∈ keysOf rest := hnd.1
      by_cases hs : k = sRule ∨ k = sFingerprint
      · simp [hnot, hs, addTyped]
      · simp [hnd.1, hs, addTyped, lookup_setKey_self, getList, lookup]
    · have hk' : ¬ h = k := fun e => hk e.symm
      have hm : (h ∈ List.map (fun x : Str × List Entry => x.fst) ((k, es) :: rest)) ↔
          (h ∈ List.map (fun x : Str × List Entry => x.fst) rest) := by simp [hk']
      by_cases hs : k = sRule ∨ k = sFingerprint
      · simp only [addTyped, hs, if_true, getList, lookup, hk, if_false, keysOf, hm]
      · simp only [addTyped, hs, if_false, getList, lookup, hk, keysOf, hm, lookup_setKey_ne _ _ _ _ hk']


theorem lookup_getResponse (st : St) (h : Str) (hnd : (keysOf st.results).Nodup) :
    lookup h (getResponse st) =
      if h = sAnalysis then some .analysis
      else if h ∈ keysOf st.results ∧ ¬ (h = sRule ∨ h = sFingerprint) then some (.entries (getList h st.results))
      else if h = sSkips then some (.skips (st.skips.map (·.2)))
      else if h = sFingerprints then some (.entries (getList sFingerprint st.results))
      else if h = sReports then some (.entries (getList sRule st.results))
      else if h = sSystem then some (.system (some st.metadata))
      else lookup h (st.mdKeys.map (fun kv => (kv.1, Top.val kv.2))) := by
  unfold getResponse
  simp only [lookup_setKey]
  have : ∀ r1, (st.results.foldl (fun r kv => if kv.1 = sRule ∨ kv.1 = sFingerprint then r else setKey kv.1 (.entries kv.2) r) r1)
      = st.results.foldl addTyped r1 := fun _ => rfl
  rw [this, lookup_foldl_addTyped _ _ _ hnd]
  simp only [lookup_setKey]


/-! ### histories of one evaluator object -/

theorem addObserver_of_mem (o : ObsId) (l : List ObsId) (h : o ∈ l) : addObserver o l = l := by
  have hc : l.contains o = true := by simpa using h
  simp only [addObserver, hc, if_true]

theorem addObserver_of_not_mem (o : ObsId) (l : List ObsId) (h : o ∉ l) : addObserver o l = l ++ [o] := by
  have hc : l.contains o = false := by simpa using h
  simp only [addObserver, hc, Bool.false_eq_true, if_false]

theorem addObserver_mem (o : ObsId) (l : List ObsId) : o ∈ addObserver o l := by
  by_cases h : o ∈ l
  · rw [addObserver_of_mem o l h]; exact h
  · rw [addObserver_of_not_mem o l h]; simp

theorem addObserver_idem (o : ObsId) (l : List ObsId) : addObserver o (addObserver o l) = addObserver o l :=
  addObserver_of_mem o _ (addObserver_mem o l)

theorem addObserver_mem_of_mem (o o' : ObsId) (l : List ObsId) (h : o' ∈ l) : o' ∈ addObserver o l := by
  by_cases ho : o ∈ l
  · rw [addObserver_of_mem o l ho]; exact h
  · rw [addObserver_of_not_mem o l ho]; simp [h]

theorem addObserver_nodup (o : ObsId) (l : List ObsId) (h : l.Nodup) : (addObserver o l).Nodup := by
  by_cases hn : o ∈ l
  · rw [addObserver_of_mem o l hn]; exact h
  · rw [addObserver_of_not_mem o l hn]
    exact List.nodup_append.mpr ⟨h, by simp, by intro a ha b hb; simp at hb; subst hb; intro e; exact hn (e ▸ ha)⟩

theorem count_of_nodup_mem (l : List ObsId) (o : ObsId) (hnd : l.Nodup) (hm : o ∈ l) : l.count o = 1 := by
  induction l with
  | nil => cases hm
  | cons a rest ih =>
    simp only [List.nodup_cons] at hnd
    by_cases ha : a = o
    · subst ha
      have : List.count a rest = 0 := List.count_eq_zero.mpr hnd.1
      simp [List.count_cons, this]
    · have hm' : o ∈ rest := by
        rcases List.mem_cons.mp hm with h | h
        · exact absurd h.symm ha
        · exact h
      simp [List.count_cons, ha, ih hnd.2 hm']

theorem addObserver_count (o : ObsId) (l : List ObsId) (h : l.Nodup) : (addObserver o l).count o = 1 :=
  count_of_nodup_mem _ _ (addObserver_nodup o l h) (addObserver_mem o l)

theorem dispatch_absent (l : List ObsId) (st : St) (r : Rule) (h : evalObs ∉ l) : dispatch l st r = st := by
  unfold dispatch
  induction l generalizing st with
  | nil => rfl
  | cons o rest ih =>
    simp only [List.mem_cons, not_or] at h
    simp only [List.foldl_cons, Ne.symm h.1, if_false]
    exact ih st h.2

theorem dispatch_once (l : List ObsId) (st : St) (r : Rule) (hnd : l.Nodup) (hm : evalObs ∈ l) :
    dispatch l st r = observe st r := by
  induction l generalizing st with
  | nil => cases hm
  | cons o rest ih =>
    simp only [List.nodup_cons] at hnd
    by_cases ho : o = evalObs
    · subst ho
      have := dispatch_absent rest (observe st r) r hnd.1
      unfold dispatch at this ⊢
      simp only [List.foldl_cons, if_true]
      exact this
    · have hm' : evalObs ∈ rest := by
        rcases List.mem_cons.mp hm with h | h
        · exact absurd h.symm ho
        · exact h
      have := ih st hnd.2 hm'
      unfold dispatch at this ⊢
      simp only [List.foldl_cons, ho, if_false]
      exact this

/-- what one fired element does to an evaluator whose observer is registered (once) -/
def stepG (env : Env) (st : St) (f : Fired) : St := observe (engineStep env f.2 st f.1) f.1

theorem step_eq_stepG (env : Env) (st : St) (r : Rule) : step env st r = stepG env st (r, true) := by
  simp [step, stepG, engineStep]

/-- the run orders of a history, concatenated -/
def allFired : List Op → List Fired
  | [] => []
  | .register _ :: ops => allFired ops
  | .run fired :: ops => fired ++ allFired ops

theorem foldl_stepH (env : Env) (fired : List Fired) (h : HSt) (hnd : h.observers.Nodup) (hm : evalObs ∈ h.observers) :
    (fired.foldl (stepH env) h).st = fired.foldl (stepG env) h.st ∧
    (fired.foldl (stepH env) h).observers = h.observers := by
  induction fired generalizing h with
  | nil => exact ⟨rfl, rfl⟩
  | cons f rest ih =>
    simp only [List.foldl_cons]
    have h1 : (stepH env h f).observers = h.observers := rfl
    have h2 : (stepH env h f).st = stepG env h.st f := by
      simp only [stepH, stepG]
      exact dispatch_once _ _ _ hnd hm
    obtain ⟨a, b⟩ := ih (stepH env h f) (by rw [h1]; exact hnd) (by rw [h1]; exact hm)
    rw [a, b, h1, h2]
    exact ⟨rfl, rfl⟩

theorem foldl_applyOp (env : Env) (ops : List Op) (h : HSt) (hnd : h.observers.Nodup) (hm : evalObs ∈ h.observers) :
    (ops.foldl (applyOp env) h).st = (allFired ops).foldl (stepG env) h.st := by
  induction ops generalizing h with
  | nil => rfl
  | cons op rest ih =>
    simp only [List.foldl_cons]
    cases op with
    | register o =>
      simp only [applyOp, allFired]
      exact ih _ (addObserver_nodup o _ hnd) (addObserver_mem_of_mem o _ _ hm)
    | run fired =>
      simp only [applyOp, allFired, List.foldl_append]
      obtain ⟨a, b⟩ := foldl_stepH env fired h hnd hm
      rw [ih _ (by rw [b]; exact hnd) (by rw [b]; exact hm), a]

theorem foldl_stepG_all_in_graph (env : Env) (rules : List Rule) (st : St) :
    (rules.map (·, true)).foldl (stepG env) st = rules.foldl (step env) st := by
  induction rules generalizing st with
  | nil => rfl
  | cons r rest ih => simp only [List.map_cons, List.foldl_cons, ← step_eq_stepG, ih]


/-! ### nothing is listed twice, over any history -/

/-- how often component `id` is listed: entries under all headings, skip entries, metadata merges, metadata keys -/
def listed (st : St) (id : Comp) : Nat :=
  (tally st id).results + (tally st id).skips + (tally st id).metadata + (tally st id).mdKeys

theorem listed_congr (st st' : St) (id : Comp) (h1 : st.results = st'.results) (h2 : st.skips = st'.skips)
    (h3 : st.mdFrom = st'.mdFrom) (h4 : st.mdkFrom = st'.mdkFrom) : listed st id = listed st' id := by
  simp [listed, tally, h1, h2, h3, h4]

theorem handle_handled (st : St) (r : Rule) (resp : Resp) : (handle st r resp).handled = st.handled := by
  unfold handle
  repeat' split
  all_goals rfl

theorem listed_handle_self (st : St) (r : Rule) (resp : Resp) :
    listed (handle st r resp) r.id ≤ listed st r.id + 1 := by
  unfold handle
  repeat' split
  all_goals
    simp [listed, tally, countAll_appendAt, mkEntry, List.countP_append]
    try omega

theorem listed_handle_other (st : St) (r : Rule) (resp : Resp) (id : Comp) (h : r.id ≠ id) :
    listed (handle st r resp) id = listed st id := by
  have hb : (r.id == id) = false := by simpa using h
  unfold handle
  repeat' split
  all_goals simp [listed, tally, countAll_appendAt, mkEntry, List.countP_append, h, hb]

/-- every component is listed at most once, and not at all unless the observer has dealt with it -/
def ListInv (st : St) : Prop := ∀ id, listed st id ≤ 1 ∧ (id ∉ st.handled → listed st id = 0)

theorem listInv_congr (st st' : St) (h1 : st.results = st'.results) (h2 : st.skips = st'.skips)
    (h3 : st.mdFrom = st'.mdFrom) (h4 : st.mdkFrom = st'.mdkFrom) (h5 : st.handled = st'.handled)
    (h : ListInv st) : ListInv st' := by
  intro id
  rw [← listed_congr st st' id h1 h2 h3 h4, ← h5]
  exact h id

theorem listInv_init (seed : List Comp) : ListInv (St.init seed) := by
  intro id
  simp [listed, tally, St.init, countAll]

theorem listInv_observe (st : St) (r : Rule) (h : ListInv st) : ListInv (observe st r) := by
  unfold observe
  split
  · rename_i v _
    by_cases hc : st.handled.contains r.id = true
    · simp only [hc, if_true]; exact h
    · simp only [hc, Bool.false_eq_true, if_false]
      have hn : r.id ∉ st.handled := by simpa using hc
      intro id
      obtain ⟨h1, h2⟩ := h id
      cases v with
      | none =>
        simp only [observeNew]
        have e : listed { st with handled := st.handled ++ [r.id] } id = listed st id := listed_congr _ _ _ rfl rfl rfl rfl
        rw [e]
        refine ⟨h1, ?_⟩
        intro hid
        exact h2 (fun hm => hid (List.mem_append.mpr (Or.inl hm)))
      | some resp =>
        simp only [observeNew]
        have e : listed { st with handled := st.handled ++ [r.id] } id = listed st id := listed_congr _ _ _ rfl rfl rfl rfl
        rw [handle_handled]
        by_cases hid : r.id = id
        · subst hid
          have hl := listed_handle_self { st with handled := st.handled ++ [r.id] } r resp
          rw [e] at hl
          have := h2 hn
          refine ⟨by omega, ?_⟩
          intro hx
          exact absurd (List.mem_append.mpr (Or.inr (List.mem_singleton.mpr rfl))) hx
        · have hl := listed_handle_other { st with handled := st.handled ++ [r.id] } r resp id hid
          rw [e] at hl
          refine ⟨by omega, ?_⟩
          intro hx
          have := h2 (fun hm => hx (List.mem_append.mpr (Or.inl hm)))
          omega
  · exact h

theorem listInv_engineStep (env : Env) (g : Bool) (st : St) (r : Rule) (h : ListInv st) :
    ListInv (engineStep env g st r) := by
  unfold engineStep
  split
  · cases hp : process env st.present r <;>
      simp only [applyProc] <;>
      exact listInv_congr st _ rfl rfl rfl rfl rfl h
  · exact h

theorem listInv_dispatch (l : List ObsId) (st : St) (r : Rule) (h : ListInv st) : ListInv (dispatch l st r) := by
  unfold dispatch
  induction l generalizing st with
  | nil => exact h
  | cons o rest ih =>
    simp only [List.foldl_cons]
    apply ih
    split
    · exact listInv_observe st r h
    · exact h

theorem listInv_runHistory (env : Env) (seed : List Comp) (ops : List Op) : ListInv (runHistory env seed ops).st := by
  unfold runHistory
  suffices ∀ (h : HSt), ListInv h.st → ListInv (ops.foldl (applyOp env) h).st from this _ (listInv_init seed)
  induction ops with
  | nil => intro h hh; exact hh
  | cons op rest ih =>
    intro h hh
    simp only [List.foldl_cons]
    apply ih
    cases op with
    | register o => exact hh
    | run fired =>
      simp only [applyOp]
      clear ih
      induction fired generalizing h with
      | nil => exact hh
      | cons f more ih2 =>
        simp only [List.foldl_cons]
        apply ih2
        simp only [stepH]
        exact listInv_dispatch _ _ _ (listInv_engineStep env _ _ _ hh)


/-! ### a history is a single pass over its effective run order -/

/-- the state without the exception log (a rule that raises is processed, and raises, again on every run) -/
def forget (st : St) : St := { st with excs := [] }

theorem forget_handle (st : St) (r : Rule) (resp : Resp) : forget (handle st r resp) = handle (forget st) r resp := by
  unfold handle
  repeat' split
  all_goals rfl

theorem forget_observe (st : St) (r : Rule) : forget (observe st r) = observe (forget st) r := by
  unfold observe
  show forget (match observe.lookup' r.id st.inst with
      | some v => if st.handled.contains r.id then st else observeNew st r v
      | none => st) =
    match observe.lookup' r.id st.inst with
      | some v => if st.handled.contains r.id then forget st else observeNew (forget st) r v
      | none => forget st
  split
  · rename_i v _
    split
    · rfl
    · cases v with
      | none => rfl
      | some resp => exact forget_handle _ r resp
  · rfl

theorem forget_engineStep (env : Env) (g : Bool) (st : St) (r : Rule) :
    forget (engineStep env g st r) = forget (engineStep env g (forget st) r) := by
  unfold engineStep
  show forget (if (!st.present.contains r.id && g && r.enabled) = true then applyProc env st r (process env st.present r) else st) =
    forget (if (!st.present.contains r.id && g && r.enabled) = true then applyProc env (forget st) r (process env st.present r)
      else forget st)
  split
  · cases process env st.present r <;> rfl
  · rfl

theorem forget_stepG (env : Env) (st : St) (f : Fired) : forget (stepG env st f) = forget (stepG env (forget st) f) := by
  unfold stepG
  rw [forget_observe, forget_engineStep, ← forget_observe]

theorem forget_idem (st : St) : forget (forget st) = forget st := rfl

/-! monotonicity in the broker's key set -/

def Sub (P P' : List Comp) : Prop := ∀ c ∈ P, c ∈ P'

theorem ignored_mono (P P' : List Comp) (r : Rule) (h : Sub P P') (hi : ignored P r = true) : ignored P' r = true := by
  unfold ignored at hi ⊢
  simp only [List.any_eq_true, List.contains_iff_mem] at hi ⊢
  obtain ⟨x, hx, hp⟩ := hi
  exact ⟨x, hx, h x hp⟩

theorem missingDeps_none_iff (P : List Comp) (r : Rule) :
    missingDeps P r = none ↔ (∀ a ∈ r.requires, a ∈ P) ∧ ∀ g ∈ r.atLeastOne, ∃ x, x ∈ g ∧ x ∈ P := by
  simp [missingDeps]

theorem missingDeps_none_mono (P P' : List Comp) (r : Rule) (h : Sub P P') (hm : missingDeps P r = none) :
    missingDeps P' r = none := by
  rw [missingDeps_none_iff] at hm ⊢
  refine ⟨fun a ha => h a (hm.1 a ha), fun g hg => ?_⟩
  obtain ⟨x, hx, hp⟩ := hm.2 g hg
  exact ⟨x, hx, h x hp⟩

theorem observeKind_stored (resp : Resp) : (observeKind resp).stored = true := by
  unfold observeKind
  repeat' split
  all_goals rfl

theorem process_not_stored_mono (env : Env) (hc : WFCfg env.cfg) (P P' : List Comp) (r : Rule) (h : Sub P P')
    (hn : ∀ resp, process env P r ≠ .stored resp) : ∀ resp, process env P' r ≠ .stored resp := by
  intro resp
  cases hi' : ignored P' r with
  | true => rw [process_ignored env P' r hi']; simp
  | false =>
    have hi : ignored P r = false := by
      cases hi0 : ignored P r with
      | false => rfl
      | true => rw [ignored_mono P P' r h hi0] at hi'; cases hi'
    cases hm : missingDeps P r with
    | some m =>
      exfalso
      have := hn (built env.limit env.cfg.skipCls sSkip .none (skipKwargs env r m))
      rw [process_missing env P r m hi hm,
        mkResp_of_valid env.limit env.cfg.skipCls sSkip _ _ hc.skip_type (skip_valid env r m hc)] at this
      exact this rfl
    | none =>
      have hm' := missingDeps_none_mono P P' r h hm
      rw [process_invoked' env P' r hi' hm']
      have := hn resp
      rw [process_invoked' env P r hi hm] at this
      exact this


/-- the run order that matters: an element counts the first time its rule is fired as a key of the graph -/
def effective : List Comp → List Fired → List Rule
  | _, [] => []
  | seen, (r, g) :: rest =>
    if g && !seen.contains r.id then r :: effective (r.id :: seen) rest else effective seen rest

/-- processing `q` can never put a value into the broker, now or later -/
def Unstorable (env : Env) (P : List Comp) (q : Rule) : Prop :=
  q.enabled = false ∨ ∀ P', Sub P P' → ∀ resp, process env P' q ≠ .stored resp

theorem unstorable_mono (env : Env) (P P' : List Comp) (q : Rule) (h : Sub P P') (hu : Unstorable env P q) :
    Unstorable env P' q := by
  rcases hu with hu | hu
  · exact Or.inl hu
  · exact Or.inr (fun P'' h2 => hu P'' (fun c hc => h2 c (h c hc)))

/-- an identity stands for one rule -/
def Consistent (L : List Rule) : Prop := ∀ a ∈ L, ∀ b ∈ L, a.id = b.id → a = b

structure Sim (env : Env) (seed : List Comp) (seen : List Rule) (st st' : St) : Prop where
  hf : forget st = forget st'
  ha : ∀ c ∈ st.present, c ∈ seed ∨ (c ∈ seen.map (·.id) ∧ c ∈ st.handled)
  hb : ∀ c ∈ st.handled, c ∈ st.present
  hc : ∀ q ∈ seen, q.id ∉ st.present → Unstorable env st.present q

theorem lookup'_some_of_mem (c : Comp) (l : List (Comp × Option Resp)) (h : c ∈ l.map (·.1)) :
    ∃ v, observe.lookup' c l = some v := by
  induction l with
  | nil => cases h
  | cons kv rest ih =>
    obtain ⟨c', v'⟩ := kv
    by_cases hc : c' = c
    · exact ⟨v', by simp [observe.lookup', hc]⟩
    · simp only [List.map_cons, List.mem_cons] at h
      rcases h with h | h
      · exact absurd h.symm hc
      · obtain ⟨v, hv⟩ := ih h
        exact ⟨v, by simp [observe.lookup', hc, hv]⟩

theorem engineStep_skip (env : Env) (g : Bool) (st : St) (r : Rule)
    (h : (!st.present.contains r.id && g && r.enabled) = false) : engineStep env g st r = st := by
  simp only [engineStep, h, Bool.false_eq_true, if_false]

theorem engineStep_go (env : Env) (g : Bool) (st : St) (r : Rule)
    (h : (!st.present.contains r.id && g && r.enabled) = true) :
    engineStep env g st r = applyProc env st r (process env st.present r) := by
  simp only [engineStep, h, if_true]

/-- firing a rule that does not count changes at most the exception log -/
theorem stepG_refire (env : Env) (seed : List Comp) (seen : List Rule) (st st' : St) (hs : Sim env seed seen st st')
    (r : Rule) (g : Bool) (hseed : r.id ∉ seed) (hdrop : g = false ∨ r ∈ seen) :
    ∃ x, stepG env st (r, g) = { st with excs := x } := by
  unfold stepG
  by_cases hp : r.id ∈ st.present
  · have hpc : st.present.contains r.id = true := by simpa using hp
    have he : engineStep env g st r = st := engineStep_skip env g st r (by rw [hpc]; rfl)
    simp only [he]
    obtain ⟨v, hv⟩ := lookup'_some_of_mem r.id st.inst hp
    have hh : st.handled.contains r.id = true := by
      rcases hs.ha _ hp with h | h
      · exact absurd h hseed
      · simpa using h.2
    exact ⟨st.excs, by unfold observe; simp only [hv, hh, if_true]⟩
  · have hpc : st.present.contains r.id = false := by simpa using hp
    have hl : ∀ x, observe { st with excs := x } r = { st with excs := x } := by
      intro x
      unfold observe
      have : observe.lookup' r.id st.inst = none := lookup'_absent _ _ hp
      simp only [this]
    by_cases hge : (g && r.enabled) = true
    · simp only [Bool.and_eq_true] at hge
      have hr : r ∈ seen := by
        rcases hdrop with h | h
        · rw [h] at hge; cases hge.1
        · exact h
      have hu := hs.hc r hr hp
      have hns : ∀ resp, process env st.present r ≠ .stored resp := by
        rcases hu with hu | hu
        · rw [hu] at hge; cases hge.2
        · exact hu st.present (fun c hc => hc)
      have he : engineStep env g st r = applyProc env st r (process env st.present r) :=
        engineStep_go env g st r (by rw [hpc, hge.1, hge.2]; rfl)
      simp only [he]
      cases hproc : process env st.present r with
      | stored resp => exact absurd hproc (hns resp)
      | skipped pre => exact ⟨_, hl _⟩
      | raised e => exact ⟨_, hl _⟩
    · have he : engineStep env g st r = st := by
        have : (!st.present.contains r.id && g && r.enabled) = false := by
          simp only [hpc, Bool.not_false, Bool.true_and]
          simpa using hge
        exact engineStep_skip env g st r this
      simp only [he]
      exact ⟨st.excs, hl st.excs⟩

theorem sim_refire (env : Env) (seed : List Comp) (seen : List Rule) (st st' : St) (hs : Sim env seed seen st st')
    (r : Rule) (g : Bool) (hseed : r.id ∉ seed) (hdrop : g = false ∨ r ∈ seen) :
    Sim env seed seen (stepG env st (r, g)) st' := by
  obtain ⟨x, hx⟩ := stepG_refire env seed seen st st' hs r g hseed hdrop
  rw [hx]
  exact ⟨hs.hf, hs.ha, hs.hb, hs.hc⟩

theorem classify_not_stored (env : Env) (P : List Comp) (r : Rule) (hen : r.enabled = true)
    (h : (classify env P r).stored = false) : ∀ resp, process env P r ≠ .stored resp := by
  intro resp hp
  rw [classify_enabled env P r hen, hp] at h
  simp only [finalOfProc, observeKind_stored] at h
  cases h

theorem sim_new (env : Env) (hcfg : WFCfg env.cfg) (seed : List Comp) (seen : List Rule) (st st' : St)
    (hs : Sim env seed seen st st') (r : Rule) (hseed : r.id ∉ seed) (hnew : r.id ∉ seen.map (·.id)) :
    Sim env seed (r :: seen) (stepG env st (r, true)) (step env st' r) := by
  have hp : r.id ∉ st.present := by
    intro hc
    rcases hs.ha _ hc with h | h
    · exact hseed h
    · exact hnew h.1
  have hh : r.id ∉ st.handled := fun hc => hp (hs.hb _ hc)
  have hstep : stepG env st (r, true) = applyFinal st r (classify env st.present r) := by
    rw [← step_eq_stepG]; exact step_eq env st r hp hh
  refine ⟨?_, ?_, ?_, ?_⟩
  · rw [forget_stepG, hs.hf, step_eq_stepG, ← forget_stepG]
  · rw [hstep, applyFinal_present, applyFinal_handled]
    intro c hc
    cases hst : (classify env st.present r).stored with
    | true =>
      rw [hst] at hc
      simp only [if_true] at hc ⊢
      rcases List.mem_append.mp hc with h | h
      · rcases hs.ha _ h with h1 | h1
        · exact Or.inl h1
        · exact Or.inr ⟨by simp [h1.1], List.mem_append.mpr (Or.inl h1.2)⟩
      · have : c = r.id := by simpa using h
        subst this
        exact Or.inr ⟨by simp, List.mem_append.mpr (Or.inr (by simp))⟩
    | false =>
      rw [hst] at hc
      simp only [Bool.false_eq_true, if_false] at hc ⊢
      rcases hs.ha _ hc with h1 | h1
      · exact Or.inl h1
      · exact Or.inr ⟨by simp [h1.1], h1.2⟩
  · rw [hstep, applyFinal_present, applyFinal_handled]
    intro c hc
    cases hst : (classify env st.present r).stored with
    | true =>
      rw [hst] at hc
      simp only [if_true] at hc ⊢
      rcases List.mem_append.mp hc with h | h
      · exact List.mem_append.mpr (Or.inl (hs.hb _ h))
      · exact List.mem_append.mpr (Or.inr h)
    | false =>
      rw [hst] at hc
      simp only [Bool.false_eq_true, if_false] at hc ⊢
      exact hs.hb _ hc
  · rw [hstep, applyFinal_present]
    intro q hq hqp
    have hsub : Sub st.present (if (classify env st.present r).stored = true then st.present ++ [r.id] else st.present) := by
      intro c hc
      split
      · exact List.mem_append.mpr (Or.inl hc)
      · exact hc
    rcases List.mem_cons.mp hq with hq | hq
    · subst hq
      cases hen : q.enabled with
      | false => exact Or.inl hen
      | true =>
        have hst : (classify env st.present q).stored = false := by
          cases hst : (classify env st.present q).stored with
          | false => rfl
          | true =>
            exfalso
            apply hqp
            simp [hst]
        refine Or.inr ?_
        intro P' hP'
        simp only [hst, Bool.false_eq_true, if_false] at hP'
        exact process_not_stored_mono env hcfg st.present P' q hP' (classify_not_stored env st.present q hen hst)
    · have hqp' : q.id ∉ st.present := fun hc => hqp (hsub _ hc)
      exact unstorable_mono env _ _ q hsub (hs.hc q hq hqp')

theorem mem_shift {α : Type} (a r : α) (l1 l2 : List α) (h : a ∈ (r :: l1) ++ l2) : a ∈ l1 ++ r :: l2 := by
  simp only [List.cons_append, List.mem_cons, List.mem_append] at h ⊢
  rcases h with h | h | h
  · exact Or.inr (Or.inl h)
  · exact Or.inl h
  · exact Or.inr (Or.inr h)

theorem mem_skip {α : Type} (a r : α) (l1 l2 : List α) (h : a ∈ l1 ++ l2) : a ∈ l1 ++ r :: l2 := by
  simp only [List.mem_cons, List.mem_append] at h ⊢
  rcases h with h | h
  · exact Or.inl h
  · exact Or.inr (Or.inr h)

theorem sim_fold (env : Env) (hcfg : WFCfg env.cfg) (seed : List Comp) :
    ∀ (fired : List Fired) (seen : List Rule) (st st' : St), Sim env seed seen st st' →
      Consistent (seen ++ fired.map (·.1)) → (∀ f ∈ fired, f.1.id ∉ seed) →
      forget (fired.foldl (stepG env) st) = forget ((effective (seen.map (·.id)) fired).foldl (step env) st') := by
  intro fired
  induction fired with
  | nil => intro seen st st' hs _ _; exact hs.hf
  | cons f rest ih =>
    intro seen st st' hs hcons hseed
    obtain ⟨r, g⟩ := f
    have hrs : r.id ∉ seed := hseed (r, g) (by simp)
    have hseed' : ∀ f ∈ rest, f.1.id ∉ seed := fun f hf => hseed f (List.mem_cons_of_mem _ hf)
    simp only [List.foldl_cons, effective]
    by_cases hcnd : (g && !(seen.map (·.id)).contains r.id) = true
    · simp only [hcnd, if_true, List.foldl_cons]
      simp only [Bool.and_eq_true, Bool.not_eq_true'] at hcnd
      have hg : g = true := hcnd.1
      have hnew : r.id ∉ seen.map (·.id) := by simpa using hcnd.2
      subst hg
      have hs' := sim_new env hcfg seed seen st st' hs r hrs hnew
      have hcons' : Consistent ((r :: seen) ++ rest.map (·.1)) := by
        intro a ha b hb hab
        exact hcons a (mem_shift a r _ _ ha) b (mem_shift b r _ _ hb) hab
      exact ih (r :: seen) _ _ hs' hcons' hseed'
    · simp only [hcnd, Bool.false_eq_true, if_false]
      have hdrop : g = false ∨ r ∈ seen := by
        cases g with
        | false => exact Or.inl rfl
        | true =>
          right
          simp only [Bool.true_and, Bool.not_eq_true', Bool.not_eq_false] at hcnd
          have hm : r.id ∈ seen.map (·.id) := by simpa using hcnd
          obtain ⟨q, hq, hqr⟩ := List.mem_map.mp hm
          have : q = r := hcons q (by simp [hq]) r (by simp) hqr
          rw [← this]; exact hq
      have hs' := sim_refire env seed seen st st' hs r g hrs hdrop
      have hcons' : Consistent (seen ++ rest.map (·.1)) := by
        intro a ha b hb hab
        exact hcons a (mem_skip a r _ _ ha) b (mem_skip b r _ _ hb) hab
      exact ih seen _ _ hs' hcons' hseed'

theorem sim_init (env : Env) (seed : List Comp) : Sim env seed [] (St.init seed) (St.init seed) := by
  refine ⟨rfl, ?_, ?_, ?_⟩
  · intro c hc; rw [init_present] at hc; exact Or.inl hc
  · intro c hc; cases hc
  · intro q hq; cases hq

theorem effective_fresh (seed : List Comp) (fired : List Fired) (seen : List Comp) (hseed : ∀ f ∈ fired, f.1.id ∉ seed) :
    ((effective seen fired).map (·.id)).Nodup ∧ (∀ r ∈ effective seen fired, r.id ∉ seen) ∧
    ∀ r ∈ effective seen fired, r.id ∉ seed := by
  induction fired generalizing seen with
  | nil => simp [effective]
  | cons f rest ih =>
    obtain ⟨r, g⟩ := f
    have hseed' : ∀ f ∈ rest, f.1.id ∉ seed := fun f hf => hseed f (List.mem_cons_of_mem _ hf)
    simp only [effective]
    by_cases hcnd : (g && !seen.contains r.id) = true
    · simp only [hcnd, if_true]
      obtain ⟨a, b, c⟩ := ih (r.id :: seen) hseed'
      simp only [Bool.and_eq_true, Bool.not_eq_true'] at hcnd
      have hnew : r.id ∉ seen := by simpa using hcnd.2
      refine ⟨?_, ?_, ?_⟩
      · simp only [List.map_cons, List.nodup_cons]
        refine ⟨?_, a⟩
        intro hm
        obtain ⟨q, hq, hqr⟩ := List.mem_map.mp hm
        exact b q hq (by simp [hqr])
      · intro q hq
        rcases List.mem_cons.mp hq with h | h
        · subst h; exact hnew
        · exact fun hx => b q h (List.mem_cons_of_mem _ hx)
      · intro q hq
        rcases List.mem_cons.mp hq with h | h
        · subst h; exact hseed (q, g) (by simp)
        · exact c q h
    · simp only [hcnd, Bool.false_eq_true, if_false]
      exact ih seen hseed'


/-! ### InsightsEvaluator: decoration cannot lose outcomes -/

def PreservesSt (f : Stmt) : Prop := ∀ s s', f s = .ok s' → s'.st = s.st

theorem seqStmts_st (l : List Stmt) (h : ∀ f ∈ l, PreservesSt f) (s : ISt) : (seqStmts l s).st = s.st := by
  induction l generalizing s with
  | nil => rfl
  | cons f rest ih =>
    simp only [seqStmts]
    cases hf : f s with
    | ok s' =>
      simp only
      rw [ih (fun g hg => h g (List.mem_cons_of_mem _ hg)) s', h f (by simp) s s' hf]
    | error e => rfl

theorem machineIdStmt_st (d : Deco) : PreservesSt (machineIdStmt d) := by
  intro s s' h
  unfold machineIdStmt at h
  split at h
  · cases h; rfl
  · split at h
    · cases h; rfl
    · cases h; rfl
    · cases h

theorem releaseStmt_st (d : Deco) : PreservesSt (releaseStmt d) := by
  intro s s' h
  unfold releaseStmt at h
  split at h
  · cases h; rfl
  · split at h
    · cases h; rfl
    · cases h; rfl
    · cases h

theorem branchStmt_st (d : Deco) : PreservesSt (branchStmt d) := by
  intro s s' h
  unfold branchStmt at h
  split at h
  · cases h; rfl
  · split at h
    · cases h; rfl
    · cases h; rfl
    · cases h

theorem observerI_st (d : Deco) (r : Rule) (s : ISt) : (observerI d r s).st = observe s.st r := by
  have h1 : observerI d r s =
      seqStmts [machineIdStmt d, releaseStmt d, branchStmt d] { s with st := observe s.st r } := rfl
  rw [h1, seqStmts_st [machineIdStmt d, releaseStmt d, branchStmt d]]
  intro f hf
  simp only [List.mem_cons, List.not_mem_nil, or_false] at hf
  rcases hf with rfl | rfl | rfl
  · exact machineIdStmt_st d
  · exact releaseStmt_st d
  · exact branchStmt_st d

theorem stepI_st (env : Env) (d : Deco) (s : ISt) (f : Fired) : (stepI env d s f).st = stepG env s.st f := by
  unfold stepI stepG
  rw [observerI_st]

theorem foldl_stepI_st (env : Env) (d : Deco) (fired : List Fired) (s : ISt) :
    (fired.foldl (stepI env d) s).st = fired.foldl (stepG env) s.st := by
  induction fired generalizing s with
  | nil => rfl
  | cons f rest ih => simp only [List.foldl_cons]; rw [ih, stepI_st]


/-! ### configuration glue -/

theorem applyEntry_name (dflt : Bool) (r : Rule) (e : ConfEntry) : (applyEntry dflt r e).name = r.name := by
  unfold applyEntry; split <;> rfl

theorem foldl_applyEntry_name (dflt : Bool) (es : List ConfEntry) (r : Rule) :
    (es.foldl (applyEntry dflt) r).name = r.name := by
  induction es generalizing r with
  | nil => rfl
  | cons e rest ih => simp only [List.foldl_cons]; rw [ih, applyEntry_name]

theorem applyConfig_name (c : Config) (r : Rule) : (applyConfig c r).name = r.name := by
  unfold applyConfig; rw [foldl_applyEntry_name]

theorem configure_name (cs : List Config) (r : Rule) : (configure cs r).name = r.name := by
  unfold configure
  induction cs generalizing r with
  | nil => rfl
  | cons c rest ih => simp only [List.foldl_cons]; rw [ih, applyConfig_name]

/-- `enabled` after the entries: the last matching entry decides, otherwise what it was -/
def lastEnabled (dflt : Bool) (cname : Str) (cur : Bool) : List ConfEntry → Bool
  | [] => cur
  | e :: rest => lastEnabled dflt cname (if entryMatches e cname then e.enabled.getD dflt else cur) rest

theorem foldl_applyEntry_enabled (dflt : Bool) (es : List ConfEntry) (r : Rule) :
    (es.foldl (applyEntry dflt) r).enabled = lastEnabled dflt r.name r.enabled es := by
  induction es generalizing r with
  | nil => rfl
  | cons e rest ih =>
    simp only [List.foldl_cons, lastEnabled]
    rw [ih, applyEntry_name]
    unfold applyEntry
    split <;> rfl

theorem lastEnabled_append (dflt : Bool) (cname : Str) (cur : Bool) (es : List ConfEntry) (e : ConfEntry) :
    lastEnabled dflt cname cur (es ++ [e]) =
      if entryMatches e cname then e.enabled.getD dflt else lastEnabled dflt cname cur es := by
  induction es generalizing cur with
  | nil => simp [lastEnabled]
  | cons x rest ih => simp only [List.cons_append, lastEnabled]; exact ih _

theorem lastEnabled_no_match (dflt : Bool) (cname : Str) (cur : Bool) (es : List ConfEntry)
    (h : ∀ e ∈ es, entryMatches e cname = false) : lastEnabled dflt cname cur es = cur := by
  induction es generalizing cur with
  | nil => rfl
  | cons x rest ih =>
    simp only [lastEnabled, h x (by simp), Bool.false_eq_true, if_false]
    exact ih _ (fun e he => h e (List.mem_cons_of_mem _ he))


theorem lastEnabled_append_list (dflt : Bool) (cname : Str) (cur : Bool) (a b : List ConfEntry) :
    lastEnabled dflt cname cur (a ++ b) = lastEnabled dflt cname (lastEnabled dflt cname cur a) b := by
  induction a generalizing cur with
  | nil => rfl
  | cons x rest ih => simp only [List.cons_append, lastEnabled]; exact ih _

/-! ### run modes -/

theorem allFired_runs (subgraphs : List (List Rule)) :
    allFired (subgraphs.map (fun g => Op.run (g.map (·, true)))) = subgraphs.flatten.map (·, true) := by
  induction subgraphs with
  | nil => rfl
  | cons g rest ih => simp only [List.map_cons, allFired, ih, List.flatten_cons, List.map_append]

/-! ### names are a labelling -/

/-- give every rule another name (any function: several rules may get the same one) -/
def relabel (f : Rule → Str) (r : Rule) : Rule := { r with name := f r }

/-- two outcomes list the same things and store alike -/
def Final.SameKind (a b : Final) : Prop := a.tally = b.tally ∧ a.stored = b.stored

theorem invoke_relabel (env : Env) (f : Rule → Str) (r : Rule) : invoke env (relabel f r) = invoke env r := rfl

theorem classify_relabel (env : Env) (hc : WFCfg env.cfg) (P : List Comp) (f : Rule → Str) (r : Rule) :
    (classify env P (relabel f r)).SameKind (classify env P r) := by
  cases hen : r.enabled with
  | false =>
    have h1 : classify env P (relabel f r) = .nothing := by simp [classify, relabel, hen]
    have h2 : classify env P r = .nothing := by simp [classify, hen]
    rw [h1, h2]; exact ⟨rfl, rfl⟩
  | true =>
    have hen' : (relabel f r).enabled = true := hen
    rw [classify_enabled env P _ hen', classify_enabled env P r hen]
    cases hi : ignored P r with
    | true =>
      have hi' : ignored P (relabel f r) = true := hi
      rw [process_ignored env P _ hi', process_ignored env P r hi]; exact ⟨rfl, rfl⟩
    | false =>
      have hi' : ignored P (relabel f r) = false := hi
      cases hm : missingDeps P r with
      | some m =>
        have hm' : missingDeps P (relabel f r) = some m := hm
        rw [process_missing env P _ m hi' hm', process_missing env P r m hi hm,
          mkResp_of_valid env.limit env.cfg.skipCls sSkip _ _ hc.skip_type (skip_valid env (relabel f r) m hc),
          mkResp_of_valid env.limit env.cfg.skipCls sSkip _ _ hc.skip_type (skip_valid env r m hc)]
        simp only [ofMk, finalOfProc]
        have e1 := observeKind_built_skip env.limit env.cfg.skipCls .none (skipKwargs env (relabel f r) m)
          (skipKwargs_no_type env (relabel f r) m)
        have e2 := observeKind_built_skip env.limit env.cfg.skipCls .none (skipKwargs env r m) (skipKwargs_no_type env r m)
        rw [e1, e2]
        exact ⟨by simp only [Final.tally], by simp only [Final.stored]⟩
      | none =>
        have hm' : missingDeps P (relabel f r) = none := hm
        rw [process_invoked' env P _ hi' hm', process_invoked' env P r hi hm, invoke_relabel]
        exact ⟨rfl, rfl⟩

/-- the outcomes of the relabelled rule set, rule by rule, are of the same kind -/
theorem finals_relabel (env : Env) (hc : WFCfg env.cfg) (f : Rule → Str) (rules : List Rule) (P : List Comp)
    (r : Rule) (fr : Final) (hm : (r, fr) ∈ finals env P rules) :
    ∃ f', (relabel f r, f') ∈ finals env P (rules.map (relabel f)) ∧ f'.tally = fr.tally := by
  induction rules generalizing P with
  | nil => cases hm
  | cons x rest ih =>
    simp only [List.map_cons, finals] at hm ⊢
    have hk := classify_relabel env hc P f x
    have hid : (relabel f x).id = x.id := rfl
    rcases List.mem_cons.mp hm with h | h
    · cases h
      exact ⟨_, List.mem_cons_self .., hk.1⟩
    · rw [hk.2, hid]
      obtain ⟨f', h1, h2⟩ := ih _ h
      exact ⟨f', List.mem_cons_of_mem _ h1, h2⟩

theorem relabel_ids (f : Rule → Str) (rules : List Rule) : (rules.map (relabel f)).map (·.id) = rules.map (·.id) := by
  induction rules with
  | nil => rfl
  | cons x rest ih => simp only [List.map_cons, ih]; rfl

theorem fresh_relabel (seed : List Comp) (f : Rule → Str) (rules : List Rule) (h : Fresh seed rules) :
    Fresh seed (rules.map (relabel f)) := by
  refine ⟨by rw [relabel_ids]; exact h.1, ?_⟩
  intro r hr
  obtain ⟨x, hx, rfl⟩ := List.mem_map.mp hr
  exact h.2 x hx

theorem finals_ids (env : Env) (P : List Comp) (rules : List Rule) :
    (finals env P rules).map (·.1.id) = rules.map (·.id) := by
  have h3 : ((finals env P rules).map (·.1)).map (·.id) = rules.map (·.id) := by rw [finals_map_fst]
  rw [List.map_map] at h3
  exact h3

theorem tally_run_absent (env : Env) (seed : List Comp) (rules : List Rule) (h : Fresh seed rules) (id : Comp)
    (hn : id ∉ (finals env seed rules).map (·.1.id)) : tally (run env seed rules) id = Tally.zero := by
  rw [run_eq env seed rules h, tally_applyAll_absent _ _ _ hn, tally_init]


end IV.Rules
