import IV.Model.Rules
/-!
Helper lemmas for C12 (IV.Rules): association lists, `mkResp`, the refinement
`run = fold of the per-rule outcomes`, and additive counting over that fold.
-/
namespace IV.Rules

/-! ### association lists -/

theorem lookup_append_of_not_hasKey {α : Type} (k : Str) (d e : List (Str × α)) (h : hasKey k d = false) :
    lookup k (d ++ e) = lookup k e := by
  induction d with
  | nil => rfl
  | cons kv rest ih =>
    obtain ⟨k', v⟩ := kv
    simp only [hasKey, List.any_cons, Bool.or_eq_false_iff, beq_eq_false_iff_ne, ne_eq] at h
    simp only [List.cons_append, lookup, h.1, if_false]
    exact ih (by simpa [hasKey] using h.2)

theorem lookup_setKey_self {α : Type} (k : Str) (v : α) (d : List (Str × α)) : lookup k (setKey k v d) = some v := by
  induction d with
  | nil => simp [setKey, lookup]
  | cons kv rest ih =>
    obtain ⟨k', v'⟩ := kv
    by_cases h : k' = k
    · simp [setKey, lookup, h]
    · simp [setKey, lookup, h, ih]

theorem lookup_setKey_ne {α : Type} (k k' : Str) (v : α) (d : List (Str × α)) (hne : k' ≠ k) :
    lookup k' (setKey k v d) = lookup k' d := by
  induction d with
  | nil => simp [setKey, lookup, Ne.symm hne]
  | cons kv rest ih =>
    obtain ⟨k'', v'⟩ := kv
    by_cases h : k'' = k
    · subst h
      simp [setKey, lookup, Ne.symm hne]
    · by_cases h2 : k'' = k'
      · subst h2; simp [setKey, lookup, h]
      · simp [setKey, lookup, h, h2, ih]

theorem lookup_setKey {α : Type} (k k' : Str) (v : α) (d : List (Str × α)) :
    lookup k' (setKey k v d) = if k' = k then some v else lookup k' d := by
  by_cases h : k' = k
  · subst h; simp [lookup_setKey_self]
  · simp [h, lookup_setKey_ne _ _ _ _ h]

theorem lookup_erase {α : Type} (k k' : Str) (d : List (Str × α)) :
    lookup k' (erase k d) = if k' = k then none else lookup k' d := by
  induction d with
  | nil => simp [erase, lookup]
  | cons kv rest ih =>
    obtain ⟨k'', v⟩ := kv
    unfold erase at ih ⊢
    by_cases h : k'' = k
    · subst h
      by_cases h2 : k' = k''
      · subst h2; simpa [List.filter, lookup] using ih
      · simp only [List.filter, bne_self_eq_false, lookup, Ne.symm h2, if_false]
        simpa [h2] using ih
    · have hb : (k'' != k) = true := by simpa using h
      by_cases h2 : k' = k
      · subst h2
        simp only [List.filter, hb, lookup, h, if_false]
        simpa using ih
      · simp only [List.filter, hb, lookup]
        by_cases h3 : k'' = k'
        · simp [h3, h2]
        · simp only [h3, if_false]
          simpa [h2] using ih

theorem getList_appendAt {α : Type} (k k' : Str) (e : α) (d : List (Str × List α)) :
    getList k' (appendAt k e d) = if k' = k then getList k' d ++ [e] else getList k' d := by
  induction d with
  | nil =>
    by_cases h : k' = k
    · subst h; simp [appendAt, getList, lookup]
    · simp [appendAt, getList, lookup, h, Ne.symm h]
  | cons kv rest ih =>
    obtain ⟨k'', es⟩ := kv
    by_cases h : k'' = k
    · subst h
      by_cases h2 : k' = k''
      · subst h2; simp [appendAt, getList, lookup]
      · simp [appendAt, getList, lookup, h2, Ne.symm h2]
    · by_cases h2 : k'' = k'
      · subst h2
        have : ¬ k'' = k := h
        simp [appendAt, getList, lookup, h]
      · simp only [appendAt, h, if_false, getList, lookup, h2]
        simpa [getList] using ih

/-- counting over all lists of a `defaultdict(list)` -/
def countAll {α : Type} (p : α → Bool) (d : List (Str × List α)) : Nat := (d.map (fun kv => kv.2.countP p)).sum

theorem countAll_appendAt {α : Type} (p : α → Bool) (k : Str) (e : α) (d : List (Str × List α)) :
    countAll p (appendAt k e d) = countAll p d + (if p e then 1 else 0) := by
  induction d with
  | nil => simp [appendAt, countAll, List.countP_cons]
  | cons kv rest ih =>
    obtain ⟨k', es⟩ := kv
    by_cases h : k' = k
    · simp only [appendAt, h, if_true, countAll, List.map_cons, List.sum_cons, List.countP_append, List.countP_cons,
        List.countP_nil]
      omega
    · unfold countAll at ih ⊢
      simp only [appendAt, h, if_false, List.map_cons, List.sum_cons, ih]
      omega

/-! ### `mkResp` -/

instance : DecidableEq (Except VErr Resp) := fun a b =>
  match a, b with
  | .ok x, .ok y => if h : x = y then isTrue (by rw [h]) else isFalse (by intro h'; cases h'; exact h rfl)
  | .error x, .error y => if h : x = y then isTrue (by rw [h]) else isFalse (by intro h'; cases h'; exact h rfl)
  | .ok _, .error _ => isFalse (by intro h; cases h)
  | .error _, .ok _ => isFalse (by intro h; cases h)

theorem key_ok_iff (key : PyVal) : (key.truthy = true ∧ key.isStr = true) ↔ ∃ s, key = .str s ∧ s ≠ [] := by
  cases key <;> simp [PyVal.truthy, PyVal.isStr]

/-- the arguments pass validation -/
def Valid (c : RClass) (key : PyVal) (kwargs : Dict) : Prop :=
  c.rtype.isSome = true ∧ hasKey sType kwargs = false ∧
    ∀ kn, c.keyName = some kn → hasKey kn kwargs = false ∧ key.truthy = true ∧ key.isStr = true

theorem reserved_any (c : RClass) (kwargs : Dict) :
    (reservedNames c).any (fun n => hasKey n kwargs) =
      (hasKey sType kwargs || match c.keyName with | some kn => hasKey kn kwargs | none => false) := by
  cases h : c.keyName <;> simp [reservedNames, h]

/-- the response `Response.__init__` builds from valid arguments -/
def built (limit : Nat) (c : RClass) (t : Str) (key : PyVal) (kwargs : Dict) : Resp :=
  let r := baseFields t c key
  let length := (reprDict (kwargs ++ r)).length
  if !c.exempt && length > limit then ⟨c, r ++ [(sMaxErr, .int length)]⟩ else ⟨c, kwargs ++ r⟩

theorem mkResp_of_valid (limit : Nat) (c : RClass) (t : Str) (key : PyVal) (kwargs : Dict)
    (ht : c.rtype = some t) (hv : Valid c key kwargs) : mkResp limit c key kwargs = .ok (built limit c t key kwargs) := by
  obtain ⟨_, h2, h3⟩ := hv
  unfold mkResp built
  simp only [ht, reserved_any, h2, Bool.false_or]
  cases hk : c.keyName with
  | none => simp; split <;> rfl
  | some kn =>
    obtain ⟨a, b, d⟩ := h3 kn hk
    simp [a, b, d]; split <;> rfl

theorem mkResp_error_of_invalid (limit : Nat) (c : RClass) (key : PyVal) (kwargs : Dict) (hv : ¬ Valid c key kwargs) :
    ∃ e, mkResp limit c key kwargs = .error e := by
  unfold mkResp
  cases ht : c.rtype with
  | none => exact ⟨_, rfl⟩
  | some t =>
    simp only [reserved_any]
    by_cases h2 : hasKey sType kwargs = true
    · exact ⟨.reserved, by simp [h2]⟩
    · have h2' : hasKey sType kwargs = false := by simpa using h2
      cases hk : c.keyName with
      | none =>
        exfalso; apply hv
        exact ⟨by simp [ht], h2', by intro kn hkn; rw [hk] at hkn; cases hkn⟩
      | some kn =>
        by_cases h3 : hasKey kn kwargs = true
        · exact ⟨.reserved, by simp [h2', h3]⟩
        · have h3' : hasKey kn kwargs = false := by simpa using h3
          by_cases h4 : key.truthy = true
          · by_cases h5 : key.isStr = true
            · exfalso; apply hv
              refine ⟨by simp [ht], h2', ?_⟩
              intro kn' hkn'; rw [hk] at hkn'; cases hkn'
              exact ⟨h3', h4, h5⟩
            · exact ⟨.keyType, by simp [h2', h3', h4, h5]⟩
          · exact ⟨.keyMissing, by simp [h2', h3', h4]⟩

theorem built_cls (limit : Nat) (c : RClass) (t : Str) (key : PyVal) (kwargs : Dict) : (built limit c t key kwargs).cls = c := by
  simp only [built]; split <;> rfl

theorem built_type (limit : Nat) (c : RClass) (t : Str) (key : PyVal) (kwargs : Dict) (h : hasKey sType kwargs = false) :
    lookup sType (built limit c t key kwargs).fields = some (.str t) := by
  simp only [built]
  split
  · simp [baseFields, lookup]
  · simp only
    rw [lookup_append_of_not_hasKey _ _ _ h]
    simp [baseFields, lookup]

theorem built_getKey (limit : Nat) (c : RClass) (t : Str) (key : PyVal) (kwargs : Dict) (kn : Str)
    (hk : c.keyName = some kn) (hne : kn ≠ sType) (h : hasKey kn kwargs = false) :
    (built limit c t key kwargs).getKey = some key := by
  unfold Resp.getKey
  rw [built_cls, hk]
  simp only [built]
  split
  · simp [baseFields, keyField, hk, lookup, Ne.symm hne]
  · simp only
    rw [lookup_append_of_not_hasKey _ _ _ h]
    simp [baseFields, keyField, hk, lookup, Ne.symm hne]

/-! ### the per-rule step as "apply the rule's outcome" -/

def applyFinal (st : St) (r : Rule) : Final → St
  | .entry t resp => { st with inst := st.inst ++ [(r.id, some resp)], results := appendAt t (mkEntry r t resp) st.results }
  | .skipEntry resp => { st with inst := st.inst ++ [(r.id, some resp)], skips := st.skips ++ [(r.id, resp)] }
  | .metadata resp =>
    { st with inst := st.inst ++ [(r.id, some resp)], metadata := mergeMd st.metadata resp.fields, mdFrom := st.mdFrom ++ [r.id] }
  | .metadataKey resp k v =>
    { st with inst := st.inst ++ [(r.id, some resp)], mdKeys := setKey k v st.mdKeys, mdkFrom := st.mdkFrom ++ [r.id] }
  | .unlisted resp => { st with inst := st.inst ++ [(r.id, some resp)] }
  | .exception es => { st with excs := st.excs ++ es.map (r.id, ·) }
  | .nothing => st

theorem lookup'_append_new (c : Comp) (v : Option Resp) (l : List (Comp × Option Resp)) (h : c ∉ l.map (·.1)) :
    observe.lookup' c (l ++ [(c, v)]) = some v := by
  induction l with
  | nil => simp [observe.lookup']
  | cons kv rest ih =>
    obtain ⟨c', v'⟩ := kv
    simp only [List.map_cons, List.mem_cons, not_or] at h
    simp only [List.cons_append, observe.lookup', Ne.symm h.1, if_false]
    exact ih h.2

theorem lookup'_absent (c : Comp) (l : List (Comp × Option Resp)) (h : c ∉ l.map (·.1)) : observe.lookup' c l = none := by
  induction l with
  | nil => rfl
  | cons kv rest ih =>
    obtain ⟨c', v'⟩ := kv
    simp only [List.map_cons, List.mem_cons, not_or] at h
    simp only [observe.lookup', Ne.symm h.1, if_false]
    exact ih h.2

theorem md_ne_skip : sMetadata ≠ sSkip := by decide
theorem mdk_ne_skip : sMetadataKey ≠ sSkip := by decide
theorem mdk_ne_md : sMetadataKey ≠ sMetadata := by decide

theorem handle_eq (st : St) (r : Rule) (resp : Resp) :
    handle { st with inst := st.inst ++ [(r.id, some resp)] } r resp = applyFinal st r (observeKind resp) := by
  unfold handle observeKind
  split
  · rename_i t ht
    by_cases h1 : t = sSkip
    · simp [h1, applyFinal]
    · by_cases h2 : t = sMetadata
      · subst h2; simp [md_ne_skip, applyFinal]
      · by_cases h3 : t = sMetadataKey
        · subst h3
          simp only [mdk_ne_skip, mdk_ne_md, if_false, if_true]
          split
          · simp [applyFinal]
          · simp [applyFinal]
        · simp [h1, h2, h3, applyFinal]
  · rfl

theorem step_eq (env : Env) (st : St) (r : Rule) (hnew : r.id ∉ st.present) :
    step env st r = applyFinal st r (classify env st.present r) := by
  have hc : st.present.contains r.id = false := by simpa using hnew
  unfold step classify
  simp only [hc, Bool.not_false, Bool.true_and]
  cases hen : r.enabled with
  | false =>
    simp only [Bool.false_eq_true, if_false, Bool.not_false, if_true]
    unfold observe
    rw [lookup'_absent _ _ hnew]
    rfl
  | true =>
    simp only [if_true, Bool.not_true, Bool.false_eq_true, if_false]
    cases hp : process env st.present r with
    | stored resp =>
      simp only [applyProc, finalOfProc]
      unfold observe
      simp only
      rw [lookup'_append_new _ _ _ hnew]
      exact handle_eq st r resp
    | skipped pre =>
      simp only [applyProc, finalOfProc]
      unfold observe
      simp only
      rw [lookup'_absent _ _ hnew]
      by_cases he : (skipExcs env pre).isEmpty = true
      · have : skipExcs env pre = [] := by simpa using he
        simp [this, applyFinal]
      · simp [he, applyFinal]
    | raised e =>
      simp only [applyProc, finalOfProc]
      unfold observe
      simp only
      rw [lookup'_absent _ _ hnew]
      simp [applyFinal]

theorem applyFinal_present (st : St) (r : Rule) (f : Final) :
    (applyFinal st r f).present = if f.stored then st.present ++ [r.id] else st.present := by
  cases f <;> simp [applyFinal, St.present, Final.stored]

/-- the rules' identities are distinct and none is in the broker beforehand -/
def Fresh (present : List Comp) (rules : List Rule) : Prop :=
  (rules.map (·.id)).Nodup ∧ ∀ r ∈ rules, r.id ∉ present

def applyAll (st : St) (fs : List (Rule × Final)) : St := fs.foldl (fun s rf => applyFinal s rf.1 rf.2) st

theorem foldl_step_eq (env : Env) (rules : List Rule) (st : St) (h : Fresh st.present rules) :
    rules.foldl (step env) st = applyAll st (finals env st.present rules) := by
  induction rules generalizing st with
  | nil => rfl
  | cons r rs ih =>
    obtain ⟨hnd, hfresh⟩ := h
    have hr : r.id ∉ st.present := hfresh r (by simp)
    simp only [List.foldl_cons, finals, applyAll]
    rw [step_eq env st r hr]
    have hp := applyFinal_present st r (classify env st.present r)
    have hfr : Fresh (applyFinal st r (classify env st.present r)).present rs := by
      simp only [List.map_cons, List.nodup_cons] at hnd
      refine ⟨hnd.2, ?_⟩
      intro r' hr'
      rw [hp]
      have h1 : r'.id ∉ st.present := hfresh r' (by simp [hr'])
      have h2 : r'.id ≠ r.id := by
        intro heq; apply hnd.1; rw [← heq]; exact List.mem_map_of_mem hr'
      split <;> simp [h1, h2]
    rw [ih _ hfr, hp]
    rfl

theorem finals_map_fst (env : Env) (present : List Comp) (rules : List Rule) :
    (finals env present rules).map (·.1) = rules := by
  induction rules generalizing present with
  | nil => rfl
  | cons r rs ih => simp [finals, ih]

/-! ### what the fold leaves in each part of the state -/

def entryOf (t : Str) : Rule × Final → Option Entry
  | (r, .entry t' resp) => if t' = t then some (mkEntry r t' resp) else none
  | _ => none

def skipOf : Rule × Final → Option (Comp × Resp)
  | (r, .skipEntry resp) => some (r.id, resp)
  | _ => none

def excsOf : Rule × Final → List (Comp × Exc)
  | (r, .exception es) => es.map (r.id, ·)
  | _ => []

def mdStep (md : Dict) : Rule × Final → Dict
  | (_, .metadata resp) => mergeMd md resp.fields
  | _ => md

def mdkStep (d : Dict) : Rule × Final → Dict
  | (_, .metadataKey _ k v) => setKey k v d
  | _ => d

theorem applyAll_results (t : Str) (fs : List (Rule × Final)) (st : St) :
    getList t (applyAll st fs).results = getList t st.results ++ fs.filterMap (entryOf t) := by
  induction fs generalizing st with
  | nil => simp [applyAll]
  | cons rf rest ih =>
    obtain ⟨r, f⟩ := rf
    simp only [applyAll, List.foldl_cons] at ih ⊢
    rw [ih]
    cases f with
    | entry t' resp =>
      simp only [applyFinal, getList_appendAt, List.filterMap_cons, entryOf]
      by_cases h : t = t'
      · subst h; simp
      · simp [h, Ne.symm h]
    | _ => simp [applyFinal, entryOf, List.filterMap_cons]

theorem applyAll_skips (fs : List (Rule × Final)) (st : St) :
    (applyAll st fs).skips = st.skips ++ fs.filterMap skipOf := by
  induction fs generalizing st with
  | nil => simp [applyAll]
  | cons rf rest ih =>
    obtain ⟨r, f⟩ := rf
    simp only [applyAll, List.foldl_cons] at ih ⊢
    rw [ih]
    cases f <;> simp [applyFinal, skipOf, List.filterMap_cons]

theorem applyAll_excs (fs : List (Rule × Final)) (st : St) :
    (applyAll st fs).excs = st.excs ++ fs.flatMap excsOf := by
  induction fs generalizing st with
  | nil => simp [applyAll]
  | cons rf rest ih =>
    obtain ⟨r, f⟩ := rf
    simp only [applyAll, List.foldl_cons] at ih ⊢
    rw [ih]
    cases f <;> simp [applyFinal, excsOf, List.flatMap_cons]

theorem applyAll_metadata (fs : List (Rule × Final)) (st : St) :
    (applyAll st fs).metadata = fs.foldl mdStep st.metadata := by
  induction fs generalizing st with
  | nil => simp [applyAll]
  | cons rf rest ih =>
    obtain ⟨r, f⟩ := rf
    simp only [applyAll, List.foldl_cons] at ih ⊢
    rw [ih]
    cases f <;> simp [applyFinal, mdStep]

theorem applyAll_mdKeys (fs : List (Rule × Final)) (st : St) :
    (applyAll st fs).mdKeys = fs.foldl mdkStep st.mdKeys := by
  induction fs generalizing st with
  | nil => simp [applyAll]
  | cons rf rest ih =>
    obtain ⟨r, f⟩ := rf
    simp only [applyAll, List.foldl_cons] at ih ⊢
    rw [ih]
    cases f <;> simp [applyFinal, mdkStep]

/-! ### additive counting -/

/-- how often a rule is listed, per place -/
structure Tally where
  results : Nat
  skips : Nat
  metadata : Nat
  mdKeys : Nat
  excs : List Exc
deriving DecidableEq, Repr

def Tally.zero : Tally := ⟨0, 0, 0, 0, []⟩

def Tally.add (a b : Tally) : Tally :=
  ⟨a.results + b.results, a.skips + b.skips, a.metadata + b.metadata, a.mdKeys + b.mdKeys, a.excs ++ b.excs⟩

/-- what is listed for component `id` in a state -/
def tally (st : St) (id : Comp) : Tally :=
  { results := countAll (fun e => e.src == id) st.results
    skips := st.skips.countP (fun p => p.1 == id)
    metadata := st.mdFrom.countP (· == id)
    mdKeys := st.mdkFrom.countP (· == id)
    excs := (st.excs.filter (fun p => p.1 == id)).map (·.2) }

/-- what an outcome lists -/
def Final.tally : Final → Tally
  | .entry _ _ => ⟨1, 0, 0, 0, []⟩
  | .skipEntry _ => ⟨0, 1, 0, 0, []⟩
  | .metadata _ => ⟨0, 0, 1, 0, []⟩
  | .metadataKey _ _ _ => ⟨0, 0, 0, 1, []⟩
  | .unlisted _ => Tally.zero
  | .exception es => ⟨0, 0, 0, 0, es⟩
  | .nothing => Tally.zero

theorem Tally.add_zero (a : Tally) : a.add Tally.zero = a := by
  cases a; simp [Tally.add, Tally.zero]

theorem filter_map_self (id : Comp) (es : List Exc) :
    (List.filter (fun p : Comp × Exc => p.1 == id) (es.map (id, ·))).map (·.2) = es := by
  induction es with
  | nil => rfl
  | cons e rest ih => simp [ih]

theorem filter_map_other (id id' : Comp) (es : List Exc) (h : id' ≠ id) :
    List.filter (fun p : Comp × Exc => p.1 == id) (es.map (id', ·)) = [] := by
  induction es with
  | nil => rfl
  | cons e rest ih => simp [ih, h]

theorem tally_applyFinal (st : St) (r : Rule) (f : Final) (id : Comp) :
    tally (applyFinal st r f) id = (tally st id).add (if r.id = id then f.tally else Tally.zero) := by
  by_cases h : r.id = id
  · subst h
    cases f <;>
      simp [applyFinal, tally, Tally.add, Final.tally, Tally.zero, countAll_appendAt, mkEntry, List.countP_append,
        filter_map_self]
  · have hb : (r.id == id) = false := by simpa using h
    cases f <;>
      simp [applyFinal, tally, Tally.add, Tally.zero, h, hb, countAll_appendAt, mkEntry, List.countP_append,
        filter_map_other _ _ _ h]

theorem tally_applyAll_absent (fs : List (Rule × Final)) (st : St) (id : Comp) (h : id ∉ fs.map (·.1.id)) :
    tally (applyAll st fs) id = tally st id := by
  induction fs generalizing st with
  | nil => rfl
  | cons rf rest ih =>
    simp only [List.map_cons, List.mem_cons, not_or] at h
    simp only [applyAll, List.foldl_cons] at ih ⊢
    rw [ih _ h.2, tally_applyFinal]
    simp [Ne.symm h.1, Tally.add_zero]

theorem tally_applyAll (fs : List (Rule × Final)) (st : St) (r : Rule) (f : Final)
    (hnd : (fs.map (·.1.id)).Nodup) (hmem : (r, f) ∈ fs) :
    tally (applyAll st fs) r.id = (tally st r.id).add f.tally := by
  induction fs generalizing st with
  | nil => cases hmem
  | cons rf rest ih =>
    simp only [List.map_cons, List.nodup_cons] at hnd
    simp only [applyAll, List.foldl_cons] at ih ⊢
    rcases List.mem_cons.mp hmem with heq | hin
    · subst heq
      have h0 := tally_applyAll_absent rest (applyFinal st r f) r.id hnd.1
      simp only [applyAll] at h0
      rw [h0, tally_applyFinal]
      simp
    · have hne : rf.1.id ≠ r.id := by
        intro heq; apply hnd.1; rw [heq]
        exact List.mem_map_of_mem (f := fun x : Rule × Final => x.1.id) hin
      rw [ih _ hnd.2 hin, tally_applyFinal]
      simp [hne, Tally.add_zero]

theorem tally_init (seed : List Comp) (id : Comp) : tally (St.init seed) id = Tally.zero := by
  simp [tally, St.init, Tally.zero, countAll]

theorem Tally.zero_add (a : Tally) : Tally.zero.add a = a := by
  cases a; simp [Tally.add, Tally.zero]

end IV.Rules
