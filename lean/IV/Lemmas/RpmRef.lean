import IV.Model.RpmRef
import IV.Lemmas.Rpm
/-!
Helper lemmas for C13, first clause ("gives the same answer as RPM's own comparison"):
the model of `_rpm_vercmp` (`IV.Rpm.loop`, on normalised characters) against the transcription of
`rpmvercmp.c` (`IV.Rpm.Reference.cmpLoop`, on code units).

1. `body_eq_bstep`: the C if-ladder, after the separator skip, is the same 5×5 table over the
   classes of the two heads that `IV.Rpm.step` is written as.
2. `Rel s t`: `s` is the Python-normalised character string of the code-unit string `t`; the
   separator skip, the head class, the digit/letter walks and the cursor moves commute with it.
3. `loop_eq_cmpLoop`: equal answers at every fuel, by induction on the fuel.
4. every code-unit string is `Rel`-related to some character string, so reflexivity and fuel
   independence of the reference loop are inherited from the model's loop.
-/
namespace IV.Rpm
open Reference

/-! ### bytes and characters -/

theorem risdigit_toNat (c : Char) : risdigit c.toNat = isDigit c := by
  simp [risdigit, isDigit, Char.isDigit, UInt32.le_iff_toNat_le]

theorem risalpha_toNat (c : Char) : risalpha c.toNat = isAlpha c := by
  simp [risalpha, rislower, risupper, isAlpha, Char.isAlpha, Char.isUpper, Char.isLower,
    UInt32.le_iff_toNat_le, Bool.or_comm]

theorem char_lt_iff (a b : Char) : a < b ↔ a.toNat < b.toNat := by
  simp [Char.lt_def, UInt32.lt_iff_toNat_lt]

/-! ### the reference loop body as a table over the class of the two heads -/

/-- class of the head byte of a separator-skipped byte string -/
def bcls (t : Bytes) : Cls :=
  match t with
  | [] => .eof
  | u :: _ => if u = 126 then .tilde else if u = 94 then .caret else if risdigit u then .dig else .alp

/-- the leading-zero / length / strcmp block on two cut segments -/
def bsegCmp (isnum : Bool) (l r : Bytes) : Int :=
  if isnum then
    let l' := l.dropWhile (· == zero); let r' := r.dropWhile (· == zero)
    if l'.length > r'.length then 1
    else if r'.length > l'.length then -1
    else strcmp l' r'
  else strcmp l r

/-- `Reference.body` after the separator skip, in the shape of `IV.Rpm.step` -/
def bstep (rec : Bytes → Bytes → Int) (a b : Bytes) : Int :=
  match bcls a, bcls b with
  | .tilde, .tilde => rec a.tail b.tail
  | .tilde, _ => -1
  | _, .tilde => 1
  | .caret, .caret => rec a.tail b.tail
  | .eof, .caret => -1
  | .caret, .eof => 1
  | .caret, _ => -1
  | _, .caret => 1
  | .eof, .eof => 0
  | .eof, _ => -1
  | _, .eof => 1
  | .dig, .alp => 1
  | .alp, .dig => -1
  | .dig, .dig =>
    let c := bsegCmp true (a.takeWhile risdigit) (b.takeWhile risdigit)
    if c != 0 then c else rec (a.dropWhile risdigit) (b.dropWhile risdigit)
  | .alp, .alp =>
    let c := bsegCmp false (a.takeWhile risalpha) (b.takeWhile risalpha)
    if c != 0 then c else rec (a.dropWhile risalpha) (b.dropWhile risalpha)

/-- the head (if any) is not a separator: what `skipSeps` guarantees -/
def HeadOk (a : Bytes) : Prop := ∀ u t, a = u :: t → (risalnum u || u == 126 || u == 94) = true

theorem skipSeps_headOk (a : Bytes) : HeadOk (skipSeps a) := by
  induction a with
  | nil => intro u t h; simp [skipSeps] at h
  | cons x xs ih =>
    simp only [skipSeps]
    split
    · exact ih
    · rename_i hx
      intro u t h
      simp only [List.cons.injEq] at h
      rw [← h.1]
      simp only [tilde, caret] at hx
      cases h1 : risalnum x <;> cases h2 : x == 126 <;> cases h3 : x == 94 <;> simp_all

theorem risdigit_ne {u : Nat} (h : risdigit u = true) : u ≠ 126 ∧ u ≠ 94 ∧ risalpha u = false := by
  simp only [risdigit, risalpha, rislower, risupper, Bool.and_eq_true, decide_eq_true_eq] at *
  refine ⟨by omega, by omega, ?_⟩
  simp; omega

theorem risalpha_ne {u : Nat} (h : risalpha u = true) : u ≠ 126 ∧ u ≠ 94 ∧ risdigit u = false := by
  simp only [risdigit, risalpha, rislower, risupper, Bool.and_eq_true, Bool.or_eq_true, decide_eq_true_eq] at *
  refine ⟨by omega, by omega, ?_⟩
  simp; omega

theorem bcls_eof {a : Bytes} (h : bcls a = .eof) : a = [] := by
  cases a with
  | nil => rfl
  | cons u t => simp only [bcls] at h; split at h <;> (try split at h) <;> (try split at h) <;> simp at h

theorem bcls_tilde {a : Bytes} (h : bcls a = .tilde) : ∃ t, a = 126 :: t := by
  cases a with
  | nil => simp [bcls] at h
  | cons u t =>
    simp only [bcls] at h
    split at h
    · rename_i hu; exact ⟨t, by rw [hu]⟩
    · split at h <;> (try split at h) <;> simp at h

theorem bcls_caret {a : Bytes} (h : bcls a = .caret) : ∃ t, a = 94 :: t := by
  cases a with
  | nil => simp [bcls] at h
  | cons u t =>
    simp only [bcls] at h
    split at h
    · simp at h
    · split at h
      · rename_i hu; exact ⟨t, by rw [hu]⟩
      · split at h <;> simp at h

theorem bcls_dig {a : Bytes} (h : bcls a = .dig) :
    ∃ u t, a = u :: t ∧ risdigit u = true ∧ u ≠ 126 ∧ u ≠ 94 ∧ risalpha u = false := by
  cases a with
  | nil => simp [bcls] at h
  | cons u t =>
    simp only [bcls] at h
    split at h
    · simp at h
    · split at h
      · simp at h
      · split at h
        · rename_i hd; exact ⟨u, t, rfl, hd, risdigit_ne hd⟩
        · simp at h

theorem bcls_alp {a : Bytes} (ok : HeadOk a) (h : bcls a = .alp) :
    ∃ u t, a = u :: t ∧ risalpha u = true ∧ u ≠ 126 ∧ u ≠ 94 ∧ risdigit u = false := by
  cases a with
  | nil => simp [bcls] at h
  | cons u t =>
    have hu := ok u t rfl
    simp only [bcls] at h
    split at h
    · simp at h
    · split at h
      · simp at h
      · split at h
        · simp at h
        · rename_i h1 h2 h3
          have ha : risalpha u = true := by
            simp only [risalnum, Bool.or_eq_true, beq_iff_eq] at hu
            rcases hu with (hu | hu) | hu
            · rcases hu with hu | hu
              · exact hu
              · exact absurd hu h3
            · exact absurd hu h1
            · exact absurd hu h2
          exact ⟨u, t, rfl, ha, risalpha_ne ha⟩

theorem strcmp_range (a b : Bytes) : strcmp a b = -1 ∨ strcmp a b = 0 ∨ strcmp a b = 1 := by
  induction a generalizing b with
  | nil => cases b <;> simp [strcmp]
  | cons x xs ih =>
    cases b with
    | nil => simp [strcmp]
    | cons y ys =>
      simp only [strcmp]
      split
      · simp
      · split
        · simp
        · exact ih ys

theorem sign_helper (rc X : Int) (h : rc = -1 ∨ rc = 0 ∨ rc = 1) :
    (if rc = 0 then X else if rc < 1 then -1 else 1) = if rc = 0 then X else rc := by
  rcases h with h | h | h <;> simp [h]

theorem body_eq_bstep (next : Bytes → Bytes → Int) (one two : Bytes) :
    body next one two = bstep next (skipSeps one) (skipSeps two) := by
  have h1 := skipSeps_headOk one
  have h2 := skipSeps_headOk two
  unfold body
  simp only []
  generalize skipSeps one = a at *
  generalize skipSeps two = b at *
  unfold bstep
  simp only [bsegCmp, if_true]
  cases ha : bcls a <;> cases hb : bcls b <;> simp only []
  all_goals
    (first
      | (have e := bcls_eof ha; subst e)
      | (obtain ⟨ta, rfl⟩ := bcls_tilde ha)
      | (obtain ⟨ta, rfl⟩ := bcls_caret ha)
      | (obtain ⟨ua, ta, rfl, a1, a2, a3, a4⟩ := bcls_dig ha)
      | (obtain ⟨ua, ta, rfl, a1, a2, a3, a4⟩ := bcls_alp h1 ha))
  all_goals
    (first
      | (have e := bcls_eof hb; subst e)
      | (obtain ⟨tb, rfl⟩ := bcls_tilde hb)
      | (obtain ⟨tb, rfl⟩ := bcls_caret hb)
      | (obtain ⟨ub, tb, rfl, b1, b2, b3, b4⟩ := bcls_dig hb)
      | (obtain ⟨ub, tb, rfl, b1, b2, b3, b4⟩ := bcls_alp h2 hb))
  all_goals clear h1 h2 ha hb
  all_goals simp [pointsAt, nz, atP, tilde, caret, afterLoop, *]
  · generalize List.dropWhile (fun x => x == zero) (ua :: List.takeWhile risdigit ta) = L
    generalize List.dropWhile (fun x => x == zero) (ub :: List.takeWhile risdigit tb) = R
    generalize next (List.dropWhile risdigit ta) (List.dropWhile risdigit tb) = X
    rw [sign_helper _ _ (strcmp_range L R)]
    by_cases c1 : R.length < L.length
    · simp [c1]
    · by_cases c2 : L.length < R.length
      · simp [c1, c2]
      · simp [c1, c2]
  · exact sign_helper _ _ (strcmp_range _ _)

theorem bstep_nil (rec : Bytes → Bytes → Int) : bstep rec [] [] = 0 := by
  simp [bstep, bcls]

theorem cmpLoop_succ (f : Nat) (one two : Bytes) :
    cmpLoop (f + 1) one two = bstep (cmpLoop f) (skipSeps one) (skipSeps two) := by
  simp only [cmpLoop]
  split
  · exact body_eq_bstep _ _ _
  · rename_i h
    cases one <;> cases two <;> simp [nz] at h
    simp [afterLoop, nz, skipSeps, bstep_nil]

/-! ### the relation between the normalised characters and the code units -/

/-- `Rel s t`: `t` is a code-unit string whose Python-normalised character string is `s` — an
ASCII character is its own code unit; a `'.'` may instead stand for one unit ≥ 128 (`hi`), and any
`'.'` may be preceded by further units ≥ 128 (`more`) — so a non-ASCII character, which Python
turns into one `'.'`, matches its whole non-empty run of units ≥ 128 (`rel_run`) -/
inductive Rel : Str → Bytes → Prop
  | nil : Rel [] []
  | ascii (c : Char) {s : Str} {t : Bytes} : c.toNat < 128 → Rel s t → Rel (c :: s) (c.toNat :: t)
  | hi (u : Nat) {s : Str} {t : Bytes} : 128 ≤ u → Rel s t → Rel ('.' :: s) (u :: t)
  | more (u : Nat) {s : Str} {t : Bytes} : 128 ≤ u → Rel ('.' :: s) t → Rel ('.' :: s) (u :: t)

theorem isSep_toNat (c : Char) :
    isSep c = (!risalnum c.toNat && c.toNat != tilde && c.toNat != caret) := by
  have h1 : (c != '~') = (c.toNat != tilde) := by
    cases h : c != '~' <;> cases h' : c.toNat != tilde <;> simp_all [tilde, ← Char.toNat_inj]
  have h2 : (c != '^') = (c.toNat != caret) := by
    cases h : c != '^' <;> cases h' : c.toNat != caret <;> simp_all [caret, ← Char.toNat_inj]
  simp only [isSep, isAlnum, risalnum, h1, h2, risdigit_toNat, risalpha_toNat, Bool.or_comm, isAlpha, isDigit]

theorem hi_sep {u : Nat} (h : 128 ≤ u) : (!risalnum u && u != tilde && u != caret) = true := by
  simp [risalnum, risalpha, rislower, risupper, risdigit, tilde, caret]; omega

theorem hi_not_digit {u : Nat} (h : 128 ≤ u) : risdigit u = false := by
  simp [risdigit]; omega

theorem hi_not_alpha {u : Nat} (h : 128 ≤ u) : risalpha u = false := by
  simp [risalpha, rislower, risupper]; omega

theorem rel_skip {s : Str} {t : Bytes} (h : Rel s t) : Rel (skipSep s) (skipSeps t) := by
  induction h with
  | nil => exact Rel.nil
  | ascii c hc h ih =>
    simp only [skipSep, skipSeps, isSep_toNat]
    split
    · exact ih
    · exact Rel.ascii c hc h
  | hi u hu h ih =>
    have : isSep '.' = true := by decide
    simp only [skipSep, skipSeps, this, hi_sep hu, if_true]
    exact ih
  | more u hu h ih =>
    simp only [skipSeps, hi_sep hu, if_true]
    exact ih

theorem rel_cls {s : Str} {t : Bytes} (h : Rel s t) : cls s = bcls t := by
  cases h with
  | nil => rfl
  | ascii c hc h =>
    have h1 : (c = '~') = (c.toNat = 126) := by simp [← Char.toNat_inj]
    have h2 : (c = '^') = (c.toNat = 94) := by simp [← Char.toNat_inj]
    simp only [cls, bcls, h1, h2, risdigit_toNat]
  | hi u hu h =>
    have h3 := hi_not_digit hu
    have h1 : u ≠ 126 := by omega
    have h2 : u ≠ 94 := by omega
    simp [cls, bcls, isDigit, h1, h2, h3]
  | more u hu h =>
    have h3 := hi_not_digit hu
    have h1 : u ≠ 126 := by omega
    have h2 : u ≠ 94 := by omega
    simp [cls, bcls, isDigit, h1, h2, h3]

theorem cls_dot (s : Str) : cls ('.' :: s) = .alp := by simp [cls, isDigit]

theorem rel_tail {s : Str} {t : Bytes} (h : Rel s t) (hc : cls s = .tilde ∨ cls s = .caret) :
    Rel s.tail t.tail := by
  cases h with
  | nil => exact Rel.nil
  | ascii c hc h => exact h
  | hi u hu h => simp [cls_dot] at hc
  | more u hu h => simp [cls_dot] at hc

/-- the two walks (`takeWhile` on characters, `while (*p && pred(*p)) p++` on units) stop at the
same place -/
theorem rel_takeWhile (p : Char → Bool) (q : Nat → Bool) (hpq : ∀ c, q c.toNat = p c)
    (hdot : p '.' = false) (hhi : ∀ u, 128 ≤ u → q u = false) {s : Str} {t : Bytes} (h : Rel s t) :
    t.takeWhile q = (s.takeWhile p).map Char.toNat := by
  induction h with
  | nil => rfl
  | ascii c hc h ih =>
    simp only [List.takeWhile, hpq]
    cases p c <;> simp [ih]
  | hi u hu h ih => simp [List.takeWhile, hdot, hhi u hu]
  | more u hu h ih => simp [List.takeWhile, hdot, hhi u hu]

theorem rel_drop (p : Char → Bool) (q : Nat → Bool) (hpq : ∀ c, q c.toNat = p c)
    (hdot : p '.' = false) (hhi : ∀ u, 128 ≤ u → q u = false) {s : Str} {t : Bytes} (h : Rel s t) :
    Rel (s.drop (s.takeWhile p).length) (t.dropWhile q) := by
  induction h with
  | nil => exact Rel.nil
  | ascii c hc h ih =>
    simp only [List.takeWhile, List.dropWhile, hpq]
    cases hp : p c
    · exact Rel.ascii c hc h
    · simpa using ih
  | hi u hu h ih =>
    simp only [List.takeWhile, List.dropWhile, hdot, hhi u hu]
    exact Rel.hi u hu h
  | more u hu h ih =>
    simp only [List.takeWhile, List.dropWhile, hdot, hhi u hu]
    exact Rel.more u hu h

theorem rel_length {s : Str} {t : Bytes} (h : Rel s t) : s.length ≤ t.length := by
  induction h with
  | nil => simp
  | ascii c hc h ih => simp; omega
  | hi u hu h ih => simp; omega
  | more u hu h ih => simp at *; omega

/-! ### segments -/

theorem lexCmp_map (l r : Str) : lexCmp l r = strcmp (l.map Char.toNat) (r.map Char.toNat) := by
  induction l generalizing r with
  | nil => cases r <;> simp [lexCmp, strcmp]
  | cons x xs ih =>
    cases r with
    | nil => simp [lexCmp, strcmp]
    | cons y ys => simp only [lexCmp, strcmp, List.map_cons, char_lt_iff, ih]

theorem stripZeros_map (l : Str) :
    (stripZeros l).map Char.toNat = (l.map Char.toNat).dropWhile (· == zero) := by
  induction l with
  | nil => rfl
  | cons x xs ih =>
    have h : (x = '0') = (x.toNat = 48) := by simp [← Char.toNat_inj]
    simp only [stripZeros, List.map_cons, List.dropWhile, zero, h]
    by_cases hx : x.toNat = 48
    · simp [hx, ih, zero]
    · have hb : (x.toNat == 48) = false := by simp [hx]
      simp [hx, hb]

theorem segCmp_map (n : Bool) (l r : Str) :
    segCmp n l r = bsegCmp n (l.map Char.toNat) (r.map Char.toNat) := by
  unfold segCmp bsegCmp
  cases n
  · simp only [Bool.false_eq_true, if_false]; exact lexCmp_map l r
  · simp only [if_true, ← stripZeros_map, List.length_map, lexCmp_map]

/-! ### one iteration, then the loop -/

theorem isDigit_dot : isDigit '.' = false := by decide
theorem isAlpha_dot : isAlpha '.' = false := by decide

theorem step_eq_bstep (r : Str → Str → Int) (r' : Bytes → Bytes → Int)
    (hr : ∀ x y x' y', Rel x x' → Rel y y' → r x y = r' x' y')
    {s₁ s₂ : Str} {t₁ t₂ : Bytes} (h₁ : Rel s₁ t₁) (h₂ : Rel s₂ t₂) :
    step r s₁ s₂ = bstep r' t₁ t₂ := by
  unfold step bstep
  rw [← rel_cls h₁, ← rel_cls h₂]
  have td₁ := rel_takeWhile isDigit risdigit risdigit_toNat isDigit_dot (fun _ => hi_not_digit) h₁
  have td₂ := rel_takeWhile isDigit risdigit risdigit_toNat isDigit_dot (fun _ => hi_not_digit) h₂
  have ta₁ := rel_takeWhile isAlpha risalpha risalpha_toNat isAlpha_dot (fun _ => hi_not_alpha) h₁
  have ta₂ := rel_takeWhile isAlpha risalpha risalpha_toNat isAlpha_dot (fun _ => hi_not_alpha) h₂
  have dd₁ := rel_drop isDigit risdigit risdigit_toNat isDigit_dot (fun _ => hi_not_digit) h₁
  have dd₂ := rel_drop isDigit risdigit risdigit_toNat isDigit_dot (fun _ => hi_not_digit) h₂
  have da₁ := rel_drop isAlpha risalpha risalpha_toNat isAlpha_dot (fun _ => hi_not_alpha) h₁
  have da₂ := rel_drop isAlpha risalpha risalpha_toNat isAlpha_dot (fun _ => hi_not_alpha) h₂
  cases ha : cls s₁ <;> cases hb : cls s₂ <;> simp only [] <;>
    first
    | rfl
    | exact hr _ _ _ _ (rel_tail h₁ (by simp [ha])) (rel_tail h₂ (by simp [hb]))
    | skip
  · rw [td₁, td₂, ← segCmp_map, hr _ _ _ _ dd₁ dd₂]
  · rw [ta₁, ta₂, ← segCmp_map, hr _ _ _ _ da₁ da₂]

/-- the model's loop on the normalised characters and RPM's loop on the code units give the same
answer, at every fuel -/
theorem loop_eq_cmpLoop : ∀ (f : Nat) (s₁ s₂ : Str) (t₁ t₂ : Bytes), Rel s₁ t₁ → Rel s₂ t₂ →
    loop f s₁ s₂ = cmpLoop f t₁ t₂ := by
  intro f
  induction f with
  | zero => intro s₁ s₂ t₁ t₂ _ _; simp [loop, cmpLoop]
  | succ f ih =>
    intro s₁ s₂ t₁ t₂ h₁ h₂
    rw [loop_succ, cmpLoop_succ]
    exact step_eq_bstep _ _ ih (rel_skip h₁) (rel_skip h₂)

/-! ### every code-unit string is related to some character string: laws of the reference loop -/

/-- one character per code unit: the unit itself below 128, `'.'` otherwise -/
def unitChar (u : Nat) : Char := if u < 128 then Char.ofNat u else '.'

theorem toNat_ofNat_small (u : Nat) (h : u < 128) : (Char.ofNat u).toNat = u := by
  have hv : u.isValidChar := Or.inl (by omega)
  unfold Char.ofNat
  rw [dif_pos hv]
  simp [Char.ofNatAux, Char.toNat]

theorem rel_unitChar (t : Bytes) : Rel (t.map unitChar) t := by
  induction t with
  | nil => exact Rel.nil
  | cons u t ih =>
    simp only [List.map_cons, unitChar]
    split
    · rename_i h
      have e := toNat_ofNat_small u h
      have := Rel.ascii (Char.ofNat u) (by omega) ih
      rwa [e] at this
    · exact Rel.hi u (by omega) ih

theorem cmpLoop_refl (f : Nat) (t : Bytes) : cmpLoop f t t = 0 := by
  rw [← loop_eq_cmpLoop f _ _ _ _ (rel_unitChar t) (rel_unitChar t)]; exact loop_refl _ _

/-- the reference's own fuel: any fuel above |a| + |b| gives the same answer, so the
`fuel = 0` branch of `cmpLoop` is never the reason for a result of `Reference.rpmvercmp` -/
theorem cmpLoop_fuel (f g : Nat) (a b : Bytes) (hf : a.length + b.length < f)
    (hg : a.length + b.length < g) : cmpLoop f a b = cmpLoop g a b := by
  rw [← loop_eq_cmpLoop f _ _ _ _ (rel_unitChar a) (rel_unitChar b),
      ← loop_eq_cmpLoop g _ _ _ _ (rel_unitChar a) (rel_unitChar b)]
  exact loop_fuel _ _ _ _ (by simpa using hf) (by simpa using hg)

/-! ### the encoding -/

theorem rel_run (run : Bytes) (hne : run ≠ []) (hall : ∀ u ∈ run, 128 ≤ u) {s : Str} {t : Bytes}
    (h : Rel s t) : Rel ('.' :: s) (run ++ t) := by
  induction run with
  | nil => exact absurd rfl hne
  | cons u us ih =>
    cases us with
    | nil => exact Rel.hi u (hall u (by simp)) h
    | cons v vs =>
      exact Rel.more u (hall u (by simp)) (ih (by simp) (fun w hw => hall w (by simp [hw])))

theorem rel_norm (enc : Char → List Nat) (hlo : ∀ c : Char, c.toNat < 128 → enc c = [c.toNat])
    (hhi : ∀ c : Char, 128 ≤ c.toNat → enc c ≠ [] ∧ ∀ u ∈ enc c, 128 ≤ u) (a : Str) :
    Rel (norm a) (a.flatMap enc) := by
  induction a with
  | nil => exact Rel.nil
  | cons c cs ih =>
    simp only [norm, List.map_cons, List.flatMap_cons] at *
    split
    · rename_i h
      rw [hlo c h]
      exact Rel.ascii c h ih
    · rename_i h
      exact rel_run _ (hhi c (by omega)).1 (hhi c (by omega)).2 ih

end IV.Rpm
