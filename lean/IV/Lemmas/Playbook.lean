/-
Injectivity of the playbook serializer (IV/Model/Playbook.lean) via its total decoder:
`decode (ser v ++ rest) = some (v, rest)` whenever `rest` cannot extend a digit run, hence
`ser` is injective and prefix-free.

The model's `size` over-counts (`size (.seq []) = 3 > |"[]"|`), so the fuel argument goes through
the tighter measure `need` defined here (`need v ≤ size v`, `need v ≤ |ser v|`); the statements
with `size` are corollaries.
-/
import IV.Model.Playbook

namespace IV.Playbook

/-- the rest after a token cannot extend a digit run -/
def Safe (r : Str) : Prop := ∀ c r', r = c :: r' → isDig c = false

theorem safe_nil : Safe [] := by intro c r' h; simp at h
theorem safe_comma (r : Str) : Safe (',' :: r) := by
  intro c r' h; simp at h; rw [← h.1]; decide
theorem safe_rbracket (r : Str) : Safe (']' :: r) := by
  intro c r' h; simp at h; rw [← h.1]; decide
theorem safe_rparen (r : Str) : Safe (')' :: r) := by
  intro c r' h; simp at h; rw [← h.1]; decide

/-! ### string tokens -/

theorem decBody_cons (q c : Char) (r : Str) : decBody q (c :: r) =
    if c = '\\' then
      match r with
      | [] => none
      | d :: r1 =>
        if d = '\\' then push '\\' (decBody q r1)
        else if d = 'n' then push '\n' (decBody q r1)
        else if d = 't' then push '\t' (decBody q r1)
        else if d = '\'' then push '\'' (decBody q r1)
        else if d = 'u' then
          match r1 with
          | a :: b :: c' :: e :: r2 =>
            if a = '2' ∧ b = '0' ∧ c' = '0' then
              if e = 'b' then push '\u200b' (decBody q r2)
              else if e = 'c' then push '\u200c' (decBody q r2)
              else if e = 'd' then push '\u200d' (decBody q r2)
              else none
            else none
          | _ => none
        else none
    else if c = q then some ([], r)
    else push c (decBody q r) := by
  conv => lhs; unfold decBody
  rfl

/-- one source character: its escape decodes back to it (for either quote) -/
theorem decBody_escChar (q c : Char) (hc : c ≠ q) (t : Str) :
    decBody q (escChar c ++ t) = push c (decBody q t) := by
  unfold escChar
  split
  · subst_vars; simp [decBody_cons]
  split
  · subst_vars; simp [decBody_cons]
  split
  · subst_vars; simp [decBody_cons]
  split
  · subst_vars; simp [decBody_cons]
  split
  · subst_vars; simp [decBody_cons]
  split
  · subst_vars; simp [decBody_cons]
  · rename_i h1 _ _ _ _ _
    simp [decBody_cons, h1, hc]

theorem hasChar_append (q : Char) (a b : Str) :
    hasChar q (a ++ b) = (hasChar q a || hasChar q b) := by
  induction a with
  | nil => simp [hasChar]
  | cons c cs ih => simp only [List.cons_append, hasChar]; split <;> simp [ih]

theorem hasChar_escChar (q : Char) (hq : q = '\'' ∨ q = '"') (c : Char) :
    hasChar q (escChar c) = hasChar q [c] := by
  unfold escChar
  rcases hq with rfl | rfl <;> (repeat' split) <;> subst_vars <;> first | rfl | decide

theorem hasChar_escape (q : Char) (hq : q = '\'' ∨ q = '"') (s : Str) :
    hasChar q (escape s) = hasChar q s := by
  induction s with
  | nil => rfl
  | cons c cs ih =>
    rw [escape, hasChar_append, hasChar_escChar q hq, ih]
    simp only [hasChar]; split <;> simp

theorem decBody_escape (q : Char) (hq : q = '\'' ∨ q = '"') (s t : Str) (h : hasChar q s = false) :
    decBody q (escape s ++ q :: t) = some (s, t) := by
  induction s with
  | nil =>
    have hq' : q ≠ '\\' := by rcases hq with rfl | rfl <;> decide
    simp [escape, decBody_cons, hq']
  | cons c cs ih =>
    simp only [hasChar] at h
    split at h
    · simp at h
    · rename_i hc
      simp only [escape, List.append_assoc]
      rw [decBody_escChar q c hc, ih h]; rfl

theorem replaceQuote_append (a b : Str) :
    replaceQuote (a ++ b) = replaceQuote a ++ replaceQuote b := by
  induction a with
  | nil => simp [replaceQuote]
  | cons c cs ih => simp only [List.cons_append, replaceQuote]; split <;> simp [ih]

theorem replaceQuote_escChar (c : Char) :
    replaceQuote (escChar c) = if c = '\'' then ['\\', '\''] else escChar c := by
  split
  · subst_vars; decide
  · rename_i hc
    unfold escChar
    (repeat' split) <;> simp [replaceQuote, hc]

theorem decBody_replaceQuote (s t : Str) :
    decBody '\'' (replaceQuote (escape s) ++ '\'' :: t) = some (s, t) := by
  induction s with
  | nil => simp [escape, replaceQuote, decBody_cons]
  | cons c cs ih =>
    simp only [escape, replaceQuote_append, replaceQuote_escChar, List.append_assoc]
    split
    · subst_vars
      simp [decBody_cons, ih, push]
    · rename_i hc
      rw [decBody_escChar '\'' c hc, ih]; rfl

/-! ### integers -/

theorem digitChar_toNat (n : Nat) : (digitChar n).toNat = 48 + n % 10 := by
  have h : ∀ k, k < 10 → (Char.ofNat (48 + k)).toNat = 48 + k := by decide
  exact h (n % 10) (Nat.mod_lt _ (by decide))

theorem isDig_digitChar (n : Nat) : isDig (digitChar n) = true := by
  simp [isDig, digitChar_toNat]; omega

theorem foldl_natStrAux (fuel n : Nat) (acc : Str) (h : n < fuel) :
    (natStrAux fuel n acc).foldl (fun a c => a * 10 + (c.toNat - 48)) 0
      = acc.foldl (fun a c => a * 10 + (c.toNat - 48)) n := by
  induction fuel generalizing n acc with
  | zero => omega
  | succ f ih =>
    simp only [natStrAux]
    split
    · simp only [List.foldl_cons, digitChar_toNat]; congr 1; omega
    · rw [ih _ _ (by omega)]; simp only [List.foldl_cons, digitChar_toNat]; congr 1; omega

theorem parseNat_natStr (n : Nat) : parseNat (natStr n) = n := by
  simp [parseNat, natStr, foldl_natStrAux (n + 1) n [] (by omega)]

theorem natStrAux_digits (fuel n : Nat) (acc : Str) (hacc : ∀ c ∈ acc, isDig c = true) :
    ∀ c ∈ natStrAux fuel n acc, isDig c = true := by
  induction fuel generalizing n acc with
  | zero => simpa [natStrAux] using hacc
  | succ f ih =>
    have hd : ∀ c ∈ digitChar n :: acc, isDig c = true := by
      intro c hc
      rcases List.mem_cons.mp hc with rfl | hc
      · exact isDig_digitChar n
      · exact hacc c hc
    simp only [natStrAux]
    split
    · exact hd
    · exact ih _ _ hd

theorem natStrAux_ne_nil (fuel n : Nat) (acc : Str) (h : acc ≠ []) : natStrAux fuel n acc ≠ [] := by
  induction fuel generalizing n acc with
  | zero => simpa [natStrAux] using h
  | succ f ih =>
    simp only [natStrAux]
    split
    · simp
    · exact ih _ _ (by simp)

theorem natStr_digits (n : Nat) : natStr n ≠ [] ∧ ∀ c ∈ natStr n, isDig c = true := by
  refine ⟨?_, natStrAux_digits _ _ _ (by simp)⟩
  simp only [natStr, natStrAux]
  split
  · simp
  · exact natStrAux_ne_nil _ _ _ (by simp)

theorem spanDig_append (ds r : Str) (hd : ∀ c ∈ ds, isDig c = true) (hs : Safe r) :
    spanDig (ds ++ r) = (ds, r) := by
  induction ds with
  | nil =>
    cases r with
    | nil => rfl
    | cons c cs => simp [spanDig, hs c cs rfl]
  | cons d ds ih =>
    simp [spanDig, hd d (by simp), ih (fun c hc => hd c (by simp [hc]))]

theorem decNat_natStr (n : Nat) (rest : Str) (hs : Safe rest) :
    decNat (natStr n ++ rest) = some (n, rest) := by
  have hne := (natStr_digits n).1
  have hp := parseNat_natStr n
  rw [decNat, spanDig_append _ _ (natStr_digits n).2 hs]
  revert hne hp
  generalize natStr n = ds
  intro hne hp
  cases ds with
  | nil => exact absurd rfl hne
  | cons d t => simp [hp]

/-- a digit is none of the characters the decoder dispatches on -/
theorem isDig_ne (c : Char) (h : isDig c = true) :
    c ≠ '\'' ∧ c ≠ '"' ∧ c ≠ 'T' ∧ c ≠ 'F' ∧ c ≠ 'N' ∧ c ≠ '-' ∧
    c ≠ '[' ∧ c ≠ 'o' ∧ c ≠ ']' ∧ c ≠ ')' ∧ c ≠ '(' := by
  refine ⟨?_, ?_, ?_, ?_, ?_, ?_, ?_, ?_, ?_, ?_, ?_⟩ <;> (rintro rfl; revert h; decide)

theorem natStr_head (n : Nat) : ∃ d t, natStr n = d :: t ∧ isDig d = true := by
  have h := natStr_digits n
  revert h
  generalize natStr n = ds
  intro h
  cases ds with
  | nil => exact absurd rfl h.1
  | cons d t => exact ⟨d, t, rfl, h.2 d (by simp)⟩

theorem stripPrefix_append (p r : Str) : stripPrefix p (p ++ r) = some r := by
  induction p with
  | nil => cases r <;> rfl
  | cons c cs ih => simp [stripPrefix, ih]

/-! ### scalars -/

theorem decScalar_cons (c : Char) (r : Str) : decScalar (c :: r) =
    if c = '\'' ∨ c = '"' then
      match decBody c r with
      | some (s, r') => some (.str s, r')
      | none => none
    else if c = 'T' then
      match stripPrefix ['r', 'u', 'e'] r with
      | some r' => some (.bool true, r')
      | none => none
    else if c = 'F' then
      match stripPrefix ['a', 'l', 's', 'e'] r with
      | some r' => some (.bool false, r')
      | none => none
    else if c = 'N' then
      match stripPrefix ['o', 'n', 'e'] r with
      | some r' => some (.none, r')
      | none => none
    else if c = '-' then
      match decNat r with
      | some (n, r') => some (.int (-(n : Int)), r')
      | none => none
    else
      match decNat (c :: r) with
      | some (n, r') => some (.int (n : Int), r')
      | none => none := rfl

theorem decScalar_strTok (s rest : Str) : decScalar (strTok s ++ rest) = some (.str s, rest) := by
  unfold strTok
  simp only []
  split
  · rename_i h1
    split
    · rename_i h2
      have h2' : hasChar '"' s = false := by
        rw [hasChar_escape '"' (Or.inr rfl)] at h2; simpa using h2
      simp [decScalar_cons, decBody_escape '"' (Or.inr rfl) s rest h2']
    · simp [decScalar_cons, decBody_replaceQuote s rest]
  · rename_i h1
    have h1' : hasChar '\'' s = false := by
      rw [hasChar_escape '\'' (Or.inl rfl)] at h1; simpa using h1
    simp [decScalar_cons, decBody_escape '\'' (Or.inl rfl) s rest h1']

theorem decScalar_ser (s : Scalar) (rest : Str) (hs : Safe rest) :
    decScalar (serScalar s ++ rest) = some (s, rest) := by
  cases s with
  | str s => exact decScalar_strTok s rest
  | int n =>
    cases n with
    | ofNat n =>
      obtain ⟨d, t, hdt, hd⟩ := natStr_head n
      obtain ⟨h1, h2, h3, h4, h5, h6, -⟩ := isDig_ne d hd
      have hn := decNat_natStr n rest hs
      simp only [serScalar, intStr]
      rw [hdt] at hn ⊢
      simp only [List.cons_append] at hn ⊢
      simp [decScalar_cons, h1, h2, h3, h4, h5, h6, hn]
    | negSucc n =>
      have hn := decNat_natStr (n + 1) rest hs
      simp only [serScalar, intStr, List.cons_append]
      simp [decScalar_cons, hn]
      omega
  | bool b => cases b <;> simp [serScalar, decScalar_cons, stripPrefix]
  | none => simp [serScalar, decScalar_cons, stripPrefix]

/-- first character of a scalar token: the dispatch in `dec` goes to the scalar branch, and a
scalar never starts with a closing bracket or an opening parenthesis -/
theorem serScalar_head (s : Scalar) (rest : Str) :
    ∃ c t, serScalar s ++ rest = c :: t ∧ c ≠ '[' ∧ c ≠ 'o' ∧ c ≠ ']' ∧ c ≠ ')' ∧ c ≠ '(' := by
  cases s with
  | str s =>
    simp only [serScalar, strTok]
    split
    · split
      · exact ⟨'"', _, rfl, by decide⟩
      · exact ⟨'\'', _, rfl, by decide⟩
    · exact ⟨'\'', _, rfl, by decide⟩
  | int n =>
    cases n with
    | ofNat n =>
      obtain ⟨d, t, hdt, hd⟩ := natStr_head n
      obtain ⟨-, -, -, -, -, -, h1, h2, h3, h4, h5⟩ := isDig_ne d hd
      exact ⟨d, t ++ rest, by simp [serScalar, intStr, hdt], h1, h2, h3, h4, h5⟩
    | negSucc n => exact ⟨'-', _, rfl, by decide⟩
  | bool b =>
    cases b
    · exact ⟨'F', _, rfl, by decide⟩
    · exact ⟨'T', _, rfl, by decide⟩
  | none => exact ⟨'N', _, rfl, by decide⟩

/-- no serialisation starts with `]` -/
theorem ser_head (v : PVal) (rest : Str) : ∃ c t, ser v ++ rest = c :: t ∧ c ≠ ']' := by
  cases v with
  | sc s =>
    obtain ⟨c, t, h, -, -, h3, -⟩ := serScalar_head s rest
    exact ⟨c, t, by simpa [ser] using h, h3⟩
  | seq xs => exact ⟨'[', _, by simp only [ser, List.cons_append]; rfl, by decide⟩
  | map kvs =>
    cases kvs with
    | nil => exact ⟨'o', _, by simp only [ser, odOpen, List.cons_append]; rfl, by decide⟩
    | cons kv r => exact ⟨'o', _, by simp only [ser, odOpen, List.cons_append]; rfl, by decide⟩

theorem serList_head (x : PVal) (r : List PVal) (rest : Str) :
    ∃ c t, serList (x :: r) ++ rest = c :: t ∧ c ≠ ']' := by
  cases r with
  | nil => simpa [serList] using ser_head x rest
  | cons y r' =>
    obtain ⟨c, t, h, hc⟩ := ser_head x (',' :: ' ' :: serList (y :: r') ++ rest)
    exact ⟨c, t, by simpa [serList, List.append_assoc] using h, hc⟩

/-! ### one unfolding step of the fuelled decoder -/

theorem dec_cons (f : Nat) (c : Char) (r : Str) : dec (f + 1) (c :: r) =
    if c = '[' then
      match r with
      | ']' :: r' => some (.seq [], r')
      | _ =>
        match decList f r with
        | some (xs, ']' :: r') => some (.seq xs, r')
        | _ => none
    else if c = 'o' then
      match stripPrefix odOpen.tail r with
      | some (')' :: r') => some (.map [], r')
      | some ('[' :: r1) =>
        (match decPairs f r1 with
         | some (kvs, ']' :: ')' :: r') => some (.map kvs, r')
         | _ => none)
      | _ => none
    else
      match decScalar (c :: r) with
      | some (s, r') => some (.sc s, r')
      | none => none := by
  conv => lhs; unfold dec
  rfl

theorem decList_succ (f : Nat) (s : Str) : decList (f + 1) s =
    match dec f s with
    | some (x, ',' :: ' ' :: r) =>
      (match decList f r with
       | some (xs, r') => some (x :: xs, r')
       | none => none)
    | some (x, r) => some ([x], r)
    | none => none := by
  conv => lhs; unfold decList
  rfl

theorem decPairs_cons (f : Nat) (c : Char) (s : Str) : decPairs (f + 1) (c :: s) =
    if c = '(' then
      match decScalar s with
      | some (k, ',' :: ' ' :: r) =>
        (match dec f r with
         | some (v, ')' :: ',' :: ' ' :: r') =>
           (match decPairs f r' with
            | some (kvs, r'') => some ((k, v) :: kvs, r'')
            | none => none)
         | some (v, ')' :: r') => some ([(k, v)], r')
         | _ => none)
      | _ => none
    else none := by
  conv => lhs; unfold decPairs
  rfl

/-! ### the decoder is a left inverse of the serializer -/

mutual
theorem dec_ser : ∀ (v : PVal) (f : Nat) (rest : Str), Safe rest → need v ≤ f →
    dec f (ser v ++ rest) = some (v, rest)
  | .sc s, f, rest, hs, hf => by
    cases f with
    | zero => simp [need] at hf
    | succ f =>
      obtain ⟨c, t, hct, h1, h2, -⟩ := serScalar_head s rest
      have hd := decScalar_ser s rest hs
      simp only [ser]
      rw [hct] at hd ⊢
      rw [dec_cons]
      simp [h1, h2, hd]
  | .seq [], f, rest, _, hf => by
    cases f with
    | zero => simp [need] at hf
    | succ f => simp [ser, serList, dec_cons]
  | .seq (x :: r), f, rest, _, hf => by
    cases f with
    | zero => simp [need] at hf
    | succ f =>
      simp only [need] at hf
      have hl := decList_ser (x :: r) f rest (by simp) (by omega)
      obtain ⟨c, t, hct, hc⟩ := serList_head x r (']' :: rest)
      have e : ser (.seq (x :: r)) ++ rest = '[' :: (serList (x :: r) ++ ']' :: rest) := by
        simp [ser]
      rw [e, dec_cons]
      rw [hct] at hl ⊢
      simp only [if_true]
      split
      · rename_i heq; simp at heq; exact absurd heq.1 hc
      · rw [hl]; rfl
  | .map [], f, rest, _, hf => by
    cases f with
    | zero => simp [need] at hf
    | succ f => simp [ser, odOpen, dec_cons, stripPrefix]
  | .map (kv :: r), f, rest, _, hf => by
    cases f with
    | zero => simp [need] at hf
    | succ f =>
      simp only [need] at hf
      have hp := decPairs_ser (kv :: r) f (')' :: rest) (by simp) (by omega)
      have e : ser (.map (kv :: r)) ++ rest
          = 'o' :: (odOpen.tail ++ '[' :: (serPairs (kv :: r) ++ ']' :: ')' :: rest)) := by
        simp [ser, odOpen]
      rw [e, dec_cons, stripPrefix_append]
      simp [hp]
theorem decList_ser : ∀ (xs : List PVal) (f : Nat) (rest : Str), xs ≠ [] → needL xs ≤ f →
    decList f (serList xs ++ ']' :: rest) = some (xs, ']' :: rest)
  | [], _, _, hne, _ => absurd rfl hne
  | [x], f, rest, _, hf => by
    cases f with
    | zero => simp [needL] at hf
    | succ f =>
      simp only [needL] at hf
      simp only [serList]
      rw [decList_succ, dec_ser x f (']' :: rest) (safe_rbracket rest) (by omega)]
      rfl
  | x :: y :: r, f, rest, _, hf => by
    cases f with
    | zero => simp [needL] at hf
    | succ f =>
      simp only [needL] at hf
      have hl := decList_ser (y :: r) f rest (by simp) (by simp only [needL]; omega)
      have e : serList (x :: y :: r) ++ ']' :: rest
          = ser x ++ ',' :: ' ' :: (serList (y :: r) ++ ']' :: rest) := by
        simp [serList]
      rw [e, decList_succ, dec_ser x f _ (safe_comma _) (by omega)]
      simp only []
      rw [hl]
theorem decPairs_ser : ∀ (kvs : List (Scalar × PVal)) (f : Nat) (rest : Str), kvs ≠ [] →
    needP kvs ≤ f → decPairs f (serPairs kvs ++ ']' :: rest) = some (kvs, ']' :: rest)
  | [], _, _, hne, _ => absurd rfl hne
  | [(k, v)], f, rest, _, hf => by
    cases f with
    | zero => simp [needP] at hf
    | succ f =>
      simp only [needP] at hf
      have e : serPairs [(k, v)] ++ ']' :: rest
          = '(' :: (serScalar k ++ ',' :: ' ' :: (ser v ++ ')' :: ']' :: rest)) := by
        simp [serPairs]
      rw [e, decPairs_cons, decScalar_ser k _ (safe_comma _)]
      simp only [if_true]
      rw [dec_ser v f _ (safe_rparen _) (by omega)]
      rfl
  | (k, v) :: y :: r, f, rest, _, hf => by
    cases f with
    | zero => simp [needP] at hf
    | succ f =>
      simp only [needP] at hf
      have hp := decPairs_ser (y :: r) f rest (by simp) (by simp only [needP]; omega)
      have e : serPairs ((k, v) :: y :: r) ++ ']' :: rest
          = '(' :: (serScalar k ++ ',' :: ' ' ::
              (ser v ++ ')' :: ',' :: ' ' :: (serPairs (y :: r) ++ ']' :: rest))) := by
        simp [serPairs]
      rw [e, decPairs_cons, decScalar_ser k _ (safe_comma _)]
      simp only [if_true]
      rw [dec_ser v f _ (safe_rparen _) (by omega)]
      simp only []
      rw [hp]
end

/-! ### the fuel of `decode` suffices -/

theorem serScalar_length_pos (s : Scalar) : 1 ≤ (serScalar s).length := by
  obtain ⟨c, t, h, -⟩ := serScalar_head s []
  rw [List.append_nil] at h
  rw [h]; simp

mutual
theorem need_le_length : ∀ v : PVal, need v ≤ (ser v).length
  | .sc s => by simpa [need, ser] using serScalar_length_pos s
  | .seq xs => by
    have := needL_le_length xs
    simp only [need, ser, List.length_cons, List.length_append, List.length_nil]; omega
  | .map [] => by simp [need, needP, ser, odOpen]
  | .map (kv :: r) => by
    have := needP_le_length (kv :: r)
    simp only [need, ser, odOpen, List.length_cons, List.length_append, List.length_nil]; omega
theorem needL_le_length : ∀ xs : List PVal, needL xs ≤ (serList xs).length + 1
  | [] => by simp [needL]
  | [x] => by
    have := need_le_length x
    simp only [needL, serList]; omega
  | x :: y :: r => by
    have := need_le_length x
    have := needL_le_length (y :: r)
    simp only [needL, serList, List.length_cons, List.length_append] at *; omega
theorem needP_le_length : ∀ kvs : List (Scalar × PVal), needP kvs ≤ (serPairs kvs).length + 1
  | [] => by simp [needP]
  | [(k, v)] => by
    have := need_le_length v
    simp only [needP, serPairs, List.length_cons, List.length_append, List.length_nil]; omega
  | (k, v) :: y :: r => by
    have := need_le_length v
    have := needP_le_length (y :: r)
    simp only [needP, serPairs, List.length_cons, List.length_append] at *; omega
end

theorem decode_ser (v : PVal) (rest : Str) (hs : Safe rest) :
    decode (ser v ++ rest) = some (v, rest) := by
  have := need_le_length v
  exact dec_ser v _ rest hs (by simp only [List.length_append]; omega)

/-- no serialisation is a proper prefix of another one followed by a safe rest -/
theorem ser_prefix_free (p q : PVal) (r1 r2 : Str) (h1 : Safe r1) (h2 : Safe r2)
    (h : ser p ++ r1 = ser q ++ r2) : p = q ∧ r1 = r2 := by
  have e1 := decode_ser p r1 h1
  have e2 := decode_ser q r2 h2
  rw [h, e2] at e1
  injection e1 with e1
  injection e1 with hp hr
  exact ⟨hp.symm, hr.symm⟩

theorem ser_injective (p q : PVal) (h : ser p = ser q) : p = q :=
  (ser_prefix_free p q [] [] safe_nil safe_nil (by rw [List.append_nil, List.append_nil, h])).1

end IV.Playbook
