import IV.Lemmas.CleanLine
import IV.Lemmas.CleanPassword
/-!
C08 — glue lemmas about `cleanLine` / `runStages` used by the property theorems.
-/
namespace IV.CleanLine

theorem chars_ins (s : Str) : chars (ins s) = s := by
  induction s with
  | nil => rfl
  | cons c cs ih => simp_all [chars, ins]

theorem chars_append (a b : PStr) : chars (a ++ b) = chars a ++ chars b := by simp [chars]

/-! ### helpers about `cleanLine` -/

theorem allOrig_orig (s : Str) : allOrig (orig s) := by
  intro x hx
  simp only [orig, List.mem_map] at hx
  obtain ⟨_, _, rfl⟩ := hx
  rfl

theorem noOrigOcc_nil {k : Str} (hk : k ≠ []) : NoOrigOcc k [] := by
  intro pre w post e _ hc
  have e' : pre ++ w ++ post = [] := e.symm
  simp at e'
  rw [e'.2.1] at hc
  exact hk (by simpa [chars] using hc.symm)

theorem runStages_append_ok {cfg : Cfg} {tb : Tables} {wd : Bool} {v6 : List Str} {a b : List Stage}
    {l out : PStr} (h : runStages cfg tb wd v6 (a ++ b) l = .ok out) :
    ∃ l1, runStages cfg tb wd v6 a l = .ok l1 ∧ runStages cfg tb wd v6 b l1 = .ok out := by
  rw [runStages_append] at h
  split at h
  · rename_i l1 h1; exact ⟨l1, h1, h⟩
  · simp at h

/-- what `cleanLine` does with a line that is kept: the truncated line passed the pattern stage (unless
the call is exempt) and the allow list, then went through the stages -/
theorem cleanLine_kept {hit : Pat → Str → Bool} {cfg : Cfg} {tb : Tables} {call : Call} {allow a' : Option Allow}
    {line : Str} {v6 : List Str} {out : PStr}
    (h : cleanLine hit cfg tb call allow line v6 = .ok (a', some out)) :
    runStages cfg tb call.width v6 (stagesOf cfg call) (orig (line.take cfg.maxLen)) = .ok out ∧
    (call.noRedact = false → patternStage hit cfg.pats (some (orig (line.take cfg.maxLen))) =
      some (orig (line.take cfg.maxLen))) := by
  unfold cleanLine at h
  simp only at h
  -- the pattern stage returns its argument or none
  have hps : ∀ x, patternStage hit cfg.pats (some (orig (line.take cfg.maxLen))) = some x →
      x = orig (line.take cfg.maxLen) := by
    intro x hx
    unfold patternStage at hx
    simp only at hx
    split at hx <;> first | (simp at hx; exact hx.symm) | (split at hx <;> simp at hx; exact hx.symm)
  have has : ∀ (a : Allow) (y : Option PStr) (x : PStr), (allowStage a y).2 = some x → y = some x := by
    intro a y x hx
    unfold allowStage at hx
    split at hx
    · simp at hx
    · split at hx
      · simpa using hx
      · split at hx <;> simp at hx
        simpa using hx
  -- l2 = some l  ⇒  l1 = some l
  generalize hl1 : (if call.noRedact then some (orig (line.take cfg.maxLen))
      else patternStage hit cfg.pats (some (orig (line.take cfg.maxLen)))) = l1 at h
  cases allow with
  | none =>
    simp only at h
    cases l1 with
    | none => simp [pure, Except.pure] at h
    | some l =>
      simp only at h
      split at h
      · rename_i o ho
        simp [pure, Except.pure] at h
        obtain ⟨_, rfl⟩ := h
        cases hnr : call.noRedact with
        | true =>
          rw [hnr] at hl1; simp at hl1; subst hl1
          exact ⟨ho, by simp⟩
        | false =>
          rw [hnr] at hl1; simp at hl1
          have := hps l hl1; subst this
          exact ⟨ho, fun _ => hl1⟩
      · simp at h
  | some a =>
    simp only at h
    cases hl2 : (allowStage a l1).2 with
    | none => rw [hl2] at h; simp [pure, Except.pure] at h
    | some l =>
      rw [hl2] at h
      simp only at h
      have := has a l1 l hl2
      subst this
      split at h
      · rename_i o ho
        simp [pure, Except.pure] at h
        obtain ⟨_, rfl⟩ := h
        cases hnr : call.noRedact with
        | true =>
          rw [hnr] at hl1; simp at hl1; subst hl1
          exact ⟨ho, by simp⟩
        | false =>
          rw [hnr] at hl1; simp at hl1
          have := hps l hl1; subst this
          exact ⟨ho, fun _ => hl1⟩
      · simp at h

/-- an all-original occurrence of a text contains one of each of its prefixes -/
theorem NoOrigOcc.append {k : Str} (r : Str) {s : PStr} (h : NoOrigOcc k s) : NoOrigOcc (k ++ r) s := by
  intro pre w post e hw hc
  have hw' : w = w.take k.length ++ w.drop k.length := (List.take_append_drop _ _).symm
  refine h pre (w.take k.length) (w.drop k.length ++ post) ?_ ?_ ?_
  · rw [e, List.append_assoc, List.append_assoc, ← List.append_assoc (w.take k.length), List.take_append_drop]
  · intro x hx; exact hw x (List.mem_of_mem_take hx)
  · have : chars (w.take k.length) = (chars w).take k.length := by simp [chars, List.map_take]
    rw [this, hc]; simp

theorem macTok_ne_nil {t : Str} (h : MacTok t) : t ≠ [] := by
  obtain ⟨s, a0, a1, b0, b1, c0, c1, d0, d1, e0, e1, f0, f1, _, _, _, _, _, _, _, _, _, _, _, _, _, rfl⟩ := h
  simp

/-- a table all of whose substitutes are non-empty (a decidable check) is `TblOk` -/
theorem tblOk_of_all (t : List (Str × Str)) (h : t.all (fun kv => !kv.2.isEmpty) = true) : TblOk t := by
  induction t with
  | nil => intro k v hkv; simp [lookup] at hkv
  | cons a r ih =>
    obtain ⟨x, y⟩ := a
    simp only [List.all_cons, Bool.and_eq_true] at h
    intro k v hkv
    simp only [lookup] at hkv
    split at hkv
    · simp at hkv; subst hkv
      intro hv; simp [hv] at h
    · exact ih h.2 k v hkv

end IV.CleanLine
