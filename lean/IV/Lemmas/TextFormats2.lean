import IV.Lemmas.TextFormats
/-!
Lemmas for C15, second part: `str.split` undoes `str.join` (explicit delimiter string of any length,
with and without a split budget; white-space splitting), `parse_delimited_table` on rendered tables,
and the dictionary `IniConfigFile.parse_content` builds (last duplicate wins, repeated sections merge).
-/
namespace IV.TextFormats

/-! ### `split(sep)` undoes `sep.join` -/

theorem isPrefixOf_append_of_le (p : Str) : ∀ (u v : Str), p.length ≤ u.length →
    p.isPrefixOf (u ++ v) = p.isPrefixOf u := by
  induction p with
  | nil => intro u v _; simp [List.isPrefixOf]
  | cons x xs ih =>
    intro u v h
    cases u with
    | nil => simp at h
    | cons y ys =>
      simp only [List.cons_append, List.isPrefixOf]
      rw [ih ys v (by simpa using h)]

theorem contains_nil_right (d : Str) : contains d [] = d.isEmpty := rfl

theorem contains_cons (d : Str) (c : Char) (cs : Str) :
    contains d (c :: cs) = (d.isPrefixOf (c :: cs) || contains d cs) := rfl

/-- no occurrence in a text: none in a suffix -/
theorem contains_suffix (d : Str) : ∀ (a b : Str), contains d (a ++ b) = false → contains d b = false := by
  intro a
  induction a with
  | nil => intro b h; exact h
  | cons x xs ih =>
    intro b h
    simp only [List.cons_append, contains_cons, Bool.or_eq_false_iff] at h
    exact ih b h.2

/-- no occurrence in a text: none in a prefix -/
theorem contains_prefix (d : Str) (hd : d ≠ []) : ∀ (a b : Str), contains d (a ++ b) = false → contains d a = false := by
  intro a
  induction a with
  | nil =>
    intro b _
    cases d with
    | nil => exact absurd rfl hd
    | cons _ _ => rfl
  | cons x xs ih =>
    intro b h
    simp only [List.cons_append, contains_cons, Bool.or_eq_false_iff] at h
    simp only [contains_cons, Bool.or_eq_false_iff]
    refine ⟨?_, ih b h.2⟩
    by_cases hl : d.length ≤ (x :: xs).length
    · have := isPrefixOf_append_of_le d (x :: xs) b hl
      simp only [List.cons_append] at this
      rw [← this]; exact h.1
    · -- the separator is longer than the text
      cases hp : d.isPrefixOf (x :: xs) with
      | false => rfl
      | true =>
        have := (List.isPrefixOf_iff_prefix.mp hp).length_le
        omega

/-- a taken separator is skipped character by character -/
theorem splitGo_skip (d : Str) (b : Option Nat) : ∀ (pre rest : Str),
    splitGo d pre.length b (pre ++ rest) = splitGo d 0 b rest := by
  intro pre
  induction pre with
  | nil => intro rest; rfl
  | cons x xs ih => intro rest; simp only [List.length_cons, List.cons_append, splitGo]; exact ih rest

/-- the cell test for a delimiter string `d`: `d` does not occur in the cell followed by all but the
    last character of `d` — so the first occurrence of `d` in `cell ++ d ++ …` is the one written by
    `join` (for a one-character delimiter: the character is not in the cell) -/
def sepFree (d c : Str) : Bool := !contains d (c ++ d.dropLast)

theorem contains_char (ch : Char) (c : Str) : contains [ch] c = decide (ch ∈ c) := by
  induction c with
  | nil => simp [contains]
  | cons x xs ih =>
    simp only [contains_cons, ih, List.isPrefixOf, List.mem_cons]
    by_cases h : ch = x <;> simp [h]

theorem sepFree_char (ch : Char) (c : Str) : sepFree [ch] c = true ↔ ch ∉ c := by
  simp [sepFree, contains_char]

theorem sepFree_contains (d c : Str) (hd : d ≠ []) (h : sepFree d c = true) : contains d c = false := by
  simp only [sepFree, Bool.not_eq_true'] at h
  exact contains_prefix d hd _ _ h

/-- one cell followed by the delimiter: `split` cuts exactly there -/
theorem splitGo_cell (d : Str) (hd : d ≠ []) (b : Option Nat) (hb : b ≠ some 0) (rest : Str) :
    ∀ c : Str, sepFree d c = true →
      splitGo d 0 b (c ++ d ++ rest) = c :: splitGo d 0 (b.map (· - 1)) rest := by
  have hb' : (b != some 0) = true := by simpa using hb
  intro c
  induction c with
  | nil =>
    intro _
    cases d with
    | nil => exact absurd rfl hd
    | cons dh dt =>
      have hp : (dh :: dt).isPrefixOf (dh :: (dt ++ rest)) = true :=
        isPrefixOf_append_self (dh :: dt) rest
      simp only [List.nil_append, List.cons_append, splitGo, hb', hp, Bool.and_self, if_true,
        List.length_cons, Nat.add_sub_cancel]
      rw [splitGo_skip]
  | cons x xs ih =>
    intro h
    simp only [sepFree, Bool.not_eq_true', List.cons_append, contains_cons, Bool.or_eq_false_iff] at h
    have hxs : sepFree d xs = true := by simp [sepFree, h.2]
    have hlast : d = d.dropLast ++ [d.getLast hd] := (List.dropLast_concat_getLast hd).symm
    have e : x :: (xs ++ d ++ rest) = (x :: (xs ++ d.dropLast)) ++ ([d.getLast hd] ++ rest) := by
      conv => lhs; rw [hlast]
      simp
    have hlen : d.length ≤ (x :: (xs ++ d.dropLast)).length := by
      simp [List.length_dropLast]; omega
    have hp : d.isPrefixOf (x :: (xs ++ d ++ rest)) = false := by
      rw [e, isPrefixOf_append_of_le d _ _ hlen]; exact h.1
    simp only [List.cons_append, List.append_assoc] at hp ⊢
    simp only [splitGo, hp, Bool.and_false, Bool.false_eq_true, if_false]
    have := ih hxs
    simp only [List.append_assoc] at this
    rw [this]; rfl

/-- the last cell: nothing to cut -/
theorem splitGo_last (d : Str) (b : Option Nat) : ∀ c : Str, contains d c = false → splitGo d 0 b c = [c] := by
  intro c
  induction c with
  | nil => intro _; rfl
  | cons x xs ih =>
    intro h
    simp only [contains_cons, Bool.or_eq_false_iff] at h
    simp only [splitGo, h.1, Bool.and_false, Bool.false_eq_true, if_false, ih h.2]
    rfl

/-- the split budget `b` (`none` = unlimited) allows a line of `n` cells to be cut completely -/
def budgetOk (b : Option Nat) (n : Nat) : Bool :=
  match b with
  | none => true
  | some m => n ≤ m + 1

/-- SPLIT UNDOES JOIN: for a non-empty delimiter string and cells that pass `sepFree`, with an
    unlimited or sufficient split budget -/
theorem splitSep_joinStr (d : Str) (hd : d ≠ []) : ∀ (cells : List Str) (b : Option Nat), cells ≠ [] →
    (∀ c ∈ cells, sepFree d c = true) → budgetOk b cells.length = true →
    splitSep d b (joinStr d cells) = cells := by
  intro cells
  induction cells with
  | nil => intro _ h; exact absurd rfl h
  | cons c rest ih =>
    intro b _ hc hb
    cases rest with
    | nil =>
      simp only [joinStr, splitSep]
      exact splitGo_last d b c (sepFree_contains d c hd (hc c (by simp)))
    | cons y ys =>
      have hb0 : b ≠ some 0 := by
        intro e; subst e; simp [budgetOk] at hb
      have hb1 : budgetOk (b.map (· - 1)) (y :: ys).length = true := by
        cases b with
        | none => rfl
        | some m =>
          simp only [budgetOk, List.length_cons, Option.map_some, decide_eq_true_eq] at hb ⊢
          omega
      simp only [joinStr, splitSep]
      rw [splitGo_cell d hd b hb0 _ c (hc c (by simp))]
      have := ih (b.map (· - 1)) (by simp) (fun x hx => hc x (by simp [hx])) hb1
      simp only [splitSep] at this
      rw [this]

theorem joinWith_eq_joinStr (ch : Char) (cells : List Str) : joinWith ch cells = joinStr [ch] cells := by
  induction cells with
  | nil => rfl
  | cons c rest ih =>
    cases rest with
    | nil => rfl
    | cons y ys => simp only [joinWith, joinStr, ih]; simp

/-! ### `strip` of a joined line -/

/-- a delimiter string whose first and last characters are not white space: `strip` of a line
    cannot eat into a delimiter (for a one-character delimiter: it is not white space) -/
def sepOk (d : Str) : Bool :=
  match d.head?, d.getLast? with
  | some a, some z => !isSpace a && !isSpace z
  | _, _ => false

theorem sepOk_char (ch : Char) : sepOk [ch] = !isSpace ch := by simp [sepOk]

theorem sepOk_spec (d : Str) (h : sepOk d = true) :
    d ≠ [] ∧ (∃ a t, d = a :: t ∧ isSpace a = false) ∧ (∃ i z, d = i ++ [z] ∧ isSpace z = false) := by
  cases d with
  | nil => simp [sepOk] at h
  | cons a t =>
    have hne : a :: t ≠ [] := by simp
    refine ⟨hne, ?_, ?_⟩
    · refine ⟨a, t, rfl, ?_⟩
      simp only [sepOk, List.head?_cons] at h
      split at h
      · rename_i a' z' h1 _; cases h1; simp at h; exact h.1
      · simp at h
    · refine ⟨(a :: t).dropLast, (a :: t).getLast hne, (List.dropLast_concat_getLast hne).symm, ?_⟩
      have hl : (a :: t).getLast? = some ((a :: t).getLast hne) := List.getLast?_eq_some_getLast hne
      simp only [sepOk, hl, List.head?_cons] at h
      simp at h; exact h.2

theorem rstrip_around (a b : Str) (x : Char) (hx : isSpace x = false) :
    rstrip (a ++ x :: b) = a ++ x :: rstrip b := by
  unfold rstrip
  have : (a ++ x :: b).reverse = b.reverse ++ x :: a.reverse := by simp
  rw [this, dropWhile_append_stop _ _ _ hx]; simp

theorem lstrip_around (a b : Str) (x : Char) (hx : isSpace x = false) :
    lstrip (a ++ x :: b) = lstrip a ++ x :: b := dropWhile_append_stop _ _ _ hx

/-- the last cell loses its trailing white space -/
def rtrimLast : List Str → List Str
  | [] => []
  | [c] => [rstrip c]
  | c :: y :: rest => c :: rtrimLast (y :: rest)

/-- what `strip` of the joined line does to the cells: the first loses leading, the last trailing white space -/
def trimEnds : List Str → List Str
  | [] => []
  | [c] => [strip c]
  | c :: y :: rest => lstrip c :: rtrimLast (y :: rest)

theorem rtrimLast_ne_nil (l : List Str) (h : l ≠ []) : rtrimLast l ≠ [] := by
  cases l with
  | nil => exact absurd rfl h
  | cons c rest => cases rest <;> simp [rtrimLast]

theorem joinStr_cons (d c : Str) (l : List Str) (h : l ≠ []) : joinStr d (c :: l) = c ++ d ++ joinStr d l := by
  cases l with
  | nil => exact absurd rfl h
  | cons y ys => rfl

theorem rstrip_joinStr (d i : Str) (z : Char) (hd : d = i ++ [z]) (hz : isSpace z = false) :
    ∀ cells : List Str, rstrip (joinStr d cells) = joinStr d (rtrimLast cells) := by
  intro cells
  induction cells with
  | nil => rfl
  | cons c rest ih =>
    cases rest with
    | nil => rfl
    | cons y ys =>
      have e : joinStr d (c :: y :: ys) = (c ++ i) ++ z :: joinStr d (y :: ys) := by
        simp only [joinStr, hd]; simp
      rw [e, rstrip_around _ _ _ hz, ih]
      have : rtrimLast (c :: y :: ys) = c :: rtrimLast (y :: ys) := rfl
      rw [this, joinStr_cons _ _ _ (rtrimLast_ne_nil _ (by simp)), hd]
      simp

theorem strip_joinStr (d : Str) (hd : sepOk d = true) :
    ∀ cells : List Str, strip (joinStr d cells) = joinStr d (trimEnds cells) := by
  obtain ⟨_, ⟨a, t, ha, hsa⟩, ⟨i, z, hz, hsz⟩⟩ := sepOk_spec d hd
  intro cells
  cases cells with
  | nil => rfl
  | cons c rest =>
    cases rest with
    | nil => rfl
    | cons y ys =>
      unfold strip
      rw [rstrip_joinStr d i z hz hsz]
      have : rtrimLast (c :: y :: ys) = c :: rtrimLast (y :: ys) := rfl
      rw [this, joinStr_cons _ _ _ (rtrimLast_ne_nil _ (by simp))]
      have e : c ++ d ++ joinStr d (rtrimLast (y :: ys)) = c ++ a :: (t ++ joinStr d (rtrimLast (y :: ys))) := by
        rw [ha]; simp
      rw [e, lstrip_around _ _ _ hsa]
      have : trimEnds (c :: y :: ys) = lstrip c :: rtrimLast (y :: ys) := rfl
      rw [this, joinStr_cons _ _ _ (rtrimLast_ne_nil _ (by simp)), ha]
      simp

theorem strip_strip (s : Str) : strip (strip s) = strip s := strip_of_stripped _ (stripped_strip s)

theorem map_strip_rtrimLast : ∀ l : List Str, (rtrimLast l).map strip = l.map strip := by
  intro l
  induction l with
  | nil => rfl
  | cons c rest ih =>
    cases rest with
    | nil => simp [rtrimLast, strip_rstrip]
    | cons y ys =>
      have : rtrimLast (c :: y :: ys) = c :: rtrimLast (y :: ys) := rfl
      rw [this, List.map_cons, ih]; rfl

theorem map_strip_trimEnds (l : List Str) : (trimEnds l).map strip = l.map strip := by
  cases l with
  | nil => rfl
  | cons c rest =>
    cases rest with
    | nil => simp [trimEnds, strip_strip]
    | cons y ys =>
      have : trimEnds (c :: y :: ys) = lstrip c :: rtrimLast (y :: ys) := rfl
      rw [this, List.map_cons, map_strip_rtrimLast, strip_lstrip]; rfl

/-- the cells of one line can be told apart: every cell but the last passes `sepFree`, the last
    does not contain the delimiter -/
def cellsOk (d : Str) : List Str → Bool
  | [] => true
  | [c] => !contains d c
  | c :: y :: rest => sepFree d c && cellsOk d (y :: rest)

theorem cellsOk_of_all (d : Str) (hd : d ≠ []) : ∀ cells : List Str, (∀ c ∈ cells, sepFree d c = true) → cellsOk d cells = true := by
  intro cells
  induction cells with
  | nil => intro _; rfl
  | cons c rest ih =>
    intro h
    cases rest with
    | nil => simp [cellsOk, sepFree_contains d c hd (h c (by simp))]
    | cons y ys =>
      simp only [cellsOk, Bool.and_eq_true]
      exact ⟨h c (by simp), ih (fun x hx => h x (by simp [hx]))⟩

/-- SPLIT UNDOES JOIN, under the weaker per-line test `cellsOk` -/
theorem splitSep_joinStr' (d : Str) (hd : d ≠ []) : ∀ (cells : List Str) (b : Option Nat), cells ≠ [] →
    cellsOk d cells = true → budgetOk b cells.length = true →
    splitSep d b (joinStr d cells) = cells := by
  intro cells
  induction cells with
  | nil => intro _ h; exact absurd rfl h
  | cons c rest ih =>
    intro b _ hc hb
    cases rest with
    | nil =>
      simp only [cellsOk, Bool.not_eq_true'] at hc
      simp only [joinStr, splitSep]
      exact splitGo_last d b c hc
    | cons y ys =>
      simp only [cellsOk, Bool.and_eq_true] at hc
      have hb0 : b ≠ some 0 := by
        intro e; subst e; simp [budgetOk] at hb
      have hb1 : budgetOk (b.map (· - 1)) (y :: ys).length = true := by
        cases b with
        | none => rfl
        | some m =>
          simp only [budgetOk, List.length_cons, Option.map_some, decide_eq_true_eq] at hb ⊢
          omega
      simp only [joinStr, splitSep]
      rw [splitGo_cell d hd b hb0 _ c hc.1]
      have := ih (b.map (· - 1)) (by simp) hc.2 hb1
      simp only [splitSep] at this
      rw [this]

theorem contains_lstrip (d c t : Str) (h : contains d (c ++ t) = false) : contains d (lstrip c ++ t) = false := by
  obtain ⟨w, _, e⟩ := dropWhile_eq_self_or c
  have : c ++ t = w ++ (lstrip c ++ t) := by
    conv => lhs; rw [e]
    simp [lstrip]
  rw [this] at h
  exact contains_suffix d _ _ h

theorem contains_rstrip (d c : Str) (hd : d ≠ []) (h : contains d c = false) : contains d (rstrip c) = false := by
  obtain ⟨w, _, e⟩ := rstrip_decomp c
  rw [e] at h
  exact contains_prefix d hd _ _ h

theorem cellsOk_rtrimLast (d : Str) (hd : d ≠ []) : ∀ l : List Str, cellsOk d l = true → cellsOk d (rtrimLast l) = true := by
  intro l
  induction l with
  | nil => intro _; rfl
  | cons c rest ih =>
    intro h
    cases rest with
    | nil =>
      simp only [cellsOk, Bool.not_eq_true'] at h
      simp [rtrimLast, cellsOk, contains_rstrip d c hd h]
    | cons y ys =>
      simp only [cellsOk, Bool.and_eq_true] at h
      have e : rtrimLast (c :: y :: ys) = c :: rtrimLast (y :: ys) := rfl
      rw [e]
      cases hr : rtrimLast (y :: ys) with
      | nil => exact absurd hr (rtrimLast_ne_nil _ (by simp))
      | cons y' ys' =>
        simp only [cellsOk, Bool.and_eq_true]
        exact ⟨h.1, by rw [← hr]; exact ih h.2⟩

theorem cellsOk_trimEnds (d : Str) (hd : d ≠ []) (l : List Str) (h : cellsOk d l = true) : cellsOk d (trimEnds l) = true := by
  cases l with
  | nil => rfl
  | cons c rest =>
    cases rest with
    | nil =>
      simp only [cellsOk, Bool.not_eq_true'] at h
      have h1 := contains_rstrip d c hd h
      have h2 := contains_lstrip d (rstrip c) [] (by simpa using h1)
      simp only [List.append_nil] at h2
      simp only [trimEnds, cellsOk, Bool.not_eq_true']
      exact h2
    | cons y ys =>
      simp only [cellsOk, Bool.and_eq_true] at h
      have e : trimEnds (c :: y :: ys) = lstrip c :: rtrimLast (y :: ys) := rfl
      rw [e]
      cases hr : rtrimLast (y :: ys) with
      | nil => exact absurd hr (rtrimLast_ne_nil _ (by simp))
      | cons y' ys' =>
        simp only [cellsOk, Bool.and_eq_true]
        refine ⟨?_, by rw [← hr]; exact cellsOk_rtrimLast d hd _ h.2⟩
        have := h.1
        simp only [sepFree, Bool.not_eq_true'] at this ⊢
        exact contains_lstrip d c _ this

theorem trimEnds_length : ∀ l : List Str, (trimEnds l).length = l.length := by
  have hr : ∀ l : List Str, (rtrimLast l).length = l.length := by
    intro l
    induction l with
    | nil => rfl
    | cons c rest ih =>
      cases rest with
      | nil => rfl
      | cons y ys =>
        have e : rtrimLast (c :: y :: ys) = c :: rtrimLast (y :: ys) := rfl
        rw [e, List.length_cons, ih]; rfl
  intro l
  cases l with
  | nil => rfl
  | cons c rest =>
    cases rest with
    | nil => rfl
    | cons y ys =>
      have e : trimEnds (c :: y :: ys) = lstrip c :: rtrimLast (y :: ys) := rfl
      rw [e, List.length_cons, hr]; rfl

/-- a data line with an explicit delimiter: `strip`, `split`, `strip` of every part = the stripped cells -/
theorem delim_row_parts (d : Str) (hd : sepOk d = true) (b : Option Nat) (cells : List Str) (hne : cells ≠ [])
    (hc : ∀ c ∈ cells, sepFree d c = true) (hb : budgetOk b cells.length = true) :
    ∃ parts, pySplit (some d) b (strip (joinStr d cells)) = some parts ∧ parts.map strip = cells.map strip := by
  have hd0 := (sepOk_spec d hd).1
  have hemp : d.isEmpty = false := by cases d with
    | nil => exact absurd rfl hd0
    | cons _ _ => rfl
  refine ⟨trimEnds cells, ?_, map_strip_trimEnds cells⟩
  simp only [pySplit, hemp, Bool.false_eq_true, if_false]
  rw [strip_joinStr d hd, splitSep_joinStr' d hd0 (trimEnds cells) b
    (by intro e; have := trimEnds_length cells; rw [e] at this; cases cells with
      | nil => exact hne rfl
      | cons _ _ => simp at this)
    (cellsOk_trimEnds d hd0 _ (cellsOk_of_all d hd0 _ hc))
    (by rw [trimEnds_length]; exact hb)]

/-- the header line with an explicit delimiter (it is split without being stripped first) -/
theorem delim_header_parts (d : Str) (hd : d ≠ []) (names : List Str) (hne : names ≠ [])
    (hc : ∀ c ∈ names, sepFree d c = true) :
    ∃ hs, pySplit (some d) none (joinStr d names) = some hs ∧ hs.map strip = names.map strip := by
  have hemp : d.isEmpty = false := by cases d with
    | nil => exact absurd rfl hd
    | cons _ _ => rfl
  refine ⟨names, ?_, rfl⟩
  simp only [pySplit, hemp, Bool.false_eq_true, if_false]
  rw [splitSep_joinStr d hd names none hne hc rfl]

/-- a joined line is blank only if it has no cell, or one cell of white space -/
def rowVisible : List Str → Bool
  | [] => false
  | [c] => !(strip c).isEmpty
  | _ :: _ :: _ => true

theorem delim_row_nonblank (d : Str) (hd : sepOk d = true) (cells : List Str) (h : rowVisible cells = true) :
    strip (joinStr d cells) ≠ [] := by
  obtain ⟨_, ⟨a, t, ha, hsa⟩, _⟩ := sepOk_spec d hd
  cases cells with
  | nil => simp [rowVisible] at h
  | cons c rest =>
    cases rest with
    | nil =>
      simp only [rowVisible, Bool.not_eq_true'] at h
      intro e
      simp only [joinStr] at e
      rw [e] at h; simp at h
    | cons y ys =>
      apply strip_ne_nil_of_mem _ a _ hsa
      simp [joinStr, ha]

/-! ### white-space splitting undoes joining with white space -/

theorem splitWsGo_lead_b (b : Option Nat) (w rest : Str) (hw : AllSpace w) :
    splitWsGo b [] (w ++ rest) = splitWsGo b [] rest := by
  induction w with
  | nil => rfl
  | cons c cs ih =>
    have hc : isSpace c = true := hw c (by simp)
    simp only [List.cons_append, splitWsGo, List.isEmpty_nil, if_true, hc]
    exact ih (fun x hx => hw x (by simp [hx]))

theorem splitWsGo_word_b (b : Option Nat) (w rest : Str) (hw : ∀ x ∈ w, isSpace x = false) :
    ∀ cur : Str, cur ≠ [] → splitWsGo b cur (w ++ rest) = splitWsGo b (cur ++ w) rest := by
  induction w with
  | nil => intro cur _; simp
  | cons c cs ih =>
    intro cur hcur
    have hc : isSpace c = false := hw c (by simp)
    have hcs : ∀ x ∈ cs, isSpace x = false := fun x hx => hw x (by simp [hx])
    have he : cur.isEmpty = false := by cases cur with
      | nil => exact absurd rfl hcur
      | cons _ _ => rfl
    simp only [List.cons_append, splitWsGo, he, Bool.false_eq_true, if_false, hc]
    rw [ih hcs (cur ++ [c]) (by simp)]; simp

/-- a white-space gap: not empty, white space only -/
def GapOk (g : Str) : Prop := g ≠ [] ∧ AllSpace g

/-- WHITE-SPACE SPLIT UNDOES JOIN: non-empty cells without white space, any white-space gap,
    unlimited or sufficient split budget -/
theorem splitWs_joinStr (gap : Str) (hg : GapOk gap) : ∀ (cells : List Str) (b : Option Nat),
    (∀ c ∈ cells, NameOk c) → budgetOk b cells.length = true →
    splitWsGo b [] (joinStr gap cells) = cells := by
  intro cells
  induction cells with
  | nil => intro b _ _; rfl
  | cons c rest ih =>
    intro b hc hb
    have hc0 := hc c (by simp)
    cases c with
    | nil => exact absurd rfl hc0.1
    | cons x xs =>
      have hx : isSpace x = false := hc0.2 x (by simp)
      have hxs : ∀ y ∈ xs, isSpace y = false := fun y hy => hc0.2 y (by simp [hy])
      cases rest with
      | nil =>
        simp only [joinStr, splitWsGo, List.isEmpty_nil, if_true, hx, Bool.false_eq_true, if_false]
        split
        · rfl
        · have := splitWsGo_word_b b xs [] hxs [x] (by simp)
          simp only [List.append_nil] at this
          rw [this]; simp [splitWsGo]
      | cons y ys =>
        have hb0 : (b == some 0) = false := by
          cases b with
          | none => rfl
          | some m =>
            simp only [budgetOk, List.length_cons, decide_eq_true_eq] at hb
            have : m ≠ 0 := by omega
            simp [this]
        have hb1 : budgetOk (b.map (· - 1)) (y :: ys).length = true := by
          cases b with
          | none => rfl
          | some m =>
            simp only [budgetOk, List.length_cons, Option.map_some, decide_eq_true_eq] at hb ⊢
            omega
        obtain ⟨hgne, hgs⟩ := hg
        cases gap with
        | nil => exact absurd rfl hgne
        | cons g gs =>
          have hsg : isSpace g = true := hgs g (by simp)
          have hsgs : AllSpace gs := fun z hz => hgs z (by simp [hz])
          have e : joinStr (g :: gs) ((x :: xs) :: y :: ys) = x :: (xs ++ (g :: (gs ++ joinStr (g :: gs) (y :: ys)))) := by
            simp [joinStr]
          rw [e]
          simp only [splitWsGo, List.isEmpty_nil, if_true, hx, Bool.false_eq_true, if_false, hb0]
          rw [splitWsGo_word_b b xs _ hxs [x] (by simp)]
          simp only [List.singleton_append, splitWsGo, List.isEmpty_cons, Bool.false_eq_true, if_false, hsg, if_true]
          rw [splitWsGo_lead_b _ _ _ hsgs, ih _ (fun z hz => hc z (by simp [hz])) hb1]

theorem NameOk.stripped {c : Str} (h : NameOk c) : Stripped c := by
  constructor
  · exact h.head
  · intro z hz; exact h.2 z (List.mem_of_getLast? hz)

theorem NameOk.strip_eq {c : Str} (h : NameOk c) : strip c = c := strip_of_stripped c h.stripped

theorem joinStr_ne_nil (gap c : Str) (rest : List Str) (hc : c ≠ []) : joinStr gap (c :: rest) ≠ [] := by
  cases rest with
  | nil => exact hc
  | cons y ys => simp [joinStr, hc]

theorem stripped_joinStr (gap : Str) : ∀ cells : List Str, (∀ c ∈ cells, NameOk c) → Stripped (joinStr gap cells) := by
  intro cells hc
  constructor
  · intro z hz
    cases cells with
    | nil => simp [joinStr] at hz
    | cons c rest =>
      have hc0 := hc c (by simp)
      cases c with
      | nil => exact absurd rfl hc0.1
      | cons x xs =>
        have : (joinStr gap ((x :: xs) :: rest)).head? = some x := by
          cases rest <;> simp [joinStr]
        rw [this] at hz
        simp only [Option.some.injEq] at hz
        subst hz
        exact hc0.2 _ (by simp)
  · induction cells with
    | nil => intro z hz; simp [joinStr] at hz
    | cons c rest ih =>
      intro z hz
      cases rest with
      | nil => exact (hc c (by simp)).2 z (List.mem_of_getLast? hz)
      | cons y ys =>
        have hy : NameOk y := hc y (by simp)
        have hne := joinStr_ne_nil gap y ys hy.1
        simp only [joinStr, List.getLast?_append] at hz
        cases hl : (joinStr gap (y :: ys)).getLast? with
        | none => exact absurd (List.getLast?_eq_none_iff.mp hl) hne
        | some z' =>
          rw [hl] at hz
          simp only [Option.some_or] at hz
          cases hz
          exact ih (fun x hx => hc x (by simp [hx])) z hl

/-- what a white-space separated line must look like -/
structure WsLine.WF (l : WsLine) : Prop where
  lead_ok : AllSpace l.lead
  trail_ok : AllSpace l.trail
  gap_ok : GapOk l.gap
  cells_ok : ∀ c ∈ l.cells, NameOk c

theorem WsLine.strip_render (l : WsLine) (h : l.WF) : strip l.render = joinStr l.gap l.cells :=
  strip_sandwich _ _ _ h.lead_ok h.trail_ok (stripped_joinStr _ _ h.cells_ok)

theorem map_strip_names (cells : List Str) (h : ∀ c ∈ cells, NameOk c) : cells.map strip = cells := by
  induction cells with
  | nil => rfl
  | cons c rest ih =>
    rw [List.map_cons, (h c (by simp)).strip_eq, ih (fun x hx => h x (by simp [hx]))]

theorem ws_row_parts (l : WsLine) (h : l.WF) (b : Option Nat) (hb : budgetOk b l.cells.length = true) :
    ∃ parts, pySplit none b (strip l.render) = some parts ∧ parts.map strip = l.cells := by
  refine ⟨l.cells, ?_, map_strip_names _ h.cells_ok⟩
  simp only [pySplit, splitWs]
  rw [l.strip_render h, splitWs_joinStr _ h.gap_ok _ _ h.cells_ok hb]

theorem ws_header_parts (l : WsLine) (h : l.WF) :
    ∃ hs, pySplit none none l.render = some hs ∧ hs.map strip = l.cells := by
  refine ⟨l.cells, ?_, map_strip_names _ h.cells_ok⟩
  simp only [pySplit]
  rw [← splitWs_strip, l.strip_render h]
  exact congrArg some (splitWs_joinStr _ h.gap_ok _ none h.cells_ok rfl)

theorem ws_row_nonblank (l : WsLine) (h : l.WF) (hne : l.cells ≠ []) : strip l.render ≠ [] := by
  rw [l.strip_render h]
  cases hc : l.cells with
  | nil => exact absurd hc hne
  | cons c rest => exact joinStr_ne_nil _ _ _ (h.cells_ok c (by rw [hc]; simp)).1

/-! ### `parse_delimited_table` on a rendered table -/

theorem calcOffsetGo_none (tgt : List Str) (ra : Bool) :
    ∀ foot : List Str, (∀ f ∈ foot, strip f = [] ∨ foundAny tgt (strip f) = true) →
      calcOffsetGo tgt true ra foot = none := by
  intro foot
  induction foot with
  | nil => intro _; rfl
  | cons f fs ih =>
    intro hf
    have := ih (fun y hy => hf y (by simp [hy]))
    rcases hf f (by simp) with h0 | h0
    · simp [calcOffsetGo, h0, this]
    · simp [calcOffsetGo, h0, this]

theorem delimRows_core {ρ : Type} (delim : Option Str) (max : Option Nat) (st : Bool) (headings : List Str)
    (line : ρ → Str) (cells : ρ → List Str) :
    ∀ rows : List ρ,
      (∀ r ∈ rows, strip (line r) ≠ [] ∧
        ∃ parts, pySplit delim max (strip (line r)) = some parts ∧
          (if st then parts.map strip else parts) = cells r) →
      delimRows delim max st none headings (rows.map line)
        = .ok (rows.map (fun r => fromPairs (headings.zip (cells r)))) := by
  intro rows
  induction rows with
  | nil => intro _; rfl
  | cons r rs ih =>
    intro h
    obtain ⟨hnb, parts, hp, hm⟩ := h r (by simp)
    have hnb' : (strip (line r)).isEmpty = false := by
      cases hs : strip (line r) with
      | nil => exact absurd hs hnb
      | cons _ _ => rfl
    simp only [List.map_cons, delimRows, hnb', Bool.false_eq_true, if_false, hp, hm]
    rw [ih (fun x hx => h x (by simp [hx]))]

/-- `header_delim` left at 'same as delimiter' is `header_delim=delim` -/
theorem parseDelimitedTable_same (lines : List Str) (delim : Option Str) (max : Option Nat) (st : Bool)
    (hi : List Str) (subst : List (Str × Str)) (ti : List Str) (rk : Option Str) :
    parseDelimitedTable lines delim max st .same hi subst ti rk
      = parseDelimitedTable lines delim max st (.other delim) hi subst ti rk := rfl

/-- the table-level argument, independent of how lines are split: heading search, footer search,
    header split, row loop -/
theorem delimited_core {ρ : Type} (delim : Option Str) (max : Option Nat) (st : Bool) (hd : Option Str) (hi ti : List Str)
    (junk footer : List Str) (header : Str) (names : List Str) (rows : List ρ) (line : ρ → Str)
    (cells : ρ → List Str)
    (hhead : ∃ hs, pySplit hd none header = some hs ∧ (if st then hs.map strip else hs) = names)
    (hrows : ∀ r ∈ rows, strip (line r) ≠ [] ∧
        ∃ parts, pySplit delim max (strip (line r)) = some parts ∧
          (if st then parts.map strip else parts) = cells r)
    (junk_ok : ∀ j ∈ junk, foundAny (hi.map strip) (strip j) = false)
    (head_ok : if hi = [] then junk = [] else foundAny (hi.map strip) (strip header) = true)
    (foot_ok : if ti = [] then footer = [] else ∀ f ∈ footer, strip f = [] ∨ foundAny (ti.map strip) (strip f) = true)
    (data_ok : ∀ r ∈ rows, foundAny (ti.map strip) (strip (line r)) = false) :
    parseDelimitedTable (junk ++ header :: (rows.map line ++ footer)) delim max st (.other hd) hi [] ti none
      = .ok (rows.map (fun r => fromPairs (names.zip (cells r)))) := by
  have hne : (junk ++ header :: (rows.map line ++ footer)).isEmpty = false := by
    cases junk <;> rfl
  have hfirst : calcOffset (junk ++ header :: (rows.map line ++ footer)) hi false false = some junk.length := by
    unfold calcOffset
    by_cases e : hi = []
    · simp only [e, if_true] at head_ok
      simp [e, head_ok]
    · simp only [e, if_false] at head_ok
      have : hi.isEmpty = false := by cases hi with
        | nil => exact absurd rfl e
        | cons _ _ => rfl
      simp only [this, Bool.false_eq_true, if_false]
      exact calcOffsetGo_heading _ _ _ head_ok _ junk_ok
  have hdrop : (junk ++ header :: (rows.map line ++ footer)).drop (junk.length + 1) = rows.map line ++ footer := by
    rw [List.drop_append]; simp
  have hget : (junk ++ header :: (rows.map line ++ footer))[junk.length]? = some header := by simp
  obtain ⟨hs, hsplit, hnames⟩ := hhead
  unfold parseDelimitedTable
  simp only [hne, Bool.false_eq_true, if_false, hfirst, hdrop]
  -- the footer search
  by_cases e : ti = []
  · simp only [e, if_true] at foot_ok
    subst foot_ok
    have hl : calcOffset (rows.map line ++ []).reverse ti true false = some 0 := by simp [calcOffset, e]
    have hslice : sliceLines (junk ++ header :: (rows.map line ++ [])) (junk.length + 1)
        ((junk ++ header :: (rows.map line ++ [])).length - 0) = rows.map line := by
      unfold sliceLines
      rw [hdrop]
      have e2 : (junk ++ header :: (rows.map line ++ [])).length - 0 - (junk.length + 1)
          = (rows.map line ++ []).length := by
        simp; omega
      rw [e2, List.take_length]; simp
    simp only [hl, hget, applySubst, List.foldl_nil, hsplit, hnames, hslice]
    exact delimRows_core delim max st names line cells rows hrows
  · simp only [e, if_false] at foot_ok
    have hti : ti.isEmpty = false := by cases ti with
      | nil => exact absurd rfl e
      | cons _ _ => rfl
    cases hrev : (rows.map line).reverse with
    | nil =>
      have hr : rows = [] := by
        have : rows.map line = [] := by simpa using hrev
        simpa using this
      subst hr
      have hl : calcOffset (List.map line [] ++ footer).reverse ti true false = none := by
        simp only [calcOffset, hti, Bool.false_eq_true, if_false, List.map_nil, List.nil_append]
        exact calcOffsetGo_none _ _ _ (fun f hf => foot_ok f (by simpa using hf))
      simp only [hl]
      rfl
    | cons x xs =>
      have hxmem : x ∈ rows.map line := by
        have : x ∈ (rows.map line).reverse := by rw [hrev]; simp
        exact List.mem_reverse.mp this
      obtain ⟨r, hr, rfl⟩ := List.mem_map.mp hxmem
      have hl : calcOffset (rows.map line ++ footer).reverse ti true false = some footer.length := by
        simp only [calcOffset, hti, Bool.false_eq_true, if_false, List.reverse_append, hrev]
        have := calcOffsetGo_trailing (ti.map strip) false (line r) xs (hrows r hr).1 (data_ok r hr) footer.reverse
          (fun f hf => foot_ok f (by simpa using hf))
        simpa using this
      have hslice : sliceLines (junk ++ header :: (rows.map line ++ footer)) (junk.length + 1)
          ((junk ++ header :: (rows.map line ++ footer)).length - footer.length) = rows.map line := by
        unfold sliceLines
        rw [hdrop]
        have e2 : (junk ++ header :: (rows.map line ++ footer)).length - footer.length - (junk.length + 1)
            = (rows.map line).length := by
          simp; omega
        rw [e2, List.take_left]
      simp only [hl, hget, applySubst, List.foldl_nil, hsplit, hnames, hslice]
      exact delimRows_core delim max st names line cells rows hrows

/-! ### the two round trips -/

/-- the text around the table, relative to `heading_ignore` / `trailing_ignore` (`hi`, `ti`): no junk line
    looks like the heading and the heading does (junk needs a `heading_ignore`); footer lines are blank
    or start with a `trailing_ignore` string (a footer needs a `trailing_ignore`) -/
def aroundOk (hi ti junk footer : List Str) (header : Str) : Bool :=
  junk.all (fun j => !foundAny (hi.map strip) (strip j)) &&
  (if hi.isEmpty then junk.isEmpty else foundAny (hi.map strip) (strip header)) &&
  (if ti.isEmpty then footer.isEmpty
   else footer.all (fun f => (strip f).isEmpty || foundAny (ti.map strip) (strip f)))

theorem aroundOk_spec (hi ti junk footer : List Str) (header : Str) (h : aroundOk hi ti junk footer header = true) :
    (∀ j ∈ junk, foundAny (hi.map strip) (strip j) = false) ∧
    (if hi = [] then junk = [] else foundAny (hi.map strip) (strip header) = true) ∧
    (if ti = [] then footer = [] else ∀ f ∈ footer, strip f = [] ∨ foundAny (ti.map strip) (strip f) = true) := by
  simp only [aroundOk, Bool.and_eq_true, List.all_eq_true, Bool.not_eq_true', List.isEmpty_iff] at h
  obtain ⟨⟨h1, h2⟩, h3⟩ := h
  refine ⟨h1, ?_, ?_⟩
  · by_cases e : hi = []
    · simpa [e] using h2
    · simpa [e] using h2
  · by_cases e : ti = []
    · simpa [e] using h3
    · simpa [e] using h3

/-- what `renderDelimTable d` admits (a decidable test), relative to `max_splits` (`none` = -1),
    `heading_ignore` and `trailing_ignore`:
    the delimiter neither starts nor ends with white space; there is a header; headers and cells pass
    `sepFree d`; a data line is not blank, its cell count is within the split budget, and it does not
    start with a `trailing_ignore` string; `aroundOk` -/
def DelimTable.ok (d : Str) (max : Option Nat) (hi ti : List Str) (t : DelimTable) : Bool :=
  sepOk d && !t.names.isEmpty && t.names.all (sepFree d) &&
  t.rows.all (fun r => rowVisible r && r.all (sepFree d) && budgetOk max r.length &&
                !foundAny (ti.map strip) (strip (joinStr d r))) &&
  aroundOk hi ti t.junk t.footer (joinStr d t.names)

theorem delimited_roundtrip_aux (d : Str) (max : Option Nat) (hi ti : List Str) (t : DelimTable)
    (h : t.ok d max hi ti = true) :
    parseDelimitedTable (renderDelimTable d t) (some d) max true (.other (some d)) hi [] ti none
      = .ok (t.rows.map (fun r => fromPairs ((t.names.map strip).zip (r.map strip)))) := by
  simp only [DelimTable.ok, Bool.and_eq_true, List.all_eq_true, Bool.not_eq_true', List.isEmpty_eq_false_iff] at h
  obtain ⟨⟨⟨⟨hd, hne⟩, hnames⟩, hrows⟩, haround⟩ := h
  obtain ⟨hj, hh, hf⟩ := aroundOk_spec _ _ _ _ _ haround
  unfold renderDelimTable
  exact delimited_core (some d) max true (some d) hi ti t.junk t.footer (joinStr d t.names) (t.names.map strip)
    t.rows (joinStr d) (fun r => r.map strip)
    (delim_header_parts d (sepOk_spec d hd).1 t.names hne hnames)
    (fun r hr => ⟨delim_row_nonblank d hd r (hrows r hr).1.1.1,
      delim_row_parts d hd max r (by
        intro e
        have := (hrows r hr).1.1.1
        rw [e] at this; simp [rowVisible] at this) (hrows r hr).1.1.2 (hrows r hr).1.2⟩)
    hj hh hf (fun r hr => (hrows r hr).2)

/-- a white-space separated line (a decidable test): white space before, after and between the
    cells, the gap not empty; cells not empty and free of white space -/
def WsLine.ok (l : WsLine) : Bool :=
  l.lead.all isSpace && l.trail.all isSpace && !l.gap.isEmpty && l.gap.all isSpace &&
  l.cells.all (fun c => !c.isEmpty && c.all (fun x => !isSpace x))

theorem WsLine.wf_of_ok (l : WsLine) (h : l.ok = true) : l.WF := by
  simp only [WsLine.ok, Bool.and_eq_true, List.all_eq_true, Bool.not_eq_true', List.isEmpty_eq_false_iff] at h
  obtain ⟨⟨⟨⟨h1, h2⟩, h3⟩, h4⟩, h5⟩ := h
  exact ⟨h1, h2, ⟨h3, h4⟩, fun c hc => ⟨(h5 c hc).1, (h5 c hc).2⟩⟩

/-- what `renderWsTable` admits (a decidable test): every line passes `WsLine.ok`; a data line has at
    least one cell, its cell count is within the split budget, and it does not start with a
    `trailing_ignore` string; `aroundOk` -/
def WsTable.ok (max : Option Nat) (hi ti : List Str) (t : WsTable) : Bool :=
  t.head.ok &&
  t.rows.all (fun r => r.ok && !r.cells.isEmpty && budgetOk max r.cells.length &&
                !foundAny (ti.map strip) (strip r.render)) &&
  aroundOk hi ti t.junk t.footer t.head.render

theorem delimited_roundtrip_ws_aux (max : Option Nat) (st : Bool) (hi ti : List Str) (t : WsTable)
    (h : t.ok max hi ti = true) :
    parseDelimitedTable (renderWsTable t) none max st (.other none) hi [] ti none
      = .ok (t.rows.map (fun r => fromPairs (t.head.cells.zip r.cells))) := by
  simp only [WsTable.ok, Bool.and_eq_true, List.all_eq_true, Bool.not_eq_true', List.isEmpty_eq_false_iff] at h
  obtain ⟨⟨hhead, hrows⟩, haround⟩ := h
  obtain ⟨hj, hh, hf⟩ := aroundOk_spec _ _ _ _ _ haround
  have hw := t.head.wf_of_ok hhead
  unfold renderWsTable
  refine delimited_core none max st none hi ti t.junk t.footer t.head.render t.head.cells
    t.rows (·.render) (·.cells) ?_ ?_ hj hh hf (fun r hr => (hrows r hr).2)
  · obtain ⟨hs, h1, h2⟩ := ws_header_parts t.head hw
    refine ⟨hs, h1, ?_⟩
    cases st with
    | true => exact h2
    | false =>
      have : hs = t.head.cells := by
        have := map_strip_names _ hw.cells_ok
        simp only [pySplit, Option.some.injEq] at h1
        rw [← splitWs_strip, t.head.strip_render hw] at h1
        rw [← h1]
        exact splitWs_joinStr _ hw.gap_ok _ none hw.cells_ok rfl
      simpa using this
  · intro r hr
    have hrw := r.wf_of_ok (hrows r hr).1.1.1
    refine ⟨ws_row_nonblank r hrw (hrows r hr).1.1.2, r.cells, ?_, ?_⟩
    · simp only [pySplit, splitWs]
      rw [r.strip_render hrw, splitWs_joinStr _ hrw.gap_ok _ _ hrw.cells_ok (hrows r hr).1.2]
    · cases st with
      | true => exact map_strip_names _ hrw.cells_ok
      | false => rfl

/-! ### IniConfigFile: the last duplicate wins, repeated sections merge -/

/-- the value `parse_content` takes for one option of a section: the last admitted value among the
    options of exactly that name (`section[opt.name]`) -/
def groupValue (anv : Bool) (all : List IniOpt) (opt : IniOpt) : Option (Option Str) :=
  ((all.filter (fun o => o.name = opt.name)).filterMap (fun o => match o.value with
      | some v => some (some v)
      | none => if anv then some none else none)).getLast?

/-- one iteration of the inner loop of `parse_content` -/
def secStep (anv : Bool) (all : List IniOpt) (d : List (Str × Option Str)) (opt : IniOpt) :
    List (Str × Option Str) :=
  match groupValue anv all opt with
  | none => d
  | some v => dictSet d (lower opt.name) v

theorem sectionDict_eq (anv : Bool) (s : IniSec) : sectionDict anv s = s.opts.foldl (secStep anv s.opts) [] := rfl

/-- one iteration of the outer loop of `parse_content` -/
def buildStep (anv : Bool) (d : IniDict) (s : IniSec) : IniDict :=
  match dictGet d s.name with
  | some old => dictSet d s.name (dictUpdate old (sectionDict anv s))
  | none => dictSet d s.name (sectionDict anv s)

theorem buildDict_eq (anv : Bool) (t : IniTree) : buildDict anv t = t.foldl (buildStep anv) [] := rfl

/-- `d[sec][k]`, `none` when the section or the option is absent -/
def iniLookup (d : IniDict) (sec k : Str) : Option (Option Str) := (dictGet d sec).bind (fun h => dictGet h k)

theorem iniGet_of_lookup (d : IniDict) (sec opt : Str) (v : Option Str)
    (h : iniLookup d (strip sec) (lower opt) = some v) : iniGet d sec opt = .ok v := by
  unfold iniLookup at h
  unfold iniGet
  cases hs : dictGet d (strip sec) with
  | none => rw [hs] at h; simp at h
  | some hd =>
    rw [hs] at h
    simp only [Option.bind_some] at h
    simp [h]

theorem getLast?_filter_of_last {α : Type} (p : α → Bool) (l : List α) (o : α) (h : l.getLast? = some o)
    (hp : p o = true) : (l.filter p).getLast? = some o := by
  obtain ⟨ys, rfl⟩ := List.getLast?_eq_some_iff.mp h
  rw [List.filter_append]
  simp [hp]

/-- the last element that passes a test: it passes, and nothing after it does -/
theorem filter_getLast_decomp {α : Type} (p : α → Bool) : ∀ (l : List α) (o : α), (l.filter p).getLast? = some o →
    ∃ A B, l = A ++ o :: B ∧ p o = true ∧ ∀ b ∈ B, p b = false := by
  intro l
  induction l with
  | nil => intro o h; simp at h
  | cons x xs ih =>
    intro o h
    cases hf : (xs.filter p).getLast? with
    | some o' =>
      have : (List.filter p (x :: xs)).getLast? = some o' := by
        rw [List.filter_cons]
        split
        · have e : x :: List.filter p xs = [x] ++ List.filter p xs := rfl
          rw [e, List.getLast?_append, hf]; rfl
        · exact hf
      rw [this] at h
      cases h
      obtain ⟨A, B, e, h1, h2⟩ := ih o hf
      exact ⟨x :: A, B, by rw [e]; rfl, h1, h2⟩
    | none =>
      have hnil : xs.filter p = [] := List.getLast?_eq_none_iff.mp hf
      rw [List.filter_cons, hnil] at h
      split at h
      · rename_i hx
        simp at h
        subst h
        refine ⟨[], xs, rfl, hx, ?_⟩
        intro b hb
        have := List.filter_eq_nil_iff.mp hnil b hb
        simpa using this
      · simp at h

theorem secFold_skip (anv : Bool) (all : List IniOpt) (k : Str) : ∀ (B : List IniOpt),
    (∀ b ∈ B, lower b.name ≠ k) → ∀ d, dictGet (B.foldl (secStep anv all) d) k = dictGet d k := by
  intro B
  induction B with
  | nil => intro _ d; rfl
  | cons b bs ih =>
    intro h d
    rw [List.foldl_cons, ih (fun x hx => h x (by simp [hx]))]
    unfold secStep
    cases groupValue anv all b with
    | none => rfl
    | some v =>
      simp only [dictGet_dictSet]
      rw [if_neg (h b (by simp))]

theorem groupValue_last (anv : Bool) (A B : List IniOpt) (o : IniOpt)
    (hB : ∀ b ∈ B, lower b.name ≠ lower o.name) (hval : o.value.isSome = true ∨ anv = true) :
    groupValue anv (A ++ o :: B) o = some o.value := by
  unfold groupValue
  have hB' : B.filter (fun x => decide (x.name = o.name)) = [] := by
    apply List.filter_eq_nil_iff.mpr
    intro b hb
    have := hB b hb
    intro e
    simp only [decide_eq_true_eq] at e
    exact this (by rw [e])
  rw [List.filter_append, List.filter_cons]
  simp only [decide_true, if_true, hB', List.filterMap_append, List.filterMap_cons, List.filterMap_nil]
  cases hv : o.value with
  | some v => simp
  | none =>
    have : anv = true := by
      rcases hval with h | h
      · rw [hv] at h; simp at h
      · exact h
    simp [this]

theorem sectionDict_last (anv : Bool) (s : IniSec) (k : Str) (o : IniOpt)
    (h : (s.opts.filter (fun x => lower x.name = k)).getLast? = some o)
    (hval : o.value.isSome = true ∨ anv = true) :
    dictGet (sectionDict anv s) k = some o.value := by
  obtain ⟨A, B, e, hk, hB⟩ := filter_getLast_decomp _ _ _ h
  have hk' : lower o.name = k := by simpa using hk
  have hB' : ∀ b ∈ B, lower b.name ≠ k := fun b hb => by simpa using hB b hb
  rw [sectionDict_eq]
  generalize hall : s.opts = all at e
  rw [e, List.foldl_append, List.foldl_cons, secFold_skip anv _ k B hB']
  unfold secStep
  rw [groupValue_last anv A B o (fun b hb => by rw [hk']; exact hB' b hb) hval]
  simp only [dictGet_dictSet, hk', if_true]

theorem sectionDict_absent (anv : Bool) (s : IniSec) (k : Str)
    (h : s.opts.filter (fun x => lower x.name = k) = []) : dictGet (sectionDict anv s) k = none := by
  rw [sectionDict_eq, secFold_skip anv _ k s.opts (fun b hb => by
    have := List.filter_eq_nil_iff.mp h b hb
    simpa using this)]
  rfl

theorem nodup_insKey (acc : List Str) (k : Str) (h : acc.Nodup) : (insKey acc k).Nodup := by
  unfold insKey
  split
  · exact h
  · rename_i hk
    apply List.nodup_append.mpr
    refine ⟨h, by simp, ?_⟩
    intro a ha b hb
    simp only [List.mem_singleton] at hb
    subst hb
    intro e; subst e; exact hk ha

theorem sectionDict_nodup (anv : Bool) (s : IniSec) : ((sectionDict anv s).map (·.1)).Nodup := by
  rw [sectionDict_eq]
  have : ∀ (B : List IniOpt) (d : List (Str × Option Str)), (d.map (·.1)).Nodup →
      ((B.foldl (secStep anv s.opts) d).map (·.1)).Nodup := by
    intro B
    induction B with
    | nil => intro d h; exact h
    | cons b bs ih =>
      intro d h
      rw [List.foldl_cons]
      apply ih
      unfold secStep
      cases groupValue anv s.opts b with
      | none => exact h
      | some v => simp only [keys_dictSet]; exact nodup_insKey _ _ h
  exact this s.opts [] (by simp)

/-- with distinct keys the last assignment is the only one -/
theorem lastGet_eq_dictGet {β : Type} (k : Str) : ∀ (d : List (Str × β)), (d.map (·.1)).Nodup →
    (d.reverse.find? (fun p => p.1 = k)).map (·.2) = dictGet d k := by
  intro d
  induction d with
  | nil => intro _; rfl
  | cons p rest ih =>
    intro h
    simp only [List.map_cons, List.nodup_cons] at h
    rw [List.reverse_cons, List.find?_append]
    by_cases e : p.1 = k
    · have hnone : rest.reverse.find? (fun p => decide (p.1 = k)) = none := by
        apply List.find?_eq_none.mpr
        intro x hx hx'
        simp only [decide_eq_true_eq] at hx'
        apply h.1
        rw [e, ← hx']
        exact List.mem_map_of_mem (List.mem_reverse.mp hx)
      rw [hnone]
      simp [dictGet, e]
    · have : dictGet (p :: rest) k = dictGet rest k := by
        obtain ⟨a, b⟩ := p
        simp only [dictGet]
        rw [if_neg e]
      rw [this, ← ih h.2]
      cases rest.reverse.find? (fun p => decide (p.1 = k)) with
      | some q => rfl
      | none => simp [e]

/-- `old.update(new)`: the new value if there is one, else the old -/
theorem dictGet_dictUpdate {β : Type} (old e : List (Str × β)) (k : Str) (h : (e.map (·.1)).Nodup) :
    dictGet (dictUpdate old e) k = (dictGet e k).or (dictGet old k) := by
  unfold dictUpdate
  rw [dictGet_foldl, lastGet_eq_dictGet k e h]

theorem buildStep_lookup (anv : Bool) (d : IniDict) (s : IniSec) (sec k : Str) :
    iniLookup (buildStep anv d s) sec k =
      if s.name = sec then (dictGet (sectionDict anv s) k).or (iniLookup d sec k) else iniLookup d sec k := by
  unfold buildStep iniLookup
  cases hd : dictGet d s.name with
  | none =>
    simp only [dictGet_dictSet]
    by_cases e : s.name = sec
    · subst e; simp [hd]
    · simp [e]
  | some old =>
    simp only [dictGet_dictSet]
    by_cases e : s.name = sec
    · subst e
      simp [hd, dictGet_dictUpdate _ _ _ (sectionDict_nodup anv s)]
    · simp [e]

/-- what the merge of the sections of one name amounts to for one option -/
def mergeStep (anv : Bool) (sec k : Str) (acc : Option (Option Str)) (s : IniSec) : Option (Option Str) :=
  if s.name = sec then (dictGet (sectionDict anv s) k).or acc else acc

theorem buildFold_lookup (anv : Bool) (sec k : Str) : ∀ (t : IniTree) (d : IniDict),
    iniLookup (t.foldl (buildStep anv) d) sec k = t.foldl (mergeStep anv sec k) (iniLookup d sec k) := by
  intro t
  induction t with
  | nil => intro d; rfl
  | cons s rest ih =>
    intro d
    rw [List.foldl_cons, List.foldl_cons, ih, buildStep_lookup]
    rfl

/-- the options called `k` (in any letter case) of the sections called `sec`, in document order -/
def occurrences (t : IniTree) (sec k : Str) : List IniOpt :=
  ((t.filter (fun s => s.name = sec)).flatMap (·.opts)).filter (fun o => lower o.name = k)

theorem occurrences_cons (x : IniSec) (xs : IniTree) (sec k : Str) :
    occurrences (x :: xs) sec k =
      (if x.name = sec then x.opts.filter (fun o => lower o.name = k) else []) ++ occurrences xs sec k := by
  unfold occurrences
  by_cases e : x.name = sec
  · simp [e, List.flatMap_cons, List.filter_append]
  · simp [e]

theorem occurrences_nil_spec (sec k : Str) : ∀ t : IniTree, occurrences t sec k = [] →
    ∀ s ∈ t, s.name = sec → s.opts.filter (fun o => lower o.name = k) = [] := by
  intro t
  induction t with
  | nil => intro _ s hs; simp at hs
  | cons x xs ih =>
    intro h s hs hn
    rw [occurrences_cons] at h
    have h' := List.append_eq_nil_iff.mp h
    rcases List.mem_cons.mp hs with rfl | hm
    · have := h'.1
      rw [if_pos hn] at this
      exact this
    · exact ih h'.2 s hm hn

theorem occurrences_decomp (sec k : Str) (o : IniOpt) : ∀ t : IniTree, (occurrences t sec k).getLast? = some o →
    ∃ T1 s T2, t = T1 ++ s :: T2 ∧ s.name = sec ∧
      (s.opts.filter (fun x => lower x.name = k)).getLast? = some o ∧
      ∀ s' ∈ T2, s'.name = sec → s'.opts.filter (fun x => lower x.name = k) = [] := by
  intro t
  induction t with
  | nil => intro h; simp [occurrences] at h
  | cons x xs ih =>
    intro h
    rw [occurrences_cons, List.getLast?_append] at h
    cases hx : (occurrences xs sec k).getLast? with
    | some o' =>
      rw [hx] at h
      simp only [Option.some_or] at h
      cases h
      obtain ⟨T1, s, T2, e, h1, h2, h3⟩ := ih hx
      exact ⟨x :: T1, s, T2, by rw [e]; rfl, h1, h2, h3⟩
    | none =>
      rw [hx] at h
      simp only [Option.none_or] at h
      have hnil := List.getLast?_eq_none_iff.mp hx
      by_cases e : x.name = sec
      · rw [if_pos e] at h
        exact ⟨[], x, xs, rfl, e, h, occurrences_nil_spec sec k xs hnil⟩
      · rw [if_neg e] at h; simp at h

theorem mergeFold_inert (anv : Bool) (sec k : Str) : ∀ (T : IniTree),
    (∀ s ∈ T, s.name = sec → s.opts.filter (fun x => lower x.name = k) = []) →
    ∀ acc, T.foldl (mergeStep anv sec k) acc = acc := by
  intro T
  induction T with
  | nil => intro _ acc; rfl
  | cons s rest ih =>
    intro h acc
    rw [List.foldl_cons, ih (fun x hx => h x (by simp [hx]))]
    unfold mergeStep
    split
    · rename_i e
      rw [sectionDict_absent anv s k (h s (by simp) e)]
      rfl
    · rfl

/-- LAST DUPLICATE WINS over the dictionary `parse_content` builds from ANY tree -/
theorem buildDict_last (anv : Bool) (t : IniTree) (sec k : Str) (o : IniOpt)
    (h : (occurrences t sec k).getLast? = some o) (hval : o.value.isSome = true ∨ anv = true) :
    iniLookup (buildDict anv t) sec k = some o.value := by
  obtain ⟨T1, s, T2, e, hn, hl, hT2⟩ := occurrences_decomp sec k o t h
  rw [buildDict_eq, buildFold_lookup, e, List.foldl_append, List.foldl_cons, mergeFold_inert anv sec k T2 hT2]
  unfold mergeStep
  rw [if_pos hn, sectionDict_last anv s k o hl hval]
  rfl

/-- no occurrence: no such option (or no such section) -/
theorem buildDict_absent (anv : Bool) (t : IniTree) (sec k : Str) (h : occurrences t sec k = []) :
    iniLookup (buildDict anv t) sec k = none := by
  rw [buildDict_eq, buildFold_lookup, mergeFold_inert anv sec k t (occurrences_nil_spec sec k t h)]
  rfl

/-! #### the DEFAULT section -/

/-- the inner step of `apply_defaults` -/
def addDefault (os : List IniOpt) (d : IniOpt) : List IniOpt :=
  if os.any (fun o => o.name = d.name) then os else os ++ [d]

/-- the options of all DEFAULT sections -/
def defaultOpts (t : IniTree) : List IniOpt := (t.filter (fun s => s.name = DEFAULT)).flatMap (·.opts)

/-- what `apply_defaults` does to one section -/
def withDefaults (defaults : List IniOpt) (s : IniSec) : IniSec :=
  if s.name = DEFAULT then s else ⟨s.name, defaults.foldl addDefault s.opts⟩

theorem applyDefaults_eq (t : IniTree) :
    applyDefaults t = if !t.any (fun s => s.name = DEFAULT) then t else t.map (withDefaults (defaultOpts t)) := rfl

/-- THE SIDE CONDITION (a decidable test): the section asked for is DEFAULT itself, or every DEFAULT
    option whose lower-cased name is `k` is spelled exactly like some option of every section called
    `sec` — so `apply_defaults` adds no option called `k` to them -/
def defaultsInert (t : IniTree) (sec k : Str) : Bool :=
  sec == DEFAULT ||
  (defaultOpts t).all (fun d => lower d.name != k ||
    (t.filter (fun s => s.name = sec)).all (fun s => s.opts.any (fun o => o.name = d.name)))

theorem foldl_addDefault_filter (k : Str) (os0 : List IniOpt) : ∀ (defaults : List IniOpt),
    (∀ d ∈ defaults, lower d.name = k → ∃ o ∈ os0, o.name = d.name) →
    ∀ os : List IniOpt, (∀ o ∈ os0, o ∈ os) →
      (defaults.foldl addDefault os).filter (fun o => lower o.name = k) = os.filter (fun o => lower o.name = k) := by
  intro defaults
  induction defaults with
  | nil => intro _ os _; rfl
  | cons d ds ih =>
    intro h os hsub
    rw [List.foldl_cons]
    by_cases hany : os.any (fun o => o.name = d.name) = true
    · have e : addDefault os d = os := by simp [addDefault, hany]
      rw [e]
      exact ih (fun x hx => h x (by simp [hx])) os hsub
    · have e : addDefault os d = os ++ [d] := by simp only [addDefault, hany]; rfl
      rw [e, ih (fun x hx => h x (by simp [hx])) (os ++ [d]) (fun o ho => by simp [hsub o ho])]
      have hk : ¬ lower d.name = k := by
        intro e
        obtain ⟨o, ho, hn⟩ := h d (by simp) e
        apply hany
        apply List.any_eq_true.mpr
        exact ⟨o, hsub o ho, by simp [hn]⟩
      simp [List.filter_append, hk]

theorem occurrences_map (sec k : Str) (g : IniSec → IniSec) : ∀ t : IniTree,
    (∀ s ∈ t, (g s).name = s.name ∧
      (s.name = sec → (g s).opts.filter (fun o => lower o.name = k) = s.opts.filter (fun o => lower o.name = k))) →
    occurrences (t.map g) sec k = occurrences t sec k := by
  intro t
  induction t with
  | nil => intro _; rfl
  | cons x xs ih =>
    intro h
    rw [List.map_cons, occurrences_cons, occurrences_cons, ih (fun s hs => h s (by simp [hs]))]
    obtain ⟨h1, h2⟩ := h x (by simp)
    rw [h1]
    by_cases e : x.name = sec
    · rw [if_pos e, if_pos e, h2 e]
    · rw [if_neg e, if_neg e]

theorem occurrences_applyDefaults (t : IniTree) (sec k : Str) (h : defaultsInert t sec k = true) :
    occurrences (applyDefaults t) sec k = occurrences t sec k := by
  rw [applyDefaults_eq]
  split
  · rfl
  · apply occurrences_map
    intro s hs
    constructor
    · unfold withDefaults; split <;> rfl
    · intro hn
      unfold withDefaults
      split
      · rfl
      · rename_i hnd
        simp only [defaultsInert, Bool.or_eq_true, beq_iff_eq, List.all_eq_true, bne_iff_ne, ne_eq,
          List.any_eq_true, decide_eq_true_eq] at h
        rcases h with h | h
        · exact absurd (hn.trans h) hnd
        · apply foldl_addDefault_filter k s.opts _ _ s.opts (fun o ho => ho)
          intro d hd hk
          rcases h d hd with h' | h'
          · exact absurd hk h'
          · exact h' s (List.mem_filter.mpr ⟨hs, by simpa using hn⟩)

theorem ini_last_duplicate_wins_aux (anv : Bool) (t : IniTree) (sec opt : Str) (o : IniOpt)
    (hlast : (occurrences t (strip sec) (lower opt)).getLast? = some o)
    (hval : o.value.isSome = true ∨ anv = true)
    (hdef : defaultsInert t (strip sec) (lower opt) = true) :
    iniGet (iniView anv t) sec opt = .ok o.value := by
  apply iniGet_of_lookup
  unfold iniView
  apply buildDict_last anv _ _ _ o _ hval
  rw [occurrences_applyDefaults t _ _ hdef]
  exact hlast

end IV.TextFormats
