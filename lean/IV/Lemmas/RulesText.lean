import IV.Lemmas.Rules
import IV.Model.RulesText

/-! lemmas relating the text formatter's walk over the broker to the per-rule outcomes -/

namespace IV.Rules

theorem textRows_append (a b : List (Comp × Option Resp)) : textRows (a ++ b) = textRows a ++ textRows b := by
  induction a with
  | nil => rfl
  | cons p rest ih =>
    obtain ⟨c, v⟩ := p
    cases v with
    | none => simpa [textRows] using ih
    | some resp =>
      simp only [List.cons_append, textRows]
      cases respType resp <;> simp [ih]

theorem textRows_seed (seed : List Comp) : textRows (seed.map (·, none)) = [] := by
  induction seed with
  | nil => rfl
  | cons c rest ih => simpa [textRows] using ih

/-- the row of the text formatter's walk an outcome stands for -/
def rowOf : Rule × Final → Option (Comp × Str)
  | (r, .entry t _) => some (r.id, t)
  | (r, .skipEntry _) => some (r.id, sSkip)
  | (r, .metadata _) => some (r.id, sMetadata)
  | (r, .metadataKey _ _ _) => some (r.id, sMetadataKey)
  | (r, .unlisted resp) => (respType resp).map (fun t => (r.id, t))
  | (_, .exception _) => none
  | (_, .nothing) => none

/-- an outcome whose response carries the type the outcome was filed under (true of every `observeKind`) -/
def Final.WF : Final → Prop
  | .entry t resp => respType resp = some t ∧ t ≠ sSkip ∧ t ≠ sMetadata ∧ t ≠ sMetadataKey
  | .skipEntry resp => respType resp = some sSkip
  | .metadata resp => respType resp = some sMetadata
  | .metadataKey resp _ _ => respType resp = some sMetadataKey
  | .unlisted resp => respType resp = none ∨ respType resp = some sMetadataKey
  | .exception _ => True
  | .nothing => True

theorem observeKind_wf (resp : Resp) : (observeKind resp).WF := by
  unfold observeKind
  split
  · rename_i t ht
    have hrt : respType resp = some t := by simp [respType, ht]
    by_cases h1 : t = sSkip
    · subst h1; simpa [Final.WF] using hrt
    · by_cases h2 : t = sMetadata
      · subst h2; simpa [h1, Final.WF] using hrt
      · by_cases h3 : t = sMetadataKey
        · subst h3
          simp only [h1, h2, if_false, if_true]
          split
          · simpa [Final.WF] using hrt
          · simp [Final.WF, hrt]
        · simp [h1, h2, h3, Final.WF, hrt]
  · rename_i hn
    simp only [Final.WF]
    left
    unfold respType
    split
    · rename_i t ht; exact absurd ht (hn t)
    · rfl

theorem classify_wf (env : Env) (present : List Comp) (r : Rule) : (classify env present r).WF := by
  unfold classify
  split
  · trivial
  · cases process env present r with
    | stored resp => exact observeKind_wf resp
    | skipped pre => simp only [finalOfProc]; split <;> trivial
    | raised e => trivial

theorem finals_wf (env : Env) (present : List Comp) (rules : List Rule) :
    ∀ rf ∈ finals env present rules, rf.2.WF := by
  intro rf h
  obtain ⟨r, f⟩ := rf
  obtain ⟨p, hp⟩ := finals_mem_classify env present rules r f h
  subst hp
  exact classify_wf env p r

theorem textRows_single (c : Comp) (resp : Resp) (t : Str) (h : respType resp = some t) :
    textRows [(c, some resp)] = [(c, t)] := by
  simp [textRows, h]

theorem textRows_single_none (c : Comp) (resp : Resp) (h : respType resp = none) :
    textRows [(c, some resp)] = [] := by
  simp [textRows, h]

theorem applyFinal_rows (st : St) (r : Rule) (f : Final) (h : f.WF) :
    textRows (applyFinal st r f).inst = textRows st.inst ++ (rowOf (r, f)).toList := by
  cases f with
  | entry t resp =>
    have h' : respType resp = some t := h.1
    simp [applyFinal, textRows_append, textRows_single _ _ _ h', rowOf]
  | skipEntry resp =>
    have h' : respType resp = some sSkip := h
    simp [applyFinal, textRows_append, textRows_single _ _ _ h', rowOf]
  | metadata resp =>
    have h' : respType resp = some sMetadata := h
    simp [applyFinal, textRows_append, textRows_single _ _ _ h', rowOf]
  | metadataKey resp k v =>
    have h' : respType resp = some sMetadataKey := h
    simp [applyFinal, textRows_append, textRows_single _ _ _ h', rowOf]
  | unlisted resp =>
    have h' : respType resp = none ∨ respType resp = some sMetadataKey := h
    rcases h' with h' | h'
    · simp [applyFinal, textRows_append, textRows_single_none _ _ h', rowOf, h']
    · simp [applyFinal, textRows_append, textRows_single _ _ _ h', rowOf, h']
  | exception es => simp [applyFinal, rowOf]
  | nothing => simp [applyFinal, rowOf]

theorem applyAll_rows (fs : List (Rule × Final)) (st : St) (h : ∀ rf ∈ fs, rf.2.WF) :
    textRows (applyAll st fs).inst = textRows st.inst ++ fs.filterMap rowOf := by
  induction fs generalizing st with
  | nil => simp [applyAll]
  | cons rf rest ih =>
    obtain ⟨r, f⟩ := rf
    simp only [applyAll, List.foldl_cons] at ih ⊢
    rw [ih _ (fun x hx => h x (List.mem_cons_of_mem _ hx)), applyFinal_rows st r f (h (r, f) List.mem_cons_self)]
    cases hro : rowOf (r, f) <;> simp [List.filterMap_cons, hro]

/-- rows of type `t` (a type listed under a heading) are exactly the entries filed under `t` -/
theorem rows_count_entries (t : Str) (h1 : t ≠ sSkip) (h2 : t ≠ sMetadata) (h3 : t ≠ sMetadataKey)
    (fs : List (Rule × Final)) (h : ∀ rf ∈ fs, rf.2.WF) :
    ((fs.filterMap rowOf).filter (fun p => p.2 = t)).length = (fs.filterMap (entryOf t)).length := by
  induction fs with
  | nil => rfl
  | cons rf rest ih =>
    obtain ⟨r, f⟩ := rf
    have ih := ih (fun x hx => h x (List.mem_cons_of_mem _ hx))
    have hw := h (r, f) List.mem_cons_self
    cases f with
    | entry t' resp =>
      by_cases ht : t' = t
      · simp [List.filterMap_cons, rowOf, entryOf, ht, ih]
      · simp [List.filterMap_cons, rowOf, entryOf, ht, ih]
    | skipEntry resp => simp [List.filterMap_cons, rowOf, entryOf, Ne.symm h1, ih]
    | metadata resp => simp [List.filterMap_cons, rowOf, entryOf, Ne.symm h2, ih]
    | metadataKey resp k v => simp [List.filterMap_cons, rowOf, entryOf, Ne.symm h3, ih]
    | unlisted resp =>
      have hw' : respType resp = none ∨ respType resp = some sMetadataKey := hw
      rcases hw' with hw' | hw' <;>
        simp [List.filterMap_cons, rowOf, entryOf, hw', Ne.symm h3, ih]
    | exception es => simp [List.filterMap_cons, rowOf, entryOf, ih]
    | nothing => simp [List.filterMap_cons, rowOf, entryOf, ih]

theorem rows_count_skips (fs : List (Rule × Final)) (h : ∀ rf ∈ fs, rf.2.WF) :
    ((fs.filterMap rowOf).filter (fun p => p.2 = sSkip)).length = (fs.filterMap skipOf).length := by
  induction fs with
  | nil => rfl
  | cons rf rest ih =>
    obtain ⟨r, f⟩ := rf
    have ih := ih (fun x hx => h x (List.mem_cons_of_mem _ hx))
    have hw := h (r, f) List.mem_cons_self
    cases f with
    | entry t' resp =>
      have hne : t' ≠ sSkip := hw.2.1
      simp [List.filterMap_cons, rowOf, skipOf, hne, ih]
    | skipEntry resp => simp [List.filterMap_cons, rowOf, skipOf, ih]
    | metadata resp => simp [List.filterMap_cons, rowOf, skipOf, md_ne_skip, ih]
    | metadataKey resp k v => simp [List.filterMap_cons, rowOf, skipOf, mdk_ne_skip, ih]
    | unlisted resp =>
      have hw' : respType resp = none ∨ respType resp = some sMetadataKey := hw
      rcases hw' with hw' | hw' <;>
        simp [List.filterMap_cons, rowOf, skipOf, hw', mdk_ne_skip, ih]
    | exception es => simp [List.filterMap_cons, rowOf, skipOf, ih]
    | nothing => simp [List.filterMap_cons, rowOf, skipOf, ih]

theorem rowOf_fst (rf : Rule × Final) (p : Comp × Str) (h : rowOf rf = some p) : p.1 = rf.1.id := by
  obtain ⟨r, f⟩ := rf
  cases f with
  | unlisted resp =>
    simp only [rowOf] at h
    cases hr : respType resp with
    | none => simp [hr] at h
    | some t => simp [hr] at h; rw [← h]
  | exception es => simp [rowOf] at h
  | nothing => simp [rowOf] at h
  | _ => simp [rowOf] at h <;> rw [← h]

theorem rows_ids_sublist (fs : List (Rule × Final)) :
    ((fs.filterMap rowOf).map (·.1)).Sublist (fs.map (·.1.id)) := by
  induction fs with
  | nil => simp
  | cons rf rest ih =>
    cases hro : rowOf rf with
    | none => simp only [List.filterMap_cons, hro, List.map_cons]; exact ih.cons _
    | some p =>
      simp only [List.filterMap_cons, hro, List.map_cons, rowOf_fst rf p hro]
      exact ih.cons_cons _

end IV.Rules

namespace IV.Rules

theorem foldl_stepPooled_ok (env : Env) (xs : List (Rule × Bool)) (st : St) (h : ∀ x ∈ xs, x.2 = true) :
    xs.foldl (stepPooled env) st = (xs.map (·.1)).foldl (step env) st := by
  induction xs generalizing st with
  | nil => rfl
  | cons x rest ih =>
    have hx : x.2 = true := h x List.mem_cons_self
    have hs : stepPooled env st x = step env st x.1 := by
      simp [stepPooled, step, fireObserver, hx]
    simp only [List.foldl_cons, List.map_cons, hs]
    exact ih _ (fun y hy => h y (List.mem_cons_of_mem _ hy))

end IV.Rules
