import IV.Model.RpmPkg
/-
Helper lemmas for the package-string part of C13 (round 10).
-/
namespace IV.Rpm

theorem splitRev_append (sep : Char) (u q : Str) (hu : sep ∉ u) :
    splitRev sep (u ++ sep :: q) = some (u, q) := by
  induction u with
  | nil => simp [splitRev]
  | cons c cs ih =>
    have hc : c ≠ sep := fun h => hu (by simp [h])
    have hcs : sep ∉ cs := fun h => hu (by simp [h])
    simp [splitRev, hc, ih hcs]

theorem splitRev_none (sep : Char) (u : Str) (hu : sep ∉ u) : splitRev sep u = none := by
  induction u with
  | nil => simp [splitRev]
  | cons c cs ih =>
    have hc : c ≠ sep := fun h => hu (by simp [h])
    have hcs : sep ∉ cs := fun h => hu (by simp [h])
    simp [splitRev, hc, ih hcs]

/-- splitting at the last separator: what stands behind it has none and is not empty -/
theorem rsplit_append (sep : Char) (p t : Str) (ht : sep ∉ t) (hne : t ≠ []) :
    rsplit (p ++ sep :: t) sep = some (p, t) := by
  have hr : sep ∉ t.reverse := by simpa using ht
  have hne' : t.reverse ≠ [] := by simpa using hne
  simp [rsplit, List.reverse_append, splitRev_append sep t.reverse p.reverse hr, hne']

/-- the quirk of `_str[-0:]`: a string that ENDS with the separator gives itself as second part -/
theorem rsplit_trailing (sep : Char) (p : Str) :
    rsplit (p ++ [sep]) sep = some (p, p ++ [sep]) := by
  simp [rsplit, List.reverse_append, splitRev]

theorem rsplit_none (sep : Char) (s : Str) (h : sep ∉ s) : rsplit s sep = none := by
  have hr : sep ∉ s.reverse := by simpa using h
  simp [rsplit, splitRev_none sep s.reverse hr]

theorem archSepRev_dot (u q : Str) (h1 : '.' ∉ u) (h2 : '-' ∉ u) : archSepRev (u ++ '.' :: q) = '.' := by
  induction u with
  | nil => simp [archSepRev]
  | cons c cs ih =>
    have hc1 : c ≠ '.' := fun h => h1 (by simp [h])
    have hc2 : c ≠ '-' := fun h => h2 (by simp [h])
    have t1 : '.' ∉ cs := fun h => h1 (by simp [h])
    have t2 : '-' ∉ cs := fun h => h2 (by simp [h])
    simp [archSepRev, hc1, hc2, ih t1 t2]

theorem archSepRev_none (u : Str) (h1 : '.' ∉ u) (h2 : '-' ∉ u) : archSepRev u = '-' := by
  induction u with
  | nil => simp [archSepRev]
  | cons c cs ih =>
    have hc1 : c ≠ '.' := fun h => h1 (by simp [h])
    have hc2 : c ≠ '-' := fun h => h2 (by simp [h])
    have t1 : '.' ∉ cs := fun h => h1 (by simp [h])
    have t2 : '-' ∉ cs := fun h => h2 (by simp [h])
    simp [archSepRev, hc1, hc2, ih t1 t2]

theorem archSep_dot (p a : Str) (h1 : '.' ∉ a) (h2 : '-' ∉ a) : archSep (p ++ '.' :: a) = '.' := by
  have r1 : '.' ∉ a.reverse := by simpa using h1
  have r2 : '-' ∉ a.reverse := by simpa using h2
  simp [archSep, List.reverse_append, archSepRev_dot a.reverse p.reverse r1 r2]

theorem splitFirst_none (sep : Char) (u : Str) (hu : sep ∉ u) : splitFirst sep u = none := by
  induction u with
  | nil => simp [splitFirst]
  | cons c cs ih =>
    have hc : c ≠ sep := fun h => hu (by simp [h])
    have hcs : sep ∉ cs := fun h => hu (by simp [h])
    simp [splitFirst, hc, ih hcs]

theorem splitFirst_append (sep : Char) (u q : Str) (hu : sep ∉ u) :
    splitFirst sep (u ++ sep :: q) = some (u, q) := by
  induction u with
  | nil => simp [splitFirst]
  | cons c cs ih =>
    have hc : c ≠ sep := fun h => hu (by simp [h])
    have hcs : sep ∉ cs := fun h => hu (by simp [h])
    simp [splitFirst, hc, ih hcs]

end IV.Rpm
