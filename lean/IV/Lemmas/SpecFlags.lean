import IV.Lemmas.Specs
/-! Lemmas for the flag-propagation machine `fRegister` (Model/Specs, third part). -/
namespace IV.Specs
open IV.Dr

/-! ### the machine keeps the registry and the dependency lists of `hRegister` -/

def FSim (f : FReg) (r : HReg) : Prop := f.nclasses = r.nclasses ∧ f.registry = r.registry ∧ f.deps = r.deps

theorem fAttach_sim (ps : List ClassId) (n : Name) (v : Comp) (ctxs : List Comp) (f : FReg) (r : HReg)
    (hs : FSim f r) : FSim (fAttach ps n v f) (hAttach ps n v ctxs r) := by
  obtain ⟨h1, h2, h3⟩ := hs
  unfold fAttach hAttach
  cases ps with
  | nil => exact ⟨h1, h2, h3⟩
  | cons b ps =>
    simp only
    have hbn : f.registry b n = r.registry b n := by rw [h2]
    rw [hbn]
    cases hreg : r.registry b n with
    | none => exact ⟨h1, h2, h3⟩
    | some pt =>
      simp only
      cases hroot : handlerRoot r (b :: ps) n with
      | none => simp only; exact ⟨h1, h2, by simp only [h3]⟩
      | some root =>
        simp only
        obtain ⟨a, b', _⟩ := hfoldCtx_deps root n v (dedup ctxs)
          { r with deps := fun x => if x = pt then r.deps x ++ [v] else r.deps x }
        refine ⟨?_, ?_, ?_⟩
        · rw [h1]
          have : ∀ (cs : List Comp) (q : HReg), (cs.foldl (hAddHandler root n v) q).nclasses = q.nclasses := by
            intro cs
            induction cs with
            | nil => intro q; rfl
            | cons c cs ih => intro q; rw [List.foldl_cons, ih]; first | done | rfl
          first | done | (rw [this])
        · rw [b']; exact h2
        · rw [a]; simp only [h3]

theorem fRegEntry_sim (k : ClassId) (ps : List ClassId) (f : FReg) (r : HReg) (e : HEntry) (hs : FSim f r) :
    FSim (fRegEntry k ps f e) (hRegEntry k ps r e) := by
  unfold fRegEntry hRegEntry
  split
  · apply fAttach_sim
    obtain ⟨h1, h2, h3⟩ := hs
    exact ⟨h1, by simp only [h2], h3⟩
  · split
    · exact fAttach_sim _ _ _ _ _ _ hs
    · exact hs

theorem fEntries_sim (k : ClassId) (ps : List ClassId) (es : List HEntry) (f : FReg) (r : HReg) (hs : FSim f r) :
    FSim (es.foldl (fRegEntry k ps) f) (es.foldl (hRegEntry k ps) r) := by
  induction es generalizing f r with
  | nil => exact hs
  | cons e es ih => exact ih _ _ (fRegEntry_sim k ps f r e hs)

theorem fRegClass_sim (f : FReg) (r : HReg) (cd : HClass) (hs : FSim f r) : FSim (fRegClass f cd) (hRegClass r cd) := by
  unfold fRegClass hRegClass
  have hk : f.nclasses = r.nclasses := hs.1
  rw [hk]
  obtain ⟨_, h2, h3⟩ := fEntries_sim r.nclasses cd.parents cd.entries f r hs
  exact ⟨rfl, h2, h3⟩

theorem fRegister_sim (own : Comp → Flags) (h : HHistory) : FSim (fRegister own h) (hRegister h) := by
  unfold fRegister hRegister
  have : ∀ (h : HHistory) (f : FReg) (r : HReg), FSim f r → FSim (h.foldl fRegClass f) (h.foldl hRegClass r) := by
    intro h
    induction h with
    | nil => intro f r hs; exact hs
    | cons cd h ih => intro f r hs; exact ih _ _ (fRegClass_sim f r cd hs)
  exact this h _ _ ⟨rfl, rfl, rfl⟩

/-! ### whatever is wired to a point carries the point's flags -/

/-- `seen`: the components created so far -/
def FInv (r : FReg) (seen : Comp → Prop) : Prop :=
  (∀ k n p, r.registry k n = some p → seen p) ∧
  (∀ p d, d ∈ r.deps p → seen p ∧ seen d ∧ r.flags d = r.flags p)

theorem FInv_mono (r : FReg) (s s' : Comp → Prop) (hm : ∀ x, s x → s' x) (hi : FInv r s) : FInv r s' :=
  ⟨fun k n p hp => hm _ (hi.1 k n p hp), fun p d hd => ⟨hm _ (hi.2 p d hd).1, hm _ (hi.2 p d hd).2.1, (hi.2 p d hd).2.2⟩⟩

theorem fAttach_inv (ps : List ClassId) (n : Name) (v : Comp) (r : FReg) (seen : Comp → Prop)
    (H1 : ∀ k n p, r.registry k n = some p → p = v ∨ seen p)
    (H2 : ∀ p d, d ∈ r.deps p → seen p ∧ seen d ∧ r.flags d = r.flags p)
    (hv : ¬ seen v) : FInv (fAttach ps n v r) (fun x => x = v ∨ seen x) := by
  have base : FInv r (fun x => x = v ∨ seen x) :=
    ⟨H1, fun p d hd => ⟨Or.inr (H2 p d hd).1, Or.inr (H2 p d hd).2.1, (H2 p d hd).2.2⟩⟩
  unfold fAttach
  cases ps with
  | nil => exact base
  | cons b ps =>
    simp only
    cases hreg : r.registry b n with
    | none => exact base
    | some pt =>
      simp only
      have hpt := H1 b n pt hreg
      refine ⟨H1, ?_⟩
      intro p d hd
      simp only at hd ⊢
      by_cases hp : p = pt
      · subst hp
        rw [if_pos rfl] at hd
        rcases List.mem_append.mp hd with hd | hd
        · obtain ⟨sp, sd, hf⟩ := H2 p d hd
          have hdv : d ≠ v := fun h => hv (h ▸ sd)
          have hpv : p ≠ v := fun h => hv (h ▸ sp)
          exact ⟨Or.inr sp, Or.inr sd, by rw [if_neg hdv, if_neg hpv]; exact hf⟩
        · have hdv : d = v := by simpa using hd
          subst hdv
          refine ⟨hpt, Or.inl rfl, ?_⟩
          rw [if_pos rfl]
          by_cases hpv : p = d
          · rw [if_pos hpv]
          · rw [if_neg hpv]
      · rw [if_neg hp] at hd
        obtain ⟨sp, sd, hf⟩ := H2 p d hd
        have hdv : d ≠ v := fun h => hv (h ▸ sd)
        have hpv : p ≠ v := fun h => hv (h ▸ sp)
        exact ⟨Or.inr sp, Or.inr sd, by rw [if_neg hdv, if_neg hpv]; exact hf⟩

theorem fRegEntry_inv (k : ClassId) (ps : List ClassId) (r : FReg) (e : HEntry) (seen : Comp → Prop)
    (hi : FInv r seen) (hv : ¬ seen e.comp) : FInv (fRegEntry k ps r e) (fun x => x = e.comp ∨ seen x) := by
  unfold fRegEntry
  split
  · refine fAttach_inv _ _ _ _ _ ?_ ?_ hv
    rotate_left
    · exact hi.2
    intro k' m p hp
    simp only at hp
    split at hp
    · left; exact (Option.some.inj hp).symm
    · right; exact hi.1 _ _ _ hp
  · split
    · exact fAttach_inv _ _ _ _ _ (fun k n p hp => Or.inr (hi.1 k n p hp)) hi.2 hv
    · exact FInv_mono _ _ _ (fun x hx => Or.inr hx) hi

theorem fEntries_inv (k : ClassId) (ps : List ClassId) (es : List HEntry) (r : FReg) (seen : Comp → Prop)
    (hi : FInv r seen) (hnd : (es.map (·.comp)).Nodup) (hfresh : ∀ e ∈ es, ¬ seen e.comp) :
    FInv (es.foldl (fRegEntry k ps) r) (fun x => x ∈ es.map (·.comp) ∨ seen x) := by
  induction es generalizing r seen with
  | nil => exact FInv_mono _ _ _ (fun x hx => Or.inr hx) hi
  | cons e es ih =>
    rw [List.foldl_cons]
    rw [List.map_cons, List.nodup_cons] at hnd
    have h1 := fRegEntry_inv k ps r e seen hi (hfresh e (by simp))
    have h2 := ih (fRegEntry k ps r e) (fun x => x = e.comp ∨ seen x) h1 hnd.2 (by
      intro e' he' hs
      rcases hs with hs | hs
      · exact hnd.1 (hs ▸ List.mem_map_of_mem he')
      · exact hfresh e' (by simp [he']) hs)
    refine FInv_mono _ _ _ ?_ h2
    intro x hx
    rcases hx with hx | hx | hx
    · left; simp [hx]
    · left; simp [hx]
    · right; exact hx

theorem fHist_inv (h : HHistory) (r : FReg) (seen : Comp → Prop)
    (hi : FInv r seen) (hnd : (hComps h).Nodup) (hfresh : ∀ x ∈ hComps h, ¬ seen x) :
    FInv (h.foldl fRegClass r) (fun x => x ∈ hComps h ∨ seen x) := by
  induction h generalizing r seen with
  | nil => exact FInv_mono _ _ _ (fun x hx => Or.inr hx) hi
  | cons cd h ih =>
    rw [List.foldl_cons]
    have hc : hComps (cd :: h) = cd.entries.map (·.comp) ++ hComps h := by
      simp [hComps, List.flatMap_cons]
    rw [hc] at hnd hfresh
    obtain ⟨n1, n2, n3⟩ := List.nodup_append.mp hnd
    have h1 : FInv (fRegClass r cd) (fun x => x ∈ cd.entries.map (·.comp) ∨ seen x) := by
      have := fEntries_inv r.nclasses cd.parents cd.entries r seen hi n1 (by
        intro e he; exact hfresh _ (List.mem_append_left _ (List.mem_map_of_mem he)))
      exact ⟨this.1, this.2⟩
    have h2 := ih (fRegClass r cd) _ h1 n2 (by
      intro x hx hs
      rcases hs with hs | hs
      · exact n3 x hs x hx rfl
      · exact hfresh x (List.mem_append_right _ hx) hs)
    rw [hc]
    refine FInv_mono _ _ _ ?_ h2
    intro x hx
    rcases hx with hx | hx | hx
    · left; exact List.mem_append_right _ hx
    · left; exact List.mem_append_left _ hx
    · right; exact hx

/-! ### what is wired to nothing keeps the flags it was created with -/

def FOwn (own : Comp → Flags) (r : FReg) : Prop := ∀ x, (∀ p, x ∉ r.deps p) → r.flags x = own x

theorem fAttach_own (own : Comp → Flags) (ps : List ClassId) (n : Name) (v : Comp) (r : FReg) (hi : FOwn own r) :
    FOwn own (fAttach ps n v r) := by
  unfold fAttach
  cases ps with
  | nil => exact hi
  | cons b ps =>
    simp only
    cases hreg : r.registry b n with
    | none => exact hi
    | some pt =>
      simp only
      intro x hx
      simp only at hx ⊢
      have hxv : x ≠ v := by
        intro h
        have := hx pt
        rw [if_pos rfl] at this
        exact this (List.mem_append_right _ (by simp [h]))
      rw [if_neg hxv]
      apply hi
      intro p hp
      have := hx p
      by_cases hpp : p = pt
      · rw [if_pos hpp] at this; exact this (List.mem_append_left _ hp)
      · rw [if_neg hpp] at this; exact this hp

theorem fRegister_own (own : Comp → Flags) (h : HHistory) : FOwn own (fRegister own h) := by
  unfold fRegister
  apply foldl_inv _ (FOwn own) _ _ _ (fun x _ => rfl)
  intro r cd hr
  have : FOwn own (cd.entries.foldl (fRegEntry r.nclasses cd.parents) r) := by
    apply foldl_inv _ (FOwn own) _ _ _ hr
    intro r1 e hr1
    unfold fRegEntry
    split
    · exact fAttach_own own _ _ _ _ hr1
    · split
      · exact fAttach_own own _ _ _ _ hr1
      · exact hr1
  exact this

end IV.Specs
