import IV.Lemmas.CleanSpec
/-!
C08 — completeness core of the IPv4 recogniser: a canonical dotted quad that stands between a
non-word, non-dot character (or the start of the text) and a non-digit (or the end of the text) is
one of the strings `findIPv4` returns.
-/
namespace IV.CleanLine

set_option linter.unusedSimpArgs false

/-! ### `charAt` bookkeeping -/

theorem charAt_nil (i : Nat) (p : Char → Bool) : charAt [] i p = false := by
  simp [charAt]

theorem charAt_cons_zero (a : Char) (s : Str) (p : Char → Bool) : charAt (a :: s) 0 p = p a := by
  simp [charAt]

theorem charAt_cons_one (a : Char) (s : Str) (p : Char → Bool) :
    charAt (a :: s) 1 p = charAt s 0 p := by
  simp [charAt]

theorem charAt_cons_two (a b : Char) (s : Str) (p : Char → Bool) :
    charAt (a :: b :: s) 2 p = charAt s 0 p := by
  simp [charAt]

/-- a predicate that only digits satisfy fails at the head of a text that does not start with a digit -/
theorem charAt_nondigit (rest : Str) (p : Char → Bool)
    (hrest : StartsOk (fun c => !isDigit c) rest) (hp : ∀ c, p c = true → isDigit c = true) :
    charAt rest 0 p = false := by
  cases rest with
  | nil => simp [charAt]
  | cons r rs =>
    have h := hrest r (by simp)
    simp only [charAt_cons_zero]
    cases hpr : p r with
    | false => rfl
    | true => simp [hp r hpr] at h

theorem startsOk_dot (s : Str) : StartsOk (fun c => !isDigit c) ('.' :: s) := by
  intro c hc
  simp at hc
  subst hc
  decide

/-! ### step 1: a canonical octet is consumed whole -/

theorem octAlts_head (first : Bool) (o rest : Str) (ho : canonOct first o = true)
    (hrest : StartsOk (fun c => !isDigit c) rest) :
    ∃ l, octAlts first (o ++ rest) = o.length :: l := by
  have h5 : charAt rest 0 (· == '5') = false :=
    charAt_nondigit rest _ hrest (by intro c hc; simp at hc; subst hc; decide)
  have h52 : charAt rest 0 (inRng 48 52) = false :=
    charAt_nondigit rest _ hrest (by
      intro c hc; simp [inRng, isDigit] at hc ⊢; omega)
  have h53 : charAt rest 0 (inRng 48 53) = false :=
    charAt_nondigit rest _ hrest (by
      intro c hc; simp [inRng, isDigit] at hc ⊢; omega)
  have hd : charAt rest 0 isDigit = false :=
    charAt_nondigit rest _ hrest (fun _ h => h)
  match o, ho with
  | [a], ho =>
    cases first <;>
      simp [canonOct] at ho <;>
      simp [octAlts, charAt_cons_zero, charAt_cons_one, charAt_cons_two, h5, h52, h53, hd, ho]
  | [a, b], ho =>
    simp [canonOct] at ho
    simp [octAlts, charAt_cons_zero, charAt_cons_one, charAt_cons_two, h5, h52, h53, hd, ho]
  | [a, b, c], ho =>
    simp [canonOct] at ho
    simp only [octAlts, List.cons_append, List.nil_append, charAt_cons_zero, charAt_cons_one, charAt_cons_two]
    rcases ho with (⟨⟨rfl, hb⟩, hc⟩ | ⟨⟨rfl, hb⟩, hc⟩) | ⟨⟨rfl, rfl⟩, hc⟩
    · simp [hb, hc]
    · split <;> simp [hb, hc]
    · simp [hc]

theorem oct_canon (first : Bool) (k : Str → Option Nat) (o rest : Str) (m : Nat)
    (ho : canonOct first o = true) (hrest : StartsOk (fun c => !isDigit c) rest)
    (hk : k rest = some m) : oct first k (o ++ rest) = some (o.length + m) := by
  obtain ⟨l, hl⟩ := octAlts_head first o rest ho hrest
  simp [oct, hl, firstSome, hk]

/-! ### step 2: a canonical quad is matched whole -/

theorem matchQuad_canon (t post : Str) (ht : Quad t) (hpost : StartsOk (fun c => !isDigit c) post) :
    matchQuad (t ++ post) = some t.length := by
  obtain ⟨a, b, c, d, ha, hb, hc, hd, rfl⟩ := ht
  have e : a ++ '.' :: (b ++ '.' :: (c ++ '.' :: d)) ++ post
      = a ++ '.' :: (b ++ '.' :: (c ++ '.' :: (d ++ post))) := by simp
  rw [e]
  unfold matchQuad
  have h4 := oct_canon false (fun _ => some 0) d post 0 hd hpost rfl
  have h3 := oct_canon false (dot (oct false fun _ => some 0)) c ('.' :: (d ++ post))
    (d.length + 0 + 1) hc (startsOk_dot _) (by simp [dot, h4])
  have h2 := oct_canon false (dot (oct false (dot (oct false fun _ => some 0)))) b
    ('.' :: (c ++ '.' :: (d ++ post))) (c.length + (d.length + 0 + 1) + 1) hb (startsOk_dot _)
    (by simp [dot, h3])
  have h1 := oct_canon true (dot (oct false (dot (oct false (dot (oct false fun _ => some 0)))))) a
    ('.' :: (b ++ '.' :: (c ++ '.' :: (d ++ post))))
    (b.length + (c.length + (d.length + 0 + 1) + 1) + 1) ha (startsOk_dot _) (by simp [dot, h2])
  rw [h1]
  simp

/-! ### step 3: whatever the pattern matches consists of digits and dots -/

/-- digit or dot -/
def isDD (c : Char) : Bool := isDigit c || c == '.'

/-- a continuation that only ever reports a length within the text, over digits and dots -/
def GoodK (k : Str → Option Nat) : Prop :=
  ∀ s n, k s = some n → n ≤ s.length ∧ ∀ c ∈ s.take n, isDD c = true

theorem firstSome_some (cands : List Nat) (k : Nat → Option Nat) (r : Nat)
    (h : firstSome cands k = some r) : ∃ n ∈ cands, ∃ m, k n = some m ∧ r = n + m := by
  induction cands with
  | nil => simp [firstSome] at h
  | cons n l ih =>
    simp only [firstSome] at h
    split at h
    · next m hm =>
      simp at h
      exact ⟨n, by simp, m, hm, h.symm⟩
    · obtain ⟨n', hn', m, hm, hr⟩ := ih h
      exact ⟨n', by simp [hn'], m, hm, hr⟩

theorem octAlts_sound (first : Bool) (s : Str) (n : Nat) (h : n ∈ octAlts first s) :
    1 ≤ n ∧ n ≤ s.length ∧ ∀ c ∈ s.take n, isDigit c = true := by
  match s with
  | [] => simp [octAlts, charAt] at h
  | [a] =>
    cases first <;> simp [octAlts, charAt] at h <;> obtain ⟨h, rfl⟩ := h <;>
      simp [isDigit, inRng] at * <;> omega
  | [a, b] =>
    cases first <;> simp [octAlts, charAt] at h <;> rcases h with ⟨h, rfl⟩ | ⟨h, rfl⟩ <;>
      simp [isDigit, inRng] at * <;> omega
  | a :: b :: c :: r =>
    cases first <;> simp [octAlts, charAt] at h <;>
      rcases h with ⟨⟨⟨rfl, rfl⟩, h⟩, rfl⟩ | ⟨⟨⟨rfl, h'⟩, h⟩, rfl⟩ | ⟨⟨⟨rfl, h'⟩, h⟩, rfl⟩ | ⟨h, rfl⟩ | ⟨h, rfl⟩ <;>
      simp [isDigit, inRng] at * <;> omega

theorem goodK_zero : GoodK (fun _ => some 0) := by
  intro s n h
  simp at h
  subst h
  simp

theorem goodK_dot (k : Str → Option Nat) (hk : GoodK k) : GoodK (dot k) := by
  intro s n h
  match s with
  | [] => simp [dot] at h
  | c :: r =>
    simp only [dot] at h
    split at h
    · next hc =>
      cases hm : k r with
      | none => simp [hm] at h
      | some m =>
        simp [hm] at h
        subst h
        obtain ⟨h1, h2⟩ := hk r m hm
        refine ⟨by simp; omega, ?_⟩
        intro x hx
        simp at hx
        rcases hx with rfl | hx
        · simp at hc
          simp [isDD, hc]
        · exact h2 x hx
    · simp at h

theorem oct_some (first : Bool) (k : Str → Option Nat) (s : Str) (r : Nat)
    (h : oct first k s = some r) :
    ∃ n m, n ∈ octAlts first s ∧ k (s.drop n) = some m ∧ r = n + m := by
  obtain ⟨n, hn, m, hm, hr⟩ := firstSome_some _ _ _ h
  exact ⟨n, m, hn, hm, hr⟩

theorem goodK_oct (first : Bool) (k : Str → Option Nat) (hk : GoodK k) : GoodK (oct first k) := by
  intro s r h
  obtain ⟨n, m, hn, hm, rfl⟩ := oct_some first k s r h
  obtain ⟨_, h2, h3⟩ := octAlts_sound first s n hn
  obtain ⟨h4, h5⟩ := hk _ _ hm
  simp at h4
  refine ⟨by omega, ?_⟩
  intro x hx
  rw [List.take_add] at hx
  simp only [List.mem_append] at hx
  rcases hx with hx | hx
  · simp [isDD, h3 x hx]
  · exact h5 x hx

theorem oct_pos (first : Bool) (k : Str → Option Nat) (s : Str) (r : Nat)
    (h : oct first k s = some r) : 1 ≤ r := by
  obtain ⟨n, m, hn, _, rfl⟩ := oct_some first k s r h
  have := (octAlts_sound first s n hn).1
  omega

theorem matchQuad_chars (s : Str) (n : Nat) (h : matchQuad s = some n) :
    1 ≤ n ∧ n ≤ s.length ∧ ∀ c ∈ s.take n, isDD c = true := by
  have hg : GoodK (oct true (dot (oct false (dot (oct false (dot (oct false (fun _ => some 0)))))))) :=
    goodK_oct _ _ (goodK_dot _ (goodK_oct _ _ (goodK_dot _ (goodK_oct _ _ (goodK_dot _
      (goodK_oct _ _ goodK_zero))))))
  exact ⟨oct_pos _ _ _ _ h, hg s n h⟩

/-! ### step 4: scanning across a prefix whose last character is neither a digit nor a dot -/

theorem scan_prefix (rest : Str) : ∀ (p : Str) (c : Char) (prev : Option Char) (skip : Nat),
    (∀ x, (c :: p).getLast? = some x → isDD x = false) →
    (∀ x ∈ (c :: p ++ rest).take skip, isDD x = true) →
    ∃ found, scanIPv4 prev skip (c :: p ++ rest) = found ++ scanIPv4 ((c :: p).getLast?) 0 rest := by
  intro p
  induction p with
  | nil =>
    intro c prev skip hlast hskip
    have hc : isDD c = false := hlast c (by simp)
    cases skip with
    | succ k =>
      have := hskip c (by simp)
      simp [hc] at this
    | zero =>
      simp only [List.cons_append, List.nil_append, scanIPv4]
      split
      · split
        · next n hn =>
          obtain ⟨h1, _, h3⟩ := matchQuad_chars _ _ hn
          have : c ∈ (c :: rest).take n := by
            obtain ⟨j, rfl⟩ : ∃ j, n = j + 1 := ⟨n - 1, by omega⟩
            simp
          have := h3 c this
          simp [hc] at this
        · exact ⟨[], by simp⟩
      · exact ⟨[], by simp⟩
  | cons c' p ih =>
    intro c prev skip hlast hskip
    have hlast' : ∀ x, (c' :: p).getLast? = some x → isDD x = false := by
      intro x hx
      exact hlast x (by rw [List.getLast?_cons_cons]; exact hx)
    rw [List.getLast?_cons_cons]
    cases skip with
    | succ k =>
      simp only [List.cons_append, scanIPv4]
      apply ih c' (some c) k hlast'
      intro x hx
      exact hskip x (by simp at hx ⊢; exact Or.inr hx)
    | zero =>
      simp only [List.cons_append, scanIPv4]
      split
      · split
        · next n hn =>
          obtain ⟨h1, _, h3⟩ := matchQuad_chars _ _ hn
          obtain ⟨j, rfl⟩ : ∃ j, n = j + 1 := ⟨n - 1, by omega⟩
          obtain ⟨found, hf⟩ := ih c' (some c) j hlast' (by
            intro x hx
            exact h3 x (by simp at hx ⊢; exact Or.inr hx))
          refine ⟨List.take (j + 1) (c :: c' :: (p ++ rest)) :: found, ?_⟩
          simp only [Nat.add_sub_cancel, List.cons_append]
          rw [← hf]
          simp
        · exact ih c' (some c) 0 hlast' (by simp)
      · exact ih c' (some c) 0 hlast' (by simp)

/-! ### step 5: the quad is found -/

theorem quad_ne_nil (t : Str) (ht : Quad t) : t ≠ [] := by
  obtain ⟨a, b, c, d, _, _, _, _, rfl⟩ := ht
  cases a <;> simp

theorem scan_hit (prev : Option Char) (t post : Str) (hb : boundaryBefore prev = true) (ht : Quad t)
    (hpost : StartsOk (fun c => !isDigit c) post) : t ∈ scanIPv4 prev 0 (t ++ post) := by
  have hm := matchQuad_canon t post ht hpost
  have hne := quad_ne_nil t ht
  match t, hne with
  | c :: cs, _ =>
    simp only [List.cons_append] at hm ⊢
    simp only [scanIPv4, hb, hm, if_true]
    have : List.take (c :: cs).length (c :: (cs ++ post)) = c :: cs := by
      rw [← List.cons_append]
      exact List.take_left' rfl
    rw [this]
    simp

/-- a canonical dotted quad that is not preceded by a word character or '.', and not followed by a digit,
is returned by the recogniser as exactly that string -/
theorem ipv4_found_core (pre t post : Str) (ht : Quad t)
    (hpre : EndsOk (fun c => !isWord c && c != '.') pre)
    (hpost : StartsOk (fun c => !isDigit c) post) :
    t ∈ findIPv4 (pre ++ t ++ post) := by
  rw [List.append_assoc]
  unfold findIPv4
  match pre, hpre with
  | [], _ => exact scan_hit none t post rfl ht hpost
  | c :: p, hpre =>
    have hlast : ∀ x, (c :: p).getLast? = some x → isDD x = false := by
      intro x hx
      have := hpre x hx
      simp [isWord, isWordA, isAlnumA] at this
      simp [isDD, this]
    obtain ⟨found, hf⟩ := scan_prefix (t ++ post) p c none 0 hlast (by simp)
    rw [hf]
    apply List.mem_append_right
    cases hl : (c :: p).getLast? with
    | none => exact scan_hit none t post rfl ht hpost
    | some x =>
      have := hpre x hl
      simp at this
      exact scan_hit (some x) t post (by simp [boundaryBefore, this.1]) ht hpost

example : findIPv4 "x 10.1.2.3:80 1.2.3.256".toList = ["10.1.2.3".toList, "1.2.3.25".toList] := by decide

end IV.CleanLine
