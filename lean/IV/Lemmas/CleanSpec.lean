import IV.Model.CleanLine
/-!
C08 — specification-side vocabulary: what "an all-original occurrence", "a canonical dotted quad",
"a MAC address", "a host of the domain" mean, written independently of the recognisers of the model
(`findIPv4`, `findMac`, `findHost`).
-/
namespace IV.CleanLine

/-- no window of `s` that consists of original characters only spells `k` -/
def NoOrigOcc (k : Str) (s : PStr) : Prop :=
  ∀ pre w post : PStr, s = pre ++ w ++ post → allOrig w → chars w ≠ k

/-- decimal octet without leading zeros: 0–255 (`first = false`) or 1–255 (`first = true`) -/
def canonOct (first : Bool) (s : Str) : Bool :=
  match s with
  | [a] => if first then inRng 49 57 a else isDigit a
  | [a, b] => inRng 49 57 a && isDigit b
  | [a, b, c] =>
    (a == '1' && isDigit b && isDigit c) || (a == '2' && inRng 48 52 b && isDigit c)
      || (a == '2' && b == '5' && inRng 48 53 c)
  | _ => false

/-- `t` is a canonical dotted quad `a.b.c.d` -/
def Quad (t : Str) : Prop :=
  ∃ a b c d : Str, canonOct true a = true ∧ canonOct false b = true ∧ canonOct false c = true ∧
    canonOct false d = true ∧ t = a ++ '.' :: (b ++ '.' :: (c ++ '.' :: d))

/-- the character before the token: none, or one that satisfies `ok` -/
def EndsOk (ok : Char → Bool) (pre : Str) : Prop := ∀ c, pre.getLast? = some c → ok c = true
/-- the character after the token: none, or one that satisfies `ok` -/
def StartsOk (ok : Char → Bool) (post : Str) : Prop := ∀ c, post.head? = some c → ok c = true

/-- `t` is `HH s HH s HH s HH s HH s HH` with hexadecimal digits and ONE separator `s ∈ {':', '-'}` -/
def MacTok (t : Str) : Prop :=
  ∃ (s a0 a1 b0 b1 c0 c1 d0 d1 e0 e1 f0 f1 : Char), isSep s = true ∧
    isHex a0 = true ∧ isHex a1 = true ∧ isHex b0 = true ∧ isHex b1 = true ∧ isHex c0 = true ∧ isHex c1 = true ∧
    isHex d0 = true ∧ isHex d1 = true ∧ isHex e0 = true ∧ isHex e1 = true ∧ isHex f0 = true ∧ isHex f1 = true ∧
    t = [a0, a1, s, b0, b1, s, c0, c1, s, d0, d1, s, e0, e1, s, f0, f1]

/-- a host-name label sequence: non-empty, over `[A-Za-z0-9_.-]`, starting with `[A-Za-z0-9_]` -/
def HostLabel (lab : Str) : Prop :=
  (∃ c r, lab = c :: r ∧ isWordA c = true) ∧ ∀ c ∈ lab, isHostCls c = true

/-- the domain, read as the expression it is pasted into, does not match a shifted copy of itself
(true of every ordinary domain such as `abc.com`; false of `a.a`) -/
def noSelfOverlap (d : Str) : Bool :=
  (List.range d.length).all (fun m =>
    !(decide (0 < m) && charAt d (d.length - m - 1) (· == '.') && domMatch (d.take m) (d.drop (d.length - m))))

end IV.CleanLine
