import IV.Model.OfflineGraph
namespace IV.OfflineGraph

/-- a closed set contains everything that reaches a seed over unguarded call sites -/
theorem reaches_in_closed (S seeds : List Nat) (calls : List Call) (h : closed S seeds calls = true)
    (f : Nat) (r : Reaches seeds calls f) : f ∈ S := by
  simp only [closed, Bool.and_eq_true, List.all_eq_true] at h
  obtain ⟨hs, hc⟩ := h
  induction r with
  | seed hf => simpa using hs _ hf
  | step hm _ ih =>
    have := hc _ hm
    simp at this
    rcases this with h1 | h1
    · exact absurd ih h1
    · exact h1

end IV.OfflineGraph
