"""
C20 — configuration-tree queries return exactly the matching nodes.

Tie      generated forests are built as REAL insights.parsr.query.Entry trees (plus generated nginx
         configuration text parsed by the real NginxConfPEG and queried through ConfigComponent), queries
         are built from the real constructors (literals, tuples, None, callables, lt/le/eq/gt/ge/contains/
         startswith/endswith, their caseless variants, pred(f), TRUE/FALSE, & | ~, any_/all_/child_query)
         and run through Entry.select/find/__getitem__, Result.select/find/__getitem__, the module-level
         select(compile_queries(..), nodes, deep, roots) and ConfigComponent.select/find/__getitem__, with
         every (deep, roots) combination.  The identities of the returned nodes are compared with
         IV.Query (Drivers/C20.lean).  Boolean expressions: b.test(v) and b.to_pyfunc()(v) against
         BExp.interp / BExp.compiled, and the harness's reference evaluation against evalC / nonRaising.
Identity forests in which 2-4 hit-bearing trees / subtrees are deep copies of each other next to slightly different
         ones (the same document loaded several times in Result(children=[d1, d2, d3]), identical parentless tops
         handed to the module-level select, one tree with the same subtree repeated at several levels and below
         itself), queried with select/find/[]/where, roots and deep on and off, Result.roots/.parents/.upto(q).
         Every real Entry is tagged with a hidden index in a side table keyed by id(); the trees are sent to the
         model WITHOUT any identity (content only) and the model answers with positions (paths), which are mapped
         back to the hidden indexes: identical content must never collapse nodes.  Entry.__eq__/__hash__ on
         distinct identical nodes is recorded in the evidence, not assumed.
Case     the alphabets of the boolean stream and of the select / find / [] streams (names, attribute values, predicate
         arguments) contain families of case variants on which lower(), upper() and casefold() differ or change the
         length (straße/STRASSE/STRAẞE, ſ, Σ/σ/ς incl. final sigma, İ/ı/i, ﬁ ﬂ ﬀ ﬃ, ǅ, ŉ, Kelvin, Ångström).  The
         reference is the implementation's contract: str.lower() on the tested value, on the stored argument and in
         the generated source.  The Lean model does not lower-case: Env.lower is a parameter, the driver looks the
         strings of a request up in the table the harness sends with it (lower_table).
Values   literal name / attribute queries compare by VALUE whatever the provenance of the objects: every forest is
(names)  queried as constructed, after pickle.loads(pickle.dumps(..)) and after copy.deepcopy, with names / attributes
         given to the constructor or assigned afterwards as run-time built strs, equal floats and str-subclass
         instances (bytes are a different value), every query literal once as interned source literal and once built
         at run time; all six combinations must return the same nodes by position, and the model's.  Each pipeline is
         run several times interleaved with other roots=True queries on the same objects (per-call de-duplication).
Re-parent histories query -> re-parent -> query: standalone trees are queried with roots=True (module-level select over
         parentless tops, containers built with set_parents=False as Entry.choose() makes them, Result.roots, every
         node's .root read), attached below a new top as ConfigCombiner does (Entry(children=[..]); two queried
         trees under one top; at depth 2; nested), and queried again (roots on/off, .roots, .parents): results must be
         those of an identically built forest never queried before the attachment, and the model's, which is given
         the tree as it is at each query.  Tops carry the names of their descendants (top AND descendant match).
Values   operation HISTORIES with shared sub-expressions (exec_prog / gen_history, driver request `prog`): a
         combination b nested to depth >= 3 is built and compiled, then used — the same object — as left and right
         operand of & and |, in chains ((b & c) & d, continued from derived objects), under ~, inside
         any_/all_/child_query and entry-query & | ~, and inside select/find/[]/where queries; after every later
         binding b is evaluated again interpreted, by the function compiled when it was built and by one compiled
         now, and run in queries again (roots True/False).  Everything must equal the reference of b AS BUILT (model:
         letB / binding_is_value), each derived combination the reference of its own tree, and the operand objects'
         structure (classes, operand identities) must be unchanged.
Raising  CALLABLE PREDICATES THAT RAISE (gen_raise_case, stream "raising callables"): ordinary-looking lambdas / defs that
         raise IndexError / KeyError / ZeroDivisionError / TypeError / ValueError / AttributeError / StopIteration /
         AssertionError / UnicodeEncodeError / a user-defined class on '' / None / 0 / ints / unknown names / non-ASCII
         (NATURAL = natCall of the model, NATURAL_E = natCallE for where(f)), at every position a callable may stand in,
         through select / find / [] / `in` / x.<name> / where / upto / nth on Entry, Result, the module-level select and
         set_parents=False containers, trees built node by node or by from_dict; PYONLY / isin / matches / nth have no
         model counterpart and are judged by the oracle only.  Nothing may escape a pipeline: run_impl turns every
         exception into "exc:<Class>" and oracle_select reports it as a failure with the pipeline as failing input.
         Every final Result is also looked at through all its public views (items / check_values).
Oracle   an independent evaluator over the plain description of the tree: a node is expected iff its
         ancestor chain satisfies the levels bottom-up; expected list = those nodes in document
         (pre-)order; roots = first-occurrence de-duplication of the ultimate ancestors of the returned
         nodes; test(v) == to_pyfunc()(v) == reference truth value when no predicate raises on v; a
         strict evaluation that raises must make the compiled predicate False.
"""
import copy
import json
import operator
import os
import pickle
import sys

from harness.common import VERIF, enc, run_driver

from insights.parsr import query as Q
from insights.parsr.query import Entry, Result, compile_queries
from insights.parsr.query import boolean as B

CORPUS = os.path.join(VERIF, "corpus", "C20")

STRS = ["a", "b", "A", "B", "ab", "Ab", "aB", "c", "", "x", "X", "xy", "Xy", "/var", "/VAR/www", "É", "éa", "1", "80"]
NAMES = ["a", "b", "A", "B", "ab", "c", "a", "b"]
# strings on which lower(), upper() and casefold() differ from each other or change the length, in mixed-case
# variants: sharp s (small, capital), long s, the three sigmas (lower() of a final capital sigma is the final form),
# dotted capital I (lower() is TWO characters) / dotless i, ligatures, the titlecase digraph, n-apostrophe,
# Kelvin sign and Angstrom sign.  The implementation's contract is str.lower() on both sides.
CASE_FAMILIES = [
    ["straße", "STRASSE", "Straße", "STRAẞE", "strasse", "ß", "ẞ", "ss", "SS"],
    ["ſ", "s", "S", "ſtop", "STOP", "stop"],
    ["ς", "Σ", "σ", "ΟΔΟΣ", "οδος", "οδοσ", "Οδός", "ΣΑΣ", "σας", "σασ"],
    ["İ", "ı", "i", "I", "i̇", "İstanbul", "istanbul", "ISTANBUL", "ıstanbul", "i̇stanbul"],
    ["ﬁ", "fi", "FI", "ﬂ", "fl", "FL", "ﬀ", "ff", "FF", "oﬃce", "OFFICE", "office"],
    ["ǅ", "ǆ", "Ǆ", "dž", "DŽ"],
    ["ŉ", "ʼn", "ʼN"],
    ["\u212a", "k", "K", "\u212aelvin", "kelvin", "KELVIN"],
    ["\u212b", "å", "Å", "\u212bngström", "ångström", "ÅNGSTRÖM"],
]
CASE_STRS = [x for fam in CASE_FAMILIES for x in fam]
INTS = [0, 1, 2, 5, -3, 80, 443, 7]
OPS = ["eq", "lt", "le", "gt", "ge", "contains", "startswith", "endswith"]
FUNCS = {"eq": operator.eq, "lt": operator.lt, "le": operator.le, "gt": operator.gt, "ge": operator.ge,
         "contains": operator.contains, "startswith": str.startswith, "endswith": str.endswith}
REAL = {"eq": Q.eq, "lt": Q.lt, "le": Q.le, "gt": Q.gt, "ge": Q.ge, "contains": Q.contains,
        "startswith": Q.startswith, "endswith": Q.endswith}
REAL_I = {"eq": Q.ieq, "contains": Q.icontains, "startswith": Q.istartswith, "endswith": Q.iendswith}


def str_leaves(x, out):
    if isinstance(x, str):
        out.add(x)
    elif isinstance(x, (list, tuple)):
        for y in x:
            str_leaves(y, out)
    elif isinstance(x, dict):
        for y in x.values():
            str_leaves(y, out)


def lower_table(*parts):
    """
    str.lower as THIS interpreter computes it, for every string of the request that it changes: the model does not
    lower-case anything itself (Unicode lower-casing is context dependent and may change the length), it looks the
    strings up here; strings not listed are their own lower case.
    """
    found = set()
    for x in parts:
        str_leaves(x, found)
    pairs = sorted((t, t.lower()) for t in found if not t.startswith("\ue000") and t.lower() != t)
    return " ".join([str(len(pairs))] + ["%s=%s" % (enc(a), enc(b)) for a, b in pairs])


# --------------------------------------------------------------------------- opaque callables (Drivers/C20.lean opqEnv)

def opq_code(v):
    return 0 if v is None else abs(v) if isinstance(v, int) else len(v)


class UserDefinedError(Exception):
    """an exception class of the user's own"""


def _raise_index():
    return [][0]


def _raise_key():
    return {}["missing"]


def _raise_zero():
    return 10 % 0


def _raise_assert():
    assert False, "opaque predicate"


def _raise_stop():
    return next(iter(()))


def _raise_user():
    raise UserDefinedError("opaque predicate")


def _raise_value():
    raise ValueError("opaque predicate")


def _raise_type():
    return len(5)


def _raise_attr():
    return None.isupper()


def _raise_lookup():
    raise LookupError("opaque predicate")


def _raise_os():
    raise OSError("opaque predicate")


# every kind of exception a predicate may raise: the family member k raises the kind number k // 3
RAISERS = [_raise_value, _raise_index, _raise_key, _raise_zero, _raise_assert, _raise_user, _raise_stop, _raise_type,
           _raise_attr, _raise_lookup, _raise_os]
N_OPQ = 3 * len(RAISERS)


# ---- NATURAL predicates: ordinary-looking callables that raise on some names / attribute values through the operation
# that naturally raises there.  Number 100 + i is natCall i of IV/Model/Query.lean (same text, same table).
WEIGHTS = {"a": 3, "b": 1, "A": 2, "ab": 0, 5: 7, None: 2}
CHILDREN_WANTED = {"a": 1, "b": 2, "A": 0}


def _nat_user(n):
    if n == "b" or n == 0:
        raise UserDefinedError("not for %r" % (n,))
    return n is not None


def _nat_assert(n):
    assert n, "empty"
    return n != "b"


NATURAL = [
    lambda n: "A" <= n[0] <= "Z",                          # 0  IndexError on '', TypeError on None / int
    lambda n: WEIGHTS[n] >= 2,                             # 1  KeyError on a name not in the table
    lambda n: 10 % n == 0,                                 # 2  ZeroDivisionError on 0, TypeError on str / None
    lambda n: len(n) > 1,                                  # 3  TypeError on None / int
    _nat_user,                                             # 4  a user-defined exception class
    lambda n: n.index("a") >= 1,                           # 5  ValueError (not found), AttributeError on None / int
    lambda n: next(c for c in n if c == "a") == "a",       # 6  StopIteration, TypeError on None / int
    _nat_assert,                                           # 7  AssertionError on '' / 0 / None
    lambda n: n,                                           # 8  never raises; the RESULT is not a bool ('' / 0 / None are false)
    lambda n: n.encode("ascii") != b"",                    # 9  UnicodeEncodeError on non-ASCII, AttributeError on None / int
]
N_NAT = len(NATURAL)

# predicates that have no counterpart in the model (regular expressions, int()): judged by the oracle only
import re as _re


class _Weird(Exception):
    """an exception class whose own construction is unusual (no args, custom __str__)"""

    def __str__(self):
        return "weird"


def _py_weird(n):
    if not n:
        raise _Weird()
    return True


PYONLY = [
    lambda n: _re.search(n, "ab(") is not None,            # 200 re.error on "(", "[a", "*" ; TypeError on None / int
    lambda n: int(n) > 3,                                  # 201 ValueError on non-numeric str, TypeError on None
    _py_weird,                                             # 202
    lambda n: n.attrs,                                     # 203 AttributeError on every value (names are not entries)
    lambda n: (n + 1) > 3,                                 # 204 TypeError on str / None
    lambda n: {"k": [1]}["k"][len(n)] == 1,                # 205 IndexError on len >= 1, TypeError on None / int
]

# callables for where(f): they are called on the ENTRY.  Number i is natCallE i of the model.
NATURAL_E = [
    lambda e: e.attrs[0] == "a",                           # 0  IndexError without attributes
    lambda e: e.children[0]._name == e._name,              # 1  IndexError without children
    lambda e: 10 % len(e.attrs) == 0,                      # 2  ZeroDivisionError without attributes
    lambda e: e.attrs[-1] > 1,                             # 3  IndexError / TypeError (str > int, None > int)
    lambda e: CHILDREN_WANTED[e._name] == len(e.children),  # 4  KeyError
    lambda e: e.children,                                  # 5  never raises; the result is a list
]
N_NAT_E = len(NATURAL_E)


class _Stub(object):
    """a stand-in for an Entry built from the plain description, for the reference evaluation of where(f)"""

    def __init__(self, t):
        self._name = t["name"]
        self.attrs = tuple(t["attrs"])
        self.children = [_Stub(c) for c in t["children"]]


def ref_where_fn(k, t):
    try:
        return bool(NATURAL_E[k](_Stub(t)))
    except Exception:
        return False


def opq(k):
    """opaque callable number k (numbers 100.. are the NATURAL predicates, 200.. the oracle-only ones): (k + code(v)) % 3 = 0 -> False, 1 -> True, 2 -> raises; WHAT it raises depends on k // 3
    (ValueError, IndexError, KeyError, ZeroDivisionError, AssertionError, a user-defined class, StopIteration, TypeError,
    AttributeError, LookupError, OSError), through the operation that naturally raises it where there is one"""
    if k >= 200:
        return PYONLY[k - 200]
    if k >= 100:
        return NATURAL[k - 100]

    def f(v):
        h = (k + opq_code(v)) % 3
        if h == 2:
            RAISERS[(k // 3) % len(RAISERS)]()
            raise RuntimeError("unreachable")
        return h == 1
    return f


# --------------------------------------------------------------------------- tokens for the driver

def tok_val(v):
    if v is None:
        return "n"
    if isinstance(v, bool):
        raise ValueError("bool value")
    if isinstance(v, int):
        return "i:%d" % v
    return "s:" + enc(v)


def tok_bexp(b):
    k = b[0]
    if k in ("tt", "ff"):
        return [k]
    if k in ("p", "pi"):
        return [k, b[1], tok_val(b[2])]
    if k == "o":
        return ["o", str(b[1]), "1" if b[2] else "0"]
    if k in ("and", "or"):
        return [k] + tok_bexp(b[1]) + tok_bexp(b[2])
    if k == "not":
        return ["not"] + tok_bexp(b[1])
    if k == "ref":
        return ["ref", str(b[1])]
    raise ValueError(b)


def tok_nq(n):
    k = n[0]
    if k == "any":
        return ["any"]
    if k == "lit":
        return ["lit", tok_val(n[1])]
    if k == "b":
        return ["b"] + tok_bexp(n[1])
    if k == "f":
        return ["f", str(n[1])]
    raise ValueError(n)


def tok_eq(e):
    k = e[0]
    if k in ("anyA", "allA"):
        return [k] + tok_nq(e[1])
    if k == "child":
        return ["child"] + tok_nq(e[1]) + (["0"] if e[2] is None else ["1"] + tok_nq(e[2]))
    if k in ("eand", "eor"):
        return [k] + tok_eq(e[1]) + tok_eq(e[2])
    if k == "enot":
        return ["enot"] + tok_eq(e[1])
    if k == "eref":
        return ["eref", str(e[1])]
    raise ValueError(e)


def tok_query(q):
    k = q[0]
    if k == "qn":
        return ["qn"] + tok_nq(q[1])
    if k == "qt":
        out = ["qt"] + tok_nq(q[1]) + [str(len(q[2]))]
        for a in q[2]:
            out += tok_nq(a)
        return out
    if k == "qte":
        return ["qte"] + tok_nq(q[1]) + tok_eq(q[2])
    if k == "qe":
        return ["qe"] + tok_eq(q[1])
    raise ValueError(q)


def tok_tree(t):
    # content only: the hidden index t["id"] is NOT sent; the model identifies nodes by their position (path)
    out = ["T", tok_val(t["name"]), str(len(t["attrs"]))] + [tok_val(a) for a in t["attrs"]]
    out.append(str(len(t["children"])))
    for c in t["children"]:
        out += tok_tree(c)
    return out


def tok_step(s):
    if s[0] == "S":
        out = ["S", "1" if s[1] else "0", "1" if s[2] else "0", str(len(s[3]))]
        for q in s[3]:
            out += tok_query(q)
        return out
    if s[0] == "W":
        return ["W"] + tok_eq(s[1])
    if s[0] == "WF":
        return ["WF", str(s[1])]
    if s[0] == "A":                 # the model has no sugar: x.<name> is x["<name>"]
        return ["G"] + tok_query(["qn", ["lit", s[1]]])
    if s[0] in ("R", "P"):
        return [s[0]]
    if s[0] == "U":
        return ["U"] + tok_query(s[1])
    return ["G"] + tok_query(s[1])


def sel_line(case):
    docs = [str(len(case["docs"]))]
    for t in case["docs"]:
        docs += tok_tree(t)
    steps = [str(len(case["steps"]))]
    for s in case["steps"]:
        steps += tok_step(s)
    return "sel\t%s\t%s\t%s\t%s" % (start_tok(case["start"], case["docs"]), " ".join(docs), " ".join(steps),
                                   lower_table(case["docs"], case["steps"]))


def node_paths(docs):
    """hidden index -> position "i.j.k" (document number, then child indexes): the model's identity"""
    out = {}

    def walk(t, p):
        out[t["id"]] = p
        for k, c in enumerate(t["children"]):
            walk(c, p + "." + str(k))
    for i, t in enumerate(docs):
        walk(t, str(i))
    return out


def start_tok(start, docs):
    a = start.split()
    if a[0] == "node":
        return "node " + node_paths(docs)[int(a[1])]
    if a[0] == "choose":        # a container built with set_parents=False queries its parentless children: select(query, tops)
        return "fn"
    return start


def ids_from_paths(out, docs):
    """a model answer (paths) as hidden indexes, to be compared with what the real objects were tagged with"""
    if out in ("-", "err", "bad-op"):
        return out
    back = dict((p, i) for i, p in node_paths(docs).items())
    return ",".join(str(back.get(p, "?" + p)) for p in out.split(","))


_ANSWERS = {}      # request line -> answer, filled by one driver call for many small requests (the corpus)


def driver(lines):
    if lines and all(l in _ANSWERS for l in lines):
        return [_ANSWERS[l] for l in lines]
    return run_driver("C20", lines)


def precompute(lines):
    lines = sorted(set(lines))
    for l, a in zip(lines, run_driver("C20", lines)):
        _ANSWERS[l] = a


def model_sel(cases, start=None):
    outs = driver([sel_line(c if start is None else dict(c, start=start)) for c in cases])
    return [ids_from_paths(o, c["docs"]) for o, c in zip(outs, cases)]


def model_prog(progs):
    outs = driver([prog_line(pr) for pr in progs])
    res = []
    for o, pr in zip(outs, progs):
        if o == "bad-op":
            res.append(o)
            continue
        kinds = [st[0] for st in pr["stmts"] if st[0] in ("TB", "TE", "Q")]
        parts = o.split(";")
        if len(parts) != len(kinds):
            res.append("bad-shape:" + o)
            continue
        res.append(";".join(ids_from_paths(x, pr["docs"]) if k == "Q" else x for x, k in zip(parts, kinds)))
    return res


def bool_line(case):
    return "bool\t%s\t%s\t%s" % (" ".join(tok_bexp(case["b"])), tok_val(case["v"]), lower_table(case["b"], case["v"]))


# --------------------------------------------------------------------------- real objects

def real_bexp(b, nary=False, env=None):
    """env: the real objects built so far by a program (["ref", i] / ["eref", i] are THOSE objects, shared);
    nary: chains of the same connective are built with the n-ary constructors All(a, b, c) / Any(a, b, c)
    (left-nested chains only, which evaluate their operands in the same order as the nested binary form)"""
    k = b[0]
    if nary and k in ("and", "or"):
        ops, cur = [], b
        while cur[0] == k:
            ops.append(cur[2])
            cur = cur[1]
        ops.append(cur)
        ops.reverse()
        return (B.All if k == "and" else B.Any)(*[real_bexp(x, True, env) for x in ops])
    if nary and k == "not":
        return B.Not(real_bexp(b[1], True, env))
    if k == "ref":
        return env["B"][b[1]]
    if k == "tt":
        return B.TRUE
    if k == "ff":
        return B.FALSE
    if k == "p":
        return REAL[b[1]](b[2])
    if k == "pi":
        if b[1] in REAL_I:
            return REAL_I[b[1]](b[2])
        return B.pred2(FUNCS[b[1]], ignore_case=True)(b[2])
    if k == "o":
        return B.pred(opq(b[1]), ignore_case=bool(b[2]))
    if k == "px":
        return Q.isin(b[2]) if b[1] == "isin" else Q.matches(b[2])
    if k == "and":
        return real_bexp(b[1], False, env) & real_bexp(b[2], False, env)
    if k == "or":
        return real_bexp(b[1], False, env) | real_bexp(b[2], False, env)
    if k == "not":
        return ~real_bexp(b[1], False, env)
    raise ValueError(b)


class NameStr(str):
    """a str subclass: equal to the plain str by value"""


BYTES_TAG = "\ue000"        # a description string starting with this stands for the bytes value of the rest


def real_val(v, style):
    """
    the Python object for the described VALUE v, in one of several provenances that are all == to each other:
      source    the interned str / the int
      runtime   a str built at run time (a distinct, non-interned object for length >= 2) / the equal float
      subclass  a str-subclass instance / the int
    bytes values (tagged descriptions) are a different value from every str and only equal to themselves.
    """
    if isinstance(v, str) and v.startswith(BYTES_TAG):
        return v[1:].encode("utf-8")
    if isinstance(v, str):
        if style == "runtime":
            return "".join([c for c in v])
        if style == "subclass":
            return NameStr(v)
        return sys.intern(str(v))
    if isinstance(v, int) and style == "runtime":
        return float(v)
    return v


def real_nq(n, env=None):
    k = n[0]
    if k == "any":
        return None
    if k == "lit":
        if env and env.get("lit"):
            return real_val(n[1], env["lit"])
        return n[1]
    if k == "b":
        return real_bexp(n[1], False, env)
    if k == "f":
        return opq(n[1])
    raise ValueError(n)


def real_eq(e, env=None):
    k = e[0]
    if k == "anyA":
        return Q.any_(real_nq(e[1], env))
    if k == "allA":
        return Q.all_(real_nq(e[1], env))
    if k == "child":
        return Q.child_query(real_nq(e[1], env)) if e[2] is None else Q.child_query(real_nq(e[1], env), real_nq(e[2], env))
    if k == "eand":
        return real_eq(e[1], env) & real_eq(e[2], env)
    if k == "eor":
        return real_eq(e[1], env) | real_eq(e[2], env)
    if k == "enot":
        return ~real_eq(e[1], env)
    if k == "eref":
        return env["E"][e[1]]
    raise ValueError(e)


def real_query(q, env=None):
    k = q[0]
    if k == "qn":
        return real_nq(q[1], env)
    if k == "qt":
        return tuple([real_nq(q[1], env)] + [real_nq(a, env) for a in q[2]])
    if k == "qte":
        return (real_nq(q[1], env), real_eq(q[2], env))
    if k == "qe":
        return real_eq(q[1], env)
    raise ValueError(q)


def real_where(cur, s, env=None):
    """cur.where(entry_query), or the (name, value) form for a child query whose name is not a bare callable
    (where(callable) calls it on the ENTRY, a different feature)"""
    e = s[1]
    if len(s) > 2 and s[2] == "nv" and e[0] == "child" and e[1][0] != "f":
        if e[2] is None:
            return cur.where(real_nq(e[1], env))
        return cur.where(real_nq(e[1], env), real_nq(e[2], env))
    return cur.where(real_eq(e, env))


def build_entries(docs):
    """real Entry trees; ident maps id(entry) -> node id"""
    ident = {}
    keep = []

    def mk(t):
        e = Entry(name=t["name"], attrs=tuple(t["attrs"]), children=[mk(c) for c in t["children"]])
        ident[id(e)] = t["id"]
        keep.append(e)
        return e
    return [mk(t) for t in docs], ident, keep


def _all_entries(tops):
    out, stack = [], list(reversed(tops))
    while stack:
        e = stack.pop()
        out.append(e)
        stack.extend(reversed(e.children))
    return out


class ObservationError(Exception):
    """two public ways of looking at the same Result disagree"""


def ref_value(e):
    """Entry.value restated: None without attributes, the attribute if there is one, else their str() joined by ' '"""
    a = list(e.attrs)
    return None if not a else a[0] if len(a) == 1 else " ".join(str(x) for x in a)


def _raises(f):
    try:
        f()
    except Exception as ex:
        return type(ex).__name__
    return None


def check_values(r, final):
    """Result.values / .value / .string_value / .unique_values describe exactly the nodes of the result, in their order"""
    if type(r) is not Result:
        return
    want = [v for v in (ref_value(e) for e in final) if v is not None]
    got = r.values
    if not isinstance(got, list) or len(got) != len(want) or any(type(x) is not type(y) or x != y for x, y in zip(got, want)):
        raise ObservationError("values is %r for nodes whose values are %r" % (got, want))
    try:
        uniq = sorted(set(want))
    except TypeError:
        uniq = None
    if uniq is None:
        if _raises(lambda: r.unique_values) != "TypeError":
            raise ObservationError("unique_values of unorderable values %r did not raise TypeError" % (want,))
    elif r.unique_values != uniq:
        raise ObservationError("unique_values is %r for values %r" % (r.unique_values, want))
    if len(final) == 0:
        if r.value is not None or r.string_value is not None:
            raise ObservationError("value / string_value of an empty result is not None")
    elif len(final) == 1:
        v, sv = r.value, r.string_value
        if type(v) is not type(ref_value(final[0])) or v != ref_value(final[0]) or sv != " ".join(str(x) for x in final[0].attrs):
            raise ObservationError("value / string_value %r / %r of the single node with attributes %r" % (v, sv, final[0].attrs))
    elif _raises(lambda: r.value) is None or _raises(lambda: r.string_value) is None:
        raise ObservationError("value / string_value of a result with %d nodes did not raise" % len(final))


def items(r):
    """the nodes of a Result through its public protocol (len + integer indexing); negative indexes, slices and
    iteration over .children must show the same objects"""
    n = len(r)
    out = [r[i] for i in range(n)]
    if isinstance(r, Entry):
        if n:
            if r[-1] is not out[-1] or r[-n] is not out[0]:
                raise ObservationError("r[-1] / r[-len] are not the last / first item")
        sl = r[:]
        if not isinstance(sl, (list, tuple)) or len(sl) != n or any(x is not y for x, y in zip(sl, out)):
            raise ObservationError("r[:] differs from [r[i] for i in range(len(r))]")
        if n >= 2:
            a, b = r[1:], r[::-1]
            if len(a) != n - 1 or any(x is not y for x, y in zip(a, out[1:])) or len(b) != n or \
                    any(x is not y for x, y in zip(b, reversed(out))):
                raise ObservationError("r[1:] / r[::-1] differ from the items by index")
        kids = list(r.children)
        if len(kids) != n or any(x is not y for x, y in zip(kids, out)):
            raise ObservationError("iterating r.children differs from the items by index")
        if bool(n) != bool(r) and type(r) is Result:
            raise ObservationError("bool(result) is %s for %d items" % (bool(r), n))
    return out


def show_ids(xs, ident):
    out = []
    for x in xs:
        if x is None:
            out.append("N")
        elif id(x) in ident:
            out.append(str(ident[id(x)]))
        else:
            out.append("?")
    return ",".join(out) if out else "-"


def run_impl(case, tops=None, ident=None, conf=None, env=None):
    """run the steps on the real objects; returns (canonical answer, result of the same last step without roots)"""
    if tops is None:
        tops, ident, _keep = build_entries(case["docs"])
    start = case["start"].split()
    if start[0] == "doc":
        cur = tops[int(start[1])]
    elif start[0] == "node":      # an inner Entry, found by identity
        cur = [e for e in (_all_entries(tops)) if ident[id(e)] == int(start[1])][0]
    elif start[0] == "res":
        cur = Result(children=list(tops))
    elif start[0] == "choose":     # as Entry.choose() builds its containers: the children keep their own (absent) parents
        cur = Entry(children=list(tops), set_parents=False)
    elif start[0] == "conf":       # a ConfigComponent (parsed document); the model sees `doc 0`
        cur = conf
    else:
        cur = None
    plain = None
    try:
        if start[0] in ("doc", "node"):          # positional indexing of an Entry (not a query)
            kids = list(cur.children)
            if len(cur) != len(kids) or any(cur[i] is not k for i, k in enumerate(kids)) or list(cur[:]) != kids or \
                    (kids and cur[-1] is not kids[-1]):
                raise ObservationError("entry[i] / entry[:] / len(entry) differ from entry.children")
        elif start[0] == "conf":                  # the ConfigComponent wrappers
            kids = list(conf.doc.children)
            if len(conf) != len(kids) or any(conf[i] is not k for i, k in enumerate(kids)) or \
                    any(x is not y for x, y in zip(list(iter(conf)), kids)) or len(list(iter(conf))) != len(kids) or \
                    list(conf[:]) != kids:
                raise ObservationError("conf[i] / conf[:] / len(conf) / iter(conf) differ from conf.doc.children")
            secs, dirs = items(conf.sections), items(conf.directives)
            if [k for k in kids if isinstance(k, Q.Section)] != secs or [k for k in kids if isinstance(k, Q.Directive)] != dirs:
                raise ObservationError("conf.sections / conf.directives are not the top nodes of that type in order")
        n = len(case["steps"])
        for j, s in enumerate(case["steps"]):
            last = j == n - 1
            if s[0] == "S":
                qs = [real_query(q, env) for q in s[3]]
                deep, roots = bool(s[1]), bool(s[2])

                shared = []      # the module-level form compiles ONCE and runs the compiled query for both calls

                def go(ro, cur=cur, qs=qs, deep=deep, shared=shared):
                    # how the options are written: as bools, as 0 / 1, or left out when False (the defaults)
                    style = case.get("opts", "bool")
                    conv = int if style == "int" else bool
                    find = bool(deep and case.get("via_find") and cur is not None)
                    kw = {}
                    if not find and (deep or style != "omit"):
                        kw["deep"] = conv(deep)
                    if ro or style != "omit":
                        kw["roots"] = conv(ro)
                    if cur is None:
                        if not shared:
                            shared.append(compile_queries(*qs))
                        return Q.select(shared[0], list(tops), **kw)
                    if find:
                        if cur is conf and case.get("opts") == "int":
                            return cur.find_all(*qs, **kw)
                        return cur.find(*qs, **kw)
                    return cur.select(*qs, **kw)
                if last and roots:
                    plain = items(go(False))
                nxt = go(roots)
            elif s[0] == "W":
                nxt = real_where(cur, s, env)
            elif s[0] == "WF":
                nxt = cur.where(NATURAL_E[s[1]])
            elif s[0] == "R":
                nxt = cur.roots
            elif s[0] == "P":
                nxt = cur.parents
            elif s[0] == "U":
                nxt = cur.upto(real_query(s[1], env))
                if type(cur) is not Result:        # Entry.upto: one ancestor or None
                    if nxt is not None and not isinstance(nxt, Entry):
                        raise ObservationError("Entry.upto gave a %s" % type(nxt).__name__)
                    nxt = Result(children=[nxt] if nxt is not None else [])
            elif s[0] == "N":
                nxt = cur.nth(s[1])
            elif s[0] == "A":       # attribute sugar: cur.<name> is cur["<name>"]
                nxt = getattr(cur, s[1])
                if not isinstance(nxt, Result):
                    raise ObservationError("getattr(.., %r) gave a %s, not a Result" % (s[1], type(nxt).__name__))
            else:
                key = real_query(s[1], env)
                nxt = cur[key]
                inside = key in cur
                if inside is not (len(nxt) > 0):
                    raise ObservationError("`key in x` is %r but x[key] has %d nodes" % (inside, len(nxt)))
            cur = nxt
        final = items(cur)
        check_values(cur, final)
        return show_ids(final, ident), plain
    except Exception as ex:
        # select() without a query is an IndexError by construction ("err", the model's `none`); ANY other exception
        # (also an IndexError that a predicate raised and the engine let through) is not a behaviour the model has:
        # the oracle reports it as a failure with this case as the failing input
        if isinstance(ex, IndexError) and any(s[0] == "S" and not s[3] for s in case["steps"]):
            return "err", None
        if isinstance(ex, ObservationError):
            return "exc:ObservationError: %s" % ex, None
        return "exc:" + type(ex).__name__, None


# --------------------------------------------------------------------------- reference semantics (oracle)

def leaf_ref(b, v):
    """True / False / 'x' (raises): the wrapped function called directly"""
    try:
        if b[0] == "p":
            return bool(FUNCS[b[1]](v, b[2]))
        if b[0] == "pi":
            vv = v.lower() if isinstance(v, str) else v
            return bool(FUNCS[b[1]](vv, b[2].lower()))
        if b[0] == "o":
            vv = v.lower() if (b[2] and isinstance(v, str)) else v
            return bool(opq(b[1])(vv))
        if b[0] == "px":            # isin(values): membership by == ; matches(pattern): re.search finds something
            if b[1] == "isin":
                hash(v)
                for x in b[2]:
                    hash(x)
                return any(type(x) is type(v) and x == v for x in b[2])
            return _re.search(b[2], v) is not None
    except Exception:
        return "x"
    raise ValueError(b)


def strict_ref(b, v):
    """boolean value with Python short-circuit, 'x' as soon as an evaluated predicate raises"""
    k = b[0]
    if k == "tt":
        return True
    if k == "ff":
        return False
    if k == "and":
        l = strict_ref(b[1], v)
        return strict_ref(b[2], v) if l is True else l
    if k == "or":
        l = strict_ref(b[1], v)
        return strict_ref(b[2], v) if l is False else l
    if k == "not":
        l = strict_ref(b[1], v)
        return "x" if l == "x" else (not l)
    return leaf_ref(b, v)


def leaves(b):
    if b[0] in ("and", "or"):
        return leaves(b[1]) + leaves(b[2])
    if b[0] == "not":
        return leaves(b[1])
    return [] if b[0] in ("tt", "ff") else [b]


def non_raising(b, v):
    return all(leaf_ref(l, v) != "x" for l in leaves(b))


def ref_value_q(n, v):
    """a name / attribute query on one value; a raising predicate counts as not matching"""
    k = n[0]
    if k == "any":
        return True
    if k == "lit":
        return type(v) is type(n[1]) and v == n[1]
    if k == "b":
        return strict_ref(n[1], v) is True
    if k == "f":
        try:
            return bool(opq(n[1])(v))
        except Exception:
            return False
    raise ValueError(n)


def ref_eq(e, t):
    k = e[0]
    if k == "anyA":
        return any(ref_value_q(e[1], a) for a in t["attrs"])
    if k == "allA":
        return all(ref_value_q(e[1], a) for a in t["attrs"])
    if k == "child":
        return any(ref_value_q(e[1], c["name"]) and (e[2] is None or any(ref_value_q(e[2], a) for a in c["attrs"]))
                   for c in t["children"])
    if k == "eand":
        return ref_eq(e[1], t) and ref_eq(e[2], t)
    if k == "eor":
        return ref_eq(e[1], t) or ref_eq(e[2], t)
    if k == "enot":
        return not ref_eq(e[1], t)
    raise ValueError(e)


def ref_query(q, t):
    k = q[0]
    if k == "qn":
        return ref_value_q(q[1], t["name"])
    if k == "qt":
        return ref_value_q(q[1], t["name"]) and (not q[2] or any(ref_value_q(a, v) for v in t["attrs"] for a in q[2]))
    if k == "qte":
        return ref_value_q(q[1], t["name"]) and ref_eq(q[2], t)
    if k == "qe":
        return ref_eq(q[1], t)
    raise ValueError(q)


class Doc(object):
    """plain description of the forest: parents, pre-order, by id"""

    def __init__(self, docs):
        self.by_id, self.parent, self.order = {}, {}, []

        def walk(t, p):
            self.by_id[t["id"]] = t
            self.parent[t["id"]] = p
            self.order.append(t["id"])
            for c in t["children"]:
                walk(c, t["id"])
        for t in docs:
            walk(t, None)
        self.pos = dict((i, k) for k, i in enumerate(self.order))

    def ancestors(self, i):
        out = []
        p = self.parent[i]
        while p is not None:
            out.append(p)
            p = self.parent[p]
        return out

    def ultimate(self, i):
        a = self.ancestors(i)
        return a[-1] if a else i

    def below(self, ids):
        """proper and improper descendants of ids, pre-order"""
        s = set(ids)
        return [i for i in self.order if i in s or any(a in s for a in self.ancestors(i))]


def expected_select(doc, start_ids, qs, deep):
    """ids of the nodes ending a matching chain, in document order (brute force, bottom-up)"""
    cand = doc.below(start_ids) if deep else [i for i in doc.order if i in set(start_ids)]
    firsts = set(cand)
    if not deep:
        # positions in the list handed to the query, which may not be document order for a Result
        pass
    universe = doc.below(start_ids)
    out = []
    for i in universe:
        chain = [i] + doc.ancestors(i)
        if len(chain) < len(qs):
            continue
        chain = chain[:len(qs)]          # n_k, n_{k-1}, …, n_1
        if chain[-1] not in firsts:
            continue
        if all(ref_query(q, doc.by_id[n]) for q, n in zip(reversed(qs), chain)):
            out.append(i)
    return out


def nested_first_level(doc, start_ids, q1):
    """some node matched by the first query (anywhere below the start nodes) has a matched proper descendant"""
    m = set(i for i in doc.below(start_ids) if ref_query(q1, doc.by_id[i]))
    return any(a in m for i in m for a in doc.ancestors(i))


def nests(doc, ids):
    s = set(ids)
    return any(a in s for i in ids for a in doc.ancestors(i))


def oracle_select(chk, case, impl, plain_ids):
    """
    Property oracle for one pipeline.  Only the LAST step is judged, on the children the earlier
    steps produced according to the reference (when the earlier steps already differ the last
    one is not judged: that earlier step is a case of its own in the generator).
    """
    doc = Doc(case["docs"])
    start = case["start"].split()
    if start[0] in ("doc", "conf"):
        kind, cur = "entry", [case["docs"][int(start[1]) if start[0] == "doc" else 0]["id"]]
    elif start[0] == "node":
        kind, cur = "entry", [int(start[1])]
    elif start[0] == "res":
        kind, cur = "result", [t["id"] for t in case["docs"]]
    else:                           # "fn" and "choose": the parentless tops themselves are the candidates
        kind, cur = "fn", [t["id"] for t in case["docs"]]
    n = len(case["steps"])
    taint = False     # an earlier step was handed nested parents / nested first-level matches (known finding: its order is parent-major)
    for j, s in enumerate(case["steps"]):
        last = j == n - 1
        if kind == "fn":
            nodes = list(cur)
        else:                          # an Entry's children / a Result's grandchildren
            nodes = [c["id"] for i in cur for c in doc.by_id[i]["children"]]
        parents_nest = kind == "result" and nests(doc, cur)
        if s[0] in ("G", "A"):
            gq = s[1] if s[0] == "G" else ["qn", ["lit", s[1]]]
            exp = [i for i in doc.below(nodes) if i in set(nodes) and ref_query(gq, doc.by_id[i])]
            deep, roots, qs = False, False, [gq]
        elif s[0] == "W":           # where: the entry's children if the entry satisfies it / the result's own children that do
            if kind == "entry":
                exp = [c["id"] for c in doc.by_id[cur[0]]["children"]] if ref_eq(s[1], doc.by_id[cur[0]]) else []
            else:
                exp = [i for i in cur if ref_eq(s[1], doc.by_id[i])]
            deep, roots, qs = False, False, []
        elif s[0] == "N":           # Result.nth(n): the n-th of the result's nodes below each distinct parent, parents in first-occurrence order
            groups, order = {}, []
            for i in cur:
                p = doc.parent[i]
                if p not in groups:
                    groups[p] = []
                    order.append(p)
                groups[p].append(i)
            exp = [groups[p][s[1]] for p in order if -len(groups[p]) <= s[1] < len(groups[p])]
            deep, roots, qs = False, False, []
        elif s[0] == "WF":          # where(f), f a plain callable called on the entry itself; a raise counts as False
            if kind == "entry":
                exp = [c["id"] for c in doc.by_id[cur[0]]["children"]] if ref_where_fn(s[1], doc.by_id[cur[0]]) else []
            else:
                exp = [i for i in cur if ref_where_fn(s[1], doc.by_id[i])]
            deep, roots, qs = False, False, []
        elif s[0] in ("R", "P", "U"):      # Result.roots / .parents / .upto(q): first-occurrence de-duplication BY NODE
            exp = []
            if kind == "entry" and s[0] != "U":
                return                      # .roots / .parents are properties of a Result
            for i in cur:
                if s[0] == "R":
                    x = doc.ultimate(i)
                elif s[0] == "P":
                    x = doc.parent[i] if doc.parent[i] is not None else i
                else:
                    x = next((a for a in doc.ancestors(i) if ref_query(s[1], doc.by_id[a])), None)
                if x is not None and x not in exp:
                    exp.append(x)
            deep, roots, qs = False, False, []
        else:
            deep, roots, qs = bool(s[1]), bool(s[2]), s[3]
            if not qs:
                return          # no query at all: outside the property (the tie still compares the IndexError)
            exp = expected_select(doc, nodes, qs, deep)
        levels_nest = deep and len(qs) >= 2 and nested_first_level(doc, nodes, qs[0])
        if not last:
            taint = taint or parents_nest or levels_nest
            kind, cur = "result", exp
            continue
        got_plain = plain_ids if roots else impl
        exp_s = ",".join(str(i) for i in exp) if exp else "-"
        if not isinstance(impl, str):
            chk.failure("the adapter got %r instead of an answer" % (impl,), case)
            return
        if got_plain is None:        # the run without roots did not come back: the pipeline raised
            got_plain = impl if (impl == "err" or impl.startswith("exc:")) else "exc:no-plain-result"
        if got_plain.startswith("exc:ObservationError: "):
            chk.failure("two public views of the same query result disagree: %s (the nodes expected from this query: %s)"
                        % (got_plain[len("exc:ObservationError: "):], exp_s), case)
            chk.count("oracle:views-disagree")
            return
        if got_plain.startswith("exc:") or (got_plain == "err" and exp_s != "err"):
            chk.failure("the query RAISED %s instead of returning; nothing may escape a query (a predicate that raises counts as "
                        "not matching): the matching chains end (in document order) at %s" % (got_plain[4:] or got_plain, exp_s), case)
            chk.count("oracle:query-raised")
            return
        if got_plain != exp_s:
            ok_shape = got_plain != "err" and not got_plain.startswith("exc:")
            g, e = (got_plain.split(","), exp_s.split(",")) if ok_shape else ([], [])
            if ok_shape and sorted(g) == sorted(e) and (taint or parents_nest or levels_nest):
                chk.failure("matched parents nest: returned %s (parent-major), document order is %s" % (got_plain, exp_s),
                            case, finding="deep-nested-order")
                chk.count("oracle:deep-nested-order")
            elif ok_shape and set(g) == set(e) and len(g) > len(e) and deep and parents_nest:
                chk.failure("deep search from a Result whose nodes nest: returned %s (duplicates), expected %s" % (got_plain, exp_s),
                            case, finding="nested-result-duplicates")
                chk.count("oracle:nested-result-duplicates")
            elif s[0] in ("R", "P", "U"):
                chk.failure("Result.%s returned %s; de-duplicated by NODE (not by content), in first-occurrence order, it is %s"
                            % ({"R": "roots", "P": "parents", "U": "upto(q)"}[s[0]], got_plain, exp_s), case)
            else:
                chk.failure("query returned %s, the matching chains end (in document order) at %s" % (got_plain, exp_s), case)
        if roots:
            if got_plain in ("err",) or got_plain.startswith("exc:"):
                return
            res = [] if got_plain == "-" else [int(x) for x in got_plain.split(",") if x not in ("N", "?")]
            want, seen = [], set()
            for i in res:
                u = doc.ultimate(i)
                if u not in seen:
                    seen.add(u)
                    want.append(u)
            want_s = ",".join(str(i) for i in want) if want else "-"
            if impl != want_s:
                chk.failure("roots=True returned %s, de-duplicated ultimate ancestors (a parentless node is its own) of %s are %s"
                            % (impl, got_plain, want_s), case)


def oracle_bool(chk, case, t, c):
    b, v = case["b"], case["v"]
    strict = strict_ref(b, v)
    if non_raising(b, v):
        if not (t == c == strict):
            chk.failure("non-raising expression: test()=%s, to_pyfunc()()=%s, truth value %s" % (t, c, strict), case)
    if strict == "x" and c is not False:
        chk.failure("a predicate raises during evaluation but the compiled form returned %s" % c, case)
    if len(leaves(b)) == 1 and b[0] not in ("and", "or", "not") and leaf_ref(b, v) == "x" and (t is not False or c is not False):
        chk.failure("a raising predicate matched: test()=%s, to_pyfunc()()=%s" % (t, c), case)


def impl_bool(case):
    try:
        obj = real_bexp(case["b"], bool(case.get("nary")))
        t = obj.test(case["v"])
        c = obj.to_pyfunc()(case["v"])
        if bool(obj(case["v"])) is not bool(t):
            return "exc:calling the Boolean differs from test()", "exc"
        return bool(t), bool(c)
    except Exception as ex:
        return "exc:" + type(ex).__name__, "exc"


# --------------------------------------------------------------------------- generators

def gen_val(rng, fam=None):
    r = rng.random()
    if fam is not None and r < 0.5:
        return rng.choice(fam)
    if r < 0.12:
        return rng.choice(CASE_STRS)
    if r < 0.6:
        return rng.choice(STRS)
    if r < 0.93:
        return rng.choice(INTS)
    return None


def case_family(names):
    """the strings to draw predicate arguments / values from when the names come from a case family"""
    strs = [n for n in names if isinstance(n, str)]
    if any(n in CASE_STRS for n in strs):
        for fam in CASE_FAMILIES:
            if any(n in fam for n in strs):
                return fam
    return None


def gen_bexp(rng, depth, fam=None):
    """fam: a family of case variants; arguments (and, by the caller, the tested values) are then mostly drawn from it"""
    r = rng.random()
    if depth <= 0 or r < 0.35:
        k = rng.random()
        if k < 0.06:
            return ["tt"]
        if k < 0.12:
            return ["ff"]
        if fam is not None and k < 0.75:
            op = rng.choice(OPS if rng.random() < 0.2 else ["eq", "contains", "startswith", "endswith"])
            return ["pi" if rng.random() < 0.75 else "p", op, rng.choice(fam)]
        if k < 0.55:
            return ["p", rng.choice(OPS), gen_val(rng)]
        if k < 0.85:
            return ["pi", rng.choice(OPS if rng.random() < 0.3 else ["eq", "contains", "startswith", "endswith"]),
                    rng.choice(STRS) if rng.random() < 0.85 else rng.choice(CASE_STRS)]
        return ["o", rng.randrange(N_OPQ) if rng.random() < 0.6 else 100 + rng.randrange(N_NAT), rng.random() < 0.3]
    if r < 0.55:
        return ["not", gen_bexp(rng, depth - 1, fam)]
    return [rng.choice(["and", "or"]), gen_bexp(rng, depth - 1, fam), gen_bexp(rng, depth - 1, fam)]


def gen_nq(rng, names, attr=False):
    r = rng.random()
    if not attr and r < 0.12:
        return ["any"]
    fam = case_family(names)
    if r < (0.55 if fam is None else 0.3):
        if attr:
            return ["lit", gen_val(rng, fam)]
        return ["lit", rng.choice(names) if rng.random() < 0.9 else rng.choice(INTS)]
    if r < 0.9:
        return ["b", gen_bexp(rng, rng.choice([0, 1, 1, 2, 3]), fam)]
    return ["f", rng.randrange(N_OPQ) if rng.random() < 0.5 else 100 + rng.randrange(N_NAT)]


def gen_eq(rng, names, depth):
    r = rng.random()
    if depth <= 0 or r < 0.5:
        k = rng.random()
        if k < 0.4:
            return ["anyA", gen_nq(rng, names, True)]
        if k < 0.7:
            return ["allA", gen_nq(rng, names, True)]
        a = gen_nq(rng, names, True) if rng.random() < 0.4 else None
        if a == ["lit", None]:
            a = None        # child_query(name, None) IS the name-only form: a None literal cannot be expressed
        return ["child", gen_nq(rng, names), a]
    if r < 0.65:
        return ["enot", gen_eq(rng, names, depth - 1)]
    return [rng.choice(["eand", "eor"]), gen_eq(rng, names, depth - 1), gen_eq(rng, names, depth - 1)]


def gen_query(rng, names):
    r = rng.random()
    if r < 0.45:       # levels that usually match, so that later levels and the options matter
        k = rng.random()
        nq = ["any"] if k < 0.25 else ["lit", rng.choice(names)] if k < 0.8 else \
            ["b", [rng.choice(["p", "pi"]), rng.choice(["eq", "startswith", "contains", "le", "ge"]), rng.choice(names)]]
        if k >= 0.8 and rng.random() < 0.3:
            nq = ["b", ["not", nq[1]]]
        return ["qn", nq] if rng.random() < 0.75 else ["qt", nq, []]
    r = rng.random()
    if r < 0.5:
        q = ["qn", gen_nq(rng, names)]
        if q[1][0] == "lit" and q[1][1] is None:
            q[1] = ["any"]
        return q
    if r < 0.82:
        return ["qt", gen_nq(rng, names), [gen_nq(rng, names, True) for _ in range(rng.choice([0, 1, 1, 1, 2, 3]))]]
    if r < 0.9:
        return ["qte", gen_nq(rng, names), gen_eq(rng, names, 1)]
    return ["qe", gen_eq(rng, names, 2)]


def gen_forest(rng, max_nodes):
    """1-3 document tops; few distinct names, so that levels match and matched nodes nest"""
    names = rng.sample(NAMES, rng.choice([1, 2, 2, 3]))
    fam = None
    if rng.random() < 0.22:       # names and attribute values that are case variants of each other (ß/ẞ/SS, Σ/σ/ς, İ/ı/i, …)
        fam = rng.choice(CASE_FAMILIES)
        names = rng.sample(fam, min(len(fam), rng.choice([2, 3, 3])))
    budget = [rng.randint(3, max_nodes)]
    nid = [0]

    def node(depth, top=False):
        i = nid[0]
        nid[0] += 1
        budget[0] -= 1
        if top:
            name, attrs = (None if rng.random() < 0.8 else rng.choice(names)), []
        else:
            name = rng.choice(names) if rng.random() < 0.93 else rng.choice([None, 5, "", 0, "", 0])
            attrs = [gen_val(rng, fam) for _ in range(rng.choice([0, 0, 1, 1, 1, 2, 3]))]
        t = {"id": i, "name": name, "attrs": attrs, "children": []}
        kmax = 0 if depth >= 6 else rng.choice([0, 1, 2, 2, 3, 4]) if not top else rng.choice([1, 2, 3, 4])
        for _ in range(kmax):
            if budget[0] <= 0:
                break
            t["children"].append(node(depth + 1))
        return t
    docs = []
    for _ in range(rng.choice([1, 1, 2, 3])):
        if budget[0] <= 0 and docs:
            break
        docs.append(node(0, top=True))
    return docs, names


def gen_sel_case(rng, max_nodes):
    docs, names = gen_forest(rng, max_nodes)
    r = rng.random()
    start = "doc %d" % rng.randrange(len(docs)) if r < 0.4 else "res" if r < 0.75 else "fn" if r < 0.88 else \
        "node %d" % rng.choice(Doc(docs).order)

    def sel_step(last):
        nq = rng.choice([0, 1, 1, 1, 2, 2, 2, 3, 3, 4]) if rng.random() < 0.04 or True else 1
        if nq == 0 and rng.random() < 0.8:
            nq = 2
        return ["S", rng.random() < 0.5, last and rng.random() < 0.5, [gen_query(rng, names) for _ in range(nq)]]

    def get_step():
        q = gen_query(rng, names)
        if q[0] == "qn" and q[1][0] == "lit" and isinstance(q[1][1], int):
            q = ["qt", q[1], []]          # conf[5] is positional indexing; conf[(5,)] is the query
        return ["G", q]

    def where_step():
        return ["W", gen_eq(rng, names, rng.choice([0, 1, 2])), rng.choice(["obj", "nv"])]
    steps = []
    if start != "fn" and rng.random() < 0.3:
        k = rng.random()
        steps.append(get_step() if k < 0.4 else sel_step(False) if k < 0.8 else where_step())
    k = rng.random()
    if steps or start != "fn":
        steps.append(get_step() if k < 0.15 else where_step() if k < 0.27 else sel_step(True))
    else:
        steps.append(sel_step(True))
    maybe_tail(rng, steps, names, start)
    return {"start": start, "docs": docs, "steps": steps, "via_find": rng.random() < 0.5, "opts": rng.choice(["bool", "bool", "int", "omit"])}


def maybe_tail(rng, steps, names, start, p=0.12):
    """Result.roots / .parents / .upto(q) on what the pipeline produced (a Result)"""
    last = steps[-1]
    if start == "fn" and len(steps) == 0:
        return
    if last[0] == "S" and (last[2] or not last[3]):
        return
    if rng.random() < p:
        k = rng.random()
        if k < 0.35:
            steps.append(["R"])
        elif k < 0.7:
            steps.append(["P"])
        else:
            q = gen_query(rng, names)
            if q[0] == "qn" and q[1][0] == "lit" and q[1][1] is None:
                q = ["qn", ["any"]]
            steps.append(["U", q])


RAISE_VALUES = ["a", "b", "A", "ab", "c", "", "", None, None, 0, 0, 5, "é", "Listen", "ba", 2, -5, 10, "straße", "İ"]
REGEX_VALUES = ["(", "[a", "*", "a", "b+", "a|", "\\", "12", "7", ""]


PX_PATTERNS = ["a", "^a", "b$", "[ab]+", "(", "[a", "", "A|é", "\\d+", "^$", "*", "^.{2}$"]


def gen_bexp_px(rng, depth):
    """boolean expressions over isin(values) / matches(pattern) leaves (no model counterpart) and ordinary leaves"""
    if depth <= 0 or rng.random() < 0.35:
        k = rng.random()
        if k < 0.35:
            return ["px", "isin", [rng.choice(RAISE_VALUES) for _ in range(rng.choice([0, 1, 2, 3, 4]))]]
        if k < 0.7:
            return ["px", "matches", rng.choice(PX_PATTERNS)]
        return gen_bexp(rng, 0)
    if rng.random() < 0.3:
        return ["not", gen_bexp_px(rng, depth - 1)]
    return [rng.choice(["and", "or"]), gen_bexp_px(rng, depth - 1), gen_bexp_px(rng, depth - 1)]


def sugar_name(n):
    """x.<n> is x["<n>"]: identifiers that are not members of Entry / Result (and not the special `name`)"""
    return isinstance(n, str) and n.isidentifier() and n != "name" and not n.startswith("__") and \
        not hasattr(Result, n) and not hasattr(Q.Section, n) and n not in Entry.__slots__


DICT_KEYS = ["a", "b", "A", "ab", "c", "", "Listen", "ba", "é", "10", "x y", "straße"]


def gen_dict(rng, depth=0, budget=None):
    """a JSON-like document for from_dict: nested dicts, lists of dicts (several entries of one name), lists of
    scalars (attributes; [] = none), scalars incl. None / 0 / ''"""
    budget = budget if budget is not None else [rng.randint(4, 20)]
    d = {}
    for k in rng.sample(DICT_KEYS, rng.choice([1, 2, 3, 4])):
        if budget[0] <= 0:
            break
        budget[0] -= 1
        r = rng.random()
        if depth < 3 and r < 0.3:
            d[k] = gen_dict(rng, depth + 1, budget)
        elif depth < 3 and r < 0.45:
            d[k] = [gen_dict(rng, depth + 1, budget) for _ in range(rng.choice([1, 2, 3]))]
        elif r < 0.6:
            d[k] = [rng.choice(RAISE_VALUES) for _ in range(rng.choice([0, 1, 2, 3]))]
        else:
            d[k] = rng.choice(RAISE_VALUES)
    return d


def build_case(c):
    """the real trees of a case: built by from_dict when the case carries a document, else node by node"""
    if c.get("from_dict") is not None:
        top = Q.from_dict(c["from_dict"])
        ident = {}
        desc = describe(top, ident, [0])
        return dict(c, docs=[desc]), [top], ident
    tops, ident, _k = build_entries(c["docs"])
    return c, tops, ident


def gen_raise_case(rng, pyonly=False, docs=None):
    """
    CALLABLE PREDICATES THAT RAISE, on purpose: small forests whose names and attribute values are the inputs on which
    the NATURAL predicates raise ('' / None / 0 / ints / names not in the table / non-ASCII) next to inputs on which they
    return True and False, and queries that put such a callable at every position a callable may stand in: bare name
    query, 1-tuple, tuple with one / several attribute callables, next to literals, inside pred(f) (plain and
    ignore_case) under ~ & |, inside any_/all_/child_query and their combinations, as argument of where() (called on
    the entry) and of upto(); run through select / find / [] / where / upto on Entry, Result, the module-level select
    and set_parents=False containers, every (deep, roots), 1-3 levels.  pyonly: predicates without a model
    counterpart (re.search on names that are broken patterns, int(), ...), judged by the oracle only.
    """
    values = RAISE_VALUES + (REGEX_VALUES if pyonly else [])
    names = rng.sample(values, rng.choice([3, 4, 5, 6]))
    if pyonly and rng.random() < 0.7:
        names += rng.sample(REGEX_VALUES, 2)
    if docs is not None:
        names = sorted(set(t["name"] for t in Doc(docs).by_id.values() if isinstance(t["name"], str))) or ["a"]
    budget = [rng.randint(4, 22)]
    nid = [0]

    def node(depth, top=False):
        i = nid[0]
        nid[0] += 1
        budget[0] -= 1
        name = (None if rng.random() < 0.6 else rng.choice(names)) if top else rng.choice(names)
        attrs = [] if top and rng.random() < 0.7 else [rng.choice(values) for _ in range(rng.choice([0, 1, 1, 2, 3]))]
        t = {"id": i, "name": name, "attrs": attrs, "children": []}
        kmax = 0 if depth >= 4 else rng.choice([0, 1, 2, 3]) if not top else rng.choice([2, 3, 4])
        for _ in range(kmax):
            if budget[0] <= 0:
                break
            t["children"].append(node(depth + 1))
        return t
    if docs is None:
        docs = [node(0, True) for _ in range(rng.choice([1, 1, 2]))]

    def fk():
        if pyonly and rng.random() < 0.7:
            return 200 + rng.randrange(len(PYONLY))
        return 100 + rng.randrange(N_NAT) if rng.random() < 0.9 else rng.randrange(N_OPQ)

    def fq():
        return ["f", fk()]

    def bq():       # pred(f) as a Boolean: plain / ignore_case, alone, negated, combined
        leaf = ["o", fk(), rng.random() < 0.3]
        k = rng.random()
        if k < 0.4:
            return ["b", leaf]
        if k < 0.6:
            return ["b", ["not", leaf]]
        other = ["p", rng.choice(OPS), rng.choice([v for v in values if v is not None])]
        if pyonly and rng.random() < 0.5:
            other = gen_bexp_px(rng, 0)
        pair = [leaf, other] if rng.random() < 0.5 else [other, leaf]
        return ["b", [rng.choice(["and", "or"])] + pair]

    def cq():       # a callable-bearing name / attribute query
        return fq() if rng.random() < 0.75 else bq()

    def lit(attr=False):
        v = rng.choice(values if attr else names)
        if v is None and not attr:
            return ["any"]          # a None in name position IS the match-anything query
        return ["lit", v]

    def eqq(depth=1):
        k = rng.random()
        if depth > 0 and k < 0.3:
            j = rng.random()
            if j < 0.3:
                return ["enot", eqq(depth - 1)]
            return [rng.choice(["eand", "eor"]), eqq(depth - 1), eqq(depth - 1)]
        if k < 0.55:
            return ["anyA", cq()]
        if k < 0.75:
            return ["allA", cq()]
        a = None if rng.random() < 0.5 else (cq() if rng.random() < 0.7 else lit(True))
        if a == ["lit", None]:
            a = None
        return ["child", cq() if (a is None or rng.random() < 0.6) else rng.choice([["any"], lit()]), a]

    def rq():
        k = rng.random()
        if k < 0.28:
            return ["qn", cq()]
        if k < 0.36:
            return ["qt", cq(), []]
        if k < 0.5:
            return ["qt", cq(), [cq()]]
        if k < 0.62:
            return ["qt", rng.choice([["any"], lit()]), [cq() for _ in range(rng.choice([1, 2, 3]))]]
        if k < 0.74:
            alts = [cq(), lit(True)] + ([cq()] if rng.random() < 0.4 else [])
            rng.shuffle(alts)
            return ["qt", rng.choice([["any"], cq()]), alts]
        if k < 0.86:
            return ["qte", rng.choice([["any"], cq(), lit()]), eqq()]
        return ["qe", eqq()]

    def level():
        k = rng.random()
        if k < 0.4:
            return rq()
        if k < 0.85:
            return ["qn", ["any"]]
        return ["qn", lit()]

    def as_key(q):
        if q[0] == "qn" and q[1][0] == "lit" and isinstance(q[1][1], int):
            return ["qt", q[1], []]
        return q

    r = rng.random()
    start = "doc %d" % rng.randrange(len(docs)) if r < 0.4 else "res" if r < 0.65 else "fn" if r < 0.78 else \
        "choose" if r < 0.86 else "node %d" % rng.choice(Doc(docs).order)
    steps = []
    flat = start in ("fn", "choose")
    sugar = [n for n in names if sugar_name(n)]
    if start.startswith("node") and rng.random() < 0.3:        # Entry.upto(q) straight from an inner entry
        case = {"start": start, "docs": docs, "steps": [["U", as_key(rq())]], "via_find": False, "opts": "bool"}
        if pyonly:
            case["pyonly"] = True
        return case
    if not flat and rng.random() < 0.35:
        k = rng.random()
        steps.append(["G", as_key(level())] if k < 0.3 else ["S", rng.random() < 0.5, False, [level()]] if k < 0.7 else
                     ["WF", rng.randrange(N_NAT_E)] if k < 0.85 or not sugar else ["A", rng.choice(sugar)])
    k = rng.random()
    if not flat and sugar and k < 0.05:
        steps.append(["A", rng.choice(sugar)])
    elif flat or k < 0.5:
        nlev = rng.choice([1, 1, 1, 2, 2, 3])
        qs = [level() for _ in range(nlev - 1)] + [rq()]
        if rng.random() < 0.3:
            rng.shuffle(qs)
        steps.append(["S", rng.random() < 0.5, rng.random() < 0.4, qs])
    elif k < 0.68:
        steps.append(["G", as_key(rq())])
    elif k < 0.8:
        e = eqq(2)
        steps.append(["W", e, "obj"])
    else:
        steps.append(["WF", rng.randrange(N_NAT_E)])
    last = steps[-1]
    if not (last[0] == "S" and last[2]) and rng.random() < 0.3:
        k = rng.random()
        steps.append(["U", as_key(rq())] if k < 0.7 else ["R"] if k < 0.85 else ["P"])
    elif pyonly and not (last[0] == "S" and last[2]) and rng.random() < 0.3:
        steps.append(["N", rng.choice([0, 0, 1, -1, 2, -2])])
    case = {"start": start, "docs": docs, "steps": steps, "via_find": rng.random() < 0.5, "opts": rng.choice(["bool", "int", "omit"])}
    if pyonly:
        case["pyonly"] = True
    return case


def uses_pyonly(x):
    if isinstance(x, list):
        if len(x) >= 2 and x[0] in ("f", "o") and isinstance(x[1], int) and x[1] >= 200:
            return True
        if len(x) == 3 and x[0] == "px":
            return True
        if len(x) == 2 and x[0] == "N":
            return True
        return any(uses_pyonly(y) for y in x)
    return False


def raising_inputs(case):
    """number of (callable, value) pairs of the case on which the callable raises: what makes the case non-trivial"""
    vals = set()
    for t in Doc(case["docs"]).by_id.values():
        vals.add(("v", t["name"]))
        for a in t["attrs"]:
            vals.add(("v", a))
    ks = set()

    def walk(x):
        if isinstance(x, list):
            if len(x) >= 2 and x[0] in ("f", "o") and isinstance(x[1], int):
                ks.add(x[1])
            for y in x:
                walk(y)
    walk(case["steps"])
    n = 0
    for k in ks:
        f = opq(k)
        for _, v in vals:
            try:
                f(v)
            except Exception:
                n += 1
    return n


def gen_identical_case(rng):
    """
    Forests in which 2-4 hit-bearing trees / subtrees are STRUCTURALLY IDENTICAL (deep copies) next to slightly
    different ones: several documents (Result(children=[d1, d2, d3]), module-level select over the tops) and single
    trees with the same subtree repeated at several levels.  Every node gets its own hidden index.
    """
    import copy
    names = rng.sample(sorted(set(NAMES)), rng.choice([2, 2, 3]))

    def gen_base(depth):
        t = {"name": rng.choice(names), "attrs": [gen_val(rng) for _ in range(rng.choice([0, 1, 1, 2]))], "children": []}
        if depth < 2:
            for _ in range(rng.choice([1, 2, 2, 3]) if depth == 0 else rng.choice([0, 1, 2])):
                t["children"].append(gen_base(depth + 1))
        return t

    def nodes_of(t):
        out = [t]
        for c in t["children"]:
            out += nodes_of(c)
        return out

    def variant(t):
        v = copy.deepcopy(t)
        n = rng.choice(nodes_of(v))
        k = rng.random()
        if k < 0.35:
            n["attrs"] = n["attrs"] + [gen_val(rng)]
        elif k < 0.6 and n["children"]:
            n["children"].pop()
        elif k < 0.8:
            n["name"] = rng.choice(names + ["c"])
        else:
            n["children"].append({"name": rng.choice(names), "attrs": [], "children": []})
        return v

    def wrap(children, name=None):
        return {"name": name if name is not None else rng.choice(names + ["w"]), "attrs": [], "children": children}
    base = gen_base(0)
    cp = lambda: copy.deepcopy(base)
    layout = rng.choice(["docs", "docs", "tops", "tree", "tree"])
    if layout == "docs":            # the same document loaded several times, next to a slightly different one
        doc = {"name": None, "attrs": [], "children": [cp()] + ([cp()] if rng.random() < 0.3 else []) +
               ([gen_base(1)] if rng.random() < 0.4 else [])}
        docs = [copy.deepcopy(doc) for _ in range(rng.choice([2, 3, 4]))]
        for _ in range(rng.choice([0, 1, 1, 2])):
            d = copy.deepcopy(doc)
            d["children"][0] = variant(d["children"][0])
            docs.append(d)
        rng.shuffle(docs)
        r = rng.random()
        start = "res" if r < 0.55 else "fn" if r < 0.75 else "doc %d" % rng.randrange(len(docs))
    elif layout == "tops":          # identical parentless trees handed to the module-level select / wrapped in a Result
        docs = [cp() for _ in range(rng.choice([2, 3, 4]))] + [variant(base) for _ in range(rng.choice([0, 1, 2]))]
        rng.shuffle(docs)
        start = "fn" if rng.random() < 0.6 else "res"
    else:                           # one tree, the same subtree repeated at several levels
        inner = cp()
        leafs = [n for n in nodes_of(inner) if not n["children"]]
        if leafs and rng.random() < 0.6:
            rng.choice(leafs)["children"].append(cp())          # a copy below a copy
        kids = [cp(), variant(base), cp(), wrap([cp(), cp()], "w"), wrap([cp(), cp()], "w"),
                wrap([wrap([cp()])]), inner, copy.deepcopy(inner)]
        rng.shuffle(kids)
        kids = kids[:rng.randint(3, len(kids))]
        docs = [{"name": None, "attrs": [], "children": kids}]
        if rng.random() < 0.3:
            docs.append(copy.deepcopy(docs[0]))
        r = rng.random()
        start = "doc 0" if r < 0.55 else "res" if r < 0.8 else "node"
    nid = [0]

    def number(t):
        t["id"] = nid[0]
        nid[0] += 1
        for c in t["children"]:
            number(c)
    for d in docs:
        number(d)
    if start == "node":
        start = "node %d" % rng.randrange(nid[0])

    def q_for(n):
        """a query level the node n (of the base subtree) satisfies, mostly"""
        k = rng.random()
        if k < 0.55:
            return ["qn", ["lit", n["name"]]]
        if k < 0.68:
            return ["qn", ["any"]]
        if k < 0.85 and n["attrs"]:
            return ["qt", ["lit", n["name"]], [["lit", rng.choice(n["attrs"])]]]
        if k < 0.93:
            return ["qn", ["b", ["p", rng.choice(["eq", "le", "ge", "startswith"]), n["name"]]]]
        return gen_query(rng, names)

    def chain(deep):
        n = rng.choice(nodes_of(base)) if deep and rng.random() < 0.6 else base
        out = [n]
        while n["children"] and rng.random() < 0.6:
            n = rng.choice(n["children"])
            out.append(n)
        return out

    def sel_step(last):
        deep = rng.random() < 0.55
        if rng.random() < 0.8:
            qs = [q_for(n) for n in chain(deep)]
            if not deep and layout == "docs" and start == "fn":
                qs.insert(0, ["qn", ["any"]])
        else:
            qs = [gen_query(rng, names) for _ in range(rng.choice([1, 1, 2, 2, 3]))]
        return ["S", deep, last and rng.random() < 0.5, qs]

    def get_step():
        q = q_for(base) if rng.random() < 0.75 else gen_query(rng, names)
        if q[0] == "qn" and q[1][0] == "lit" and isinstance(q[1][1], int):
            q = ["qt", q[1], []]
        return ["G", q]

    def where_step():
        if base["children"] and rng.random() < 0.7:
            c = rng.choice(base["children"])
            e = ["child", ["lit", c["name"]], None]
            if rng.random() < 0.3:
                e = rng.choice([["enot", e], ["eor", e, ["anyA", ["lit", gen_val(rng)]]]])
        else:
            e = gen_eq(rng, names, rng.choice([0, 1]))
        return ["W", e, rng.choice(["obj", "nv"])]
    steps = []
    if start == "fn":
        steps.append(sel_step(rng.random() < 0.6))
    else:
        k = rng.random()
        steps.append(sel_step(rng.random() < 0.45) if k < 0.65 else get_step() if k < 0.85 else where_step())
    if not (steps[-1][0] == "S" and steps[-1][2]):
        k = rng.random()
        if k < 0.2:
            steps.append(sel_step(True))
        elif k < 0.3:
            steps.append(get_step())
        elif k < 0.36:
            steps.append(where_step())
        else:
            maybe_tail(rng, steps, names, start, p=0.7)
    return {"start": start, "docs": docs, "steps": steps, "via_find": rng.random() < 0.5, "layout": layout}


# generated nginx configuration, parsed by the real parser

NGX_DIR = ["listen", "root", "server_name", "return", "index"]
NGX_SEC = ["server", "location", "http", "events"]
NGX_ARG = ["80", "443", "/", "/var/www", "/VAR", "a.example.com", "ssl", "404", "x", "X"]


def gen_nginx(rng):
    lines = []

    def block(depth, budget):
        n = rng.randint(1, 4)
        for _ in range(n):
            if budget[0] <= 0:
                return
            budget[0] -= 1
            if depth < 4 and rng.random() < 0.45:
                name = rng.choice(["location", "location", "server", rng.choice(NGX_SEC)])
                args = [rng.choice(NGX_ARG)] if name == "location" or rng.random() < 0.2 else []
                lines.append("  " * depth + " ".join([name] + args) + " {")
                block(depth + 1, budget)
                lines.append("  " * depth + "}")
            else:
                lines.append("  " * depth + " ".join([rng.choice(NGX_DIR)] + [rng.choice(NGX_ARG) for _ in range(rng.choice([1, 1, 2]))]) + ";")
    block(0, [rng.randint(4, 30)])
    return "\n".join(lines) + "\n"


def describe(entry, ident, nid):
    i = nid[0]
    nid[0] += 1
    ident[id(entry)] = i
    name = entry._name
    attrs = list(entry.attrs)
    for a in [name] + attrs:
        if not (a is None or (isinstance(a, int) and not isinstance(a, bool)) or isinstance(a, str)):
            raise ValueError("value outside the model: %r" % (a,))
    return {"id": i, "name": name, "attrs": attrs, "children": [describe(c, ident, nid) for c in entry.children]}


# --------------------------------------------------------------------------- histories: combinations are values
#
# A program builds combinations one after the other from REAL objects; later combinations use earlier ones
# (the same Python objects) as left / right operands of & and |, under ~, in chains, inside any_/all_/child_query
# and inside queries.  Statements:
#   ["LB", term, nary]       x_n = a Boolean; operands may be ["ref", i]
#   ["LE", eterm]            e_n = an entry query; operands may be ["eref", i] (and ["b", ["ref", i]] attribute queries)
#   ["TB", i, values]        truth table of x_i: test(v), the function compiled when x_i was built, one compiled now
#   ["TE", i, node ids]      truth table of e_i on nodes: test(n), compiled-then, compiled-now
#   ["Q", start, steps, via_find]   a select / find / [] / where pipeline whose queries may use the bindings
# Every TB / TE / Q is repeated after later bindings were made; the model answers from the term as written.

def expand_b(t, envd):
    k = t[0]
    if k == "ref":
        return envd["B"][t[1]]
    if k in ("and", "or"):
        return [k, expand_b(t[1], envd), expand_b(t[2], envd)]
    if k == "not":
        return ["not", expand_b(t[1], envd)]
    return t


def expand_nq(n, envd):
    return ["b", expand_b(n[1], envd)] if n is not None and n[0] == "b" else n


def expand_eq(e, envd):
    k = e[0]
    if k == "eref":
        return envd["E"][e[1]]
    if k in ("anyA", "allA"):
        return [k, expand_nq(e[1], envd)]
    if k == "child":
        return ["child", expand_nq(e[1], envd), expand_nq(e[2], envd)]
    if k in ("eand", "eor"):
        return [k, expand_eq(e[1], envd), expand_eq(e[2], envd)]
    return ["enot", expand_eq(e[1], envd)]


def expand_query(q, envd):
    k = q[0]
    if k == "qn":
        return ["qn", expand_nq(q[1], envd)]
    if k == "qt":
        return ["qt", expand_nq(q[1], envd), [expand_nq(a, envd) for a in q[2]]]
    if k == "qte":
        return ["qte", expand_nq(q[1], envd), expand_eq(q[2], envd)]
    return ["qe", expand_eq(q[1], envd)]


def expand_step(s, envd):
    if s[0] == "S":
        return ["S", s[1], s[2], [expand_query(q, envd) for q in s[3]]]
    if s[0] == "W":
        return ["W", expand_eq(s[1], envd)] + list(s[2:])
    if s[0] in ("R", "P"):
        return list(s)
    return [s[0], expand_query(s[1], envd)]


def snap(o):
    """structure of a combination: classes, operand identities, operand structures"""
    t = type(o).__name__
    ex = getattr(o, "exprs", None)
    if isinstance(ex, (list, tuple)):
        return (t, "exprs", tuple((id(x), snap(x)) for x in ex))
    q = getattr(o, "query", None)
    if isinstance(o, B.Not) and q is not None:
        return (t, "query", id(q), snap(q))
    if isinstance(o, B.Predicate):
        return (t, id(o.func), repr(o.args))
    if hasattr(o, "expr"):
        return (t, id(o.expr))
    return (t, id(o))


def interp_ref(b, v):
    """Boolean.test as documented: a raising predicate is False, the connectives are plain logic"""
    k = b[0]
    if k == "tt":
        return True
    if k == "ff":
        return False
    if k == "and":
        return interp_ref(b[1], v) and interp_ref(b[2], v)
    if k == "or":
        return interp_ref(b[1], v) or interp_ref(b[2], v)
    if k == "not":
        return not interp_ref(b[1], v)
    return leaf_ref(b, v) is True


def tok_stmt(st, docs):
    k = st[0]
    if k == "LB":
        return ["LB"] + tok_bexp(st[1])
    if k == "LE":
        return ["LE"] + tok_eq(st[1])
    if k == "TB":
        return ["TB", str(st[1]), str(len(st[2]))] + [tok_val(v) for v in st[2]]
    if k == "TE":
        paths = node_paths(docs)
        return ["TE", str(st[1]), str(len(st[2]))] + [paths[i] for i in st[2]]
    if k == "Q":
        a = start_tok(st[1], docs).split()
        out = ["Q", a[0], a[1] if len(a) > 1 else "-", str(len(st[2]))]
        for s in st[2]:
            out += tok_step(s)
        return out
    raise ValueError(st)


def prog_line(prog):
    docs = [str(len(prog["docs"]))]
    for t in prog["docs"]:
        docs += tok_tree(t)
    n_out = [str(len(prog["stmts"]))]
    for st in prog["stmts"]:
        n_out += tok_stmt(st, prog["docs"])
    return "prog\t%s\t%s\t%s" % (" ".join(docs), " ".join(n_out), lower_table(prog["docs"], prog["stmts"]))


class _ProgSink(object):
    """oracle failures inside a program are reported with the WHOLE program as the replayable case"""

    def __init__(self, chk, prog):
        self.chk, self.case = chk, {"kind": "prog", "case": prog}

    def failure(self, desc, case=None, finding=None):
        self.chk.failure(desc, self.case, finding=finding)

    def count(self, *a, **k):
        self.chk.count(*a, **k)


def exec_prog(prog, sink):
    """run the program on real objects; returns the answers of the TB / TE / Q statements (as the driver prints them)"""
    tops, ident, _keep = build_entries(prog["docs"])
    by_nid = dict((ident[id(e)], e) for e in _all_entries(tops))
    doc = Doc(prog["docs"])
    env = {"B": [], "E": []}          # the real objects
    envd = {"B": [], "E": []}         # what each was built as (references expanded)
    fb, fe = [], []                   # compiled when built
    snaps = {"B": [], "E": []}
    first_t = {}
    outs = []

    def check_structures(after):
        for kind in ("B", "E"):
            for i, o in enumerate(env[kind]):
                if snaps[kind][i] is not None and snap(o) != snaps[kind][i]:
                    sink.failure("the structure of %s%d changed when it was used as an operand of %s" %
                                 ("x" if kind == "B" else "e", i, after))
                    snaps[kind][i] = None       # report once

    for st in prog["stmts"]:
        k = st[0]
        try:
            if k == "LB":
                o = real_bexp(st[1], bool(st[2]), env)
                env["B"].append(o)
                envd["B"].append(expand_b(st[1], envd))
                fb.append(o.to_pyfunc())
                snaps["B"].append(snap(o))
                check_structures("x%d" % (len(env["B"]) - 1))
            elif k == "LE":
                o = real_eq(st[1], env)
                env["E"].append(o)
                envd["E"].append(expand_eq(st[1], envd))
                fe.append(o.to_pyfunc())
                snaps["E"].append(snap(o))
                check_structures("e%d" % (len(env["E"]) - 1))
            elif k == "TB":
                i, o, d = st[1], env["B"][st[1]], envd["B"][st[1]]
                cells = []
                now = o.to_pyfunc()
                for v in st[2]:
                    t, f0, f1 = bool(o.test(v)), bool(fb[i](v)), bool(now(v))
                    cells.append(fmt(t) + (fmt(f0) if f0 == f1 else "!"))
                    strict = strict_ref(d, v)
                    if non_raising(d, v) and not (t == f0 == f1 == strict):
                        sink.failure("x%d on %r: test()=%s, compiled when built=%s, compiled now=%s; as built it means %s"
                                     % (i, v, t, f0, f1, strict))
                    elif strict == "x" and (f0 or f1):
                        sink.failure("x%d on %r: a predicate raises, compiled when built=%s, compiled now=%s" % (i, v, f0, f1))
                    key = (i, repr(v))
                    if first_t.setdefault(key, t) != t:
                        sink.failure("x%d on %r: test() was %s when x%d was built and is %s after later combinations were built"
                                     % (i, v, first_t[key], i, t))
                outs.append("".join(cells))
            elif k == "TE":
                i, o, d = st[1], env["E"][st[1]], envd["E"][st[1]]
                cells = []
                now = o.to_pyfunc()
                for nid in st[2]:
                    n = by_nid[nid]
                    t, g0, g1 = bool(o.test(n)), bool(fe[i](n)), bool(now(n))
                    cells.append(fmt(g0) if t == g0 == g1 else "!")
                    want = ref_eq(d, doc.by_id[nid])
                    if not (t == g0 == g1 == want):
                        sink.failure("e%d on node %d: test()=%s, compiled when built=%s, compiled now=%s; as built it means %s"
                                     % (i, nid, t, g0, g1, want))
                outs.append("".join(cells))
            elif k == "Q":
                case = {"start": st[1], "docs": prog["docs"], "steps": st[2], "via_find": st[3]}
                a, plain = run_impl(case, tops, ident, env=env)
                outs.append(a)
                oracle_select(sink, dict(case, steps=[expand_step(s, envd) for s in st[2]]), a, plain_ids(plain, ident))
        except Exception as ex:
            sink.failure("statement %r raised %s: %s" % (st[0], type(ex).__name__, ex))
            if k in ("TB", "TE", "Q"):
                outs.append("exc:" + type(ex).__name__)
    return ";".join(outs)


def gen_leaf(rng, names):
    k = rng.random()
    if k < 0.5:
        return [rng.choice(["p", "pi"]), rng.choice(["eq", "startswith", "contains", "endswith", "le", "ge"]), rng.choice(names)]
    if k < 0.8:
        return ["p", rng.choice(OPS), gen_val(rng)]
    if k < 0.9:
        return ["o", rng.randrange(N_OPQ), rng.random() < 0.3]
    return rng.choice([["tt"], ["ff"]])


def gen_bexp_exact(rng, depth, names):
    """a combination nested to exactly this depth"""
    if depth <= 0:
        return gen_leaf(rng, names)
    if rng.random() < 0.3:
        return ["not", gen_bexp_exact(rng, depth - 1, names)]
    a = gen_bexp_exact(rng, depth - 1, names)
    b = gen_bexp_exact(rng, rng.randint(0, depth - 1), names)
    if rng.random() < 0.5:
        a, b = b, a
    return [rng.choice(["and", "or"]), a, b]


def gen_eq_exact(rng, depth, names, nb):
    """an entry query nested to this depth; attribute queries may be Booleans built before"""
    def aq():
        k = rng.random()
        if nb and k < 0.35:
            return ["b", ["ref", rng.randrange(nb)]]
        if k < 0.6:
            return ["b", gen_leaf(rng, names)]
        return ["lit", gen_val(rng)]

    def nq():
        k = rng.random()
        if nb and k < 0.3:
            return ["b", ["ref", rng.randrange(nb)]]
        return ["any"] if k < 0.45 else ["lit", rng.choice(names)]
    if depth <= 0:
        k = rng.random()
        if k < 0.4:
            return ["anyA", aq()]
        if k < 0.65:
            return ["allA", aq()]
        a = aq() if rng.random() < 0.4 else None
        return ["child", nq(), None if a == ["lit", None] else a]
    if rng.random() < 0.3:
        return ["enot", gen_eq_exact(rng, depth - 1, names, nb)]
    a = gen_eq_exact(rng, depth - 1, names, nb)
    b = gen_eq_exact(rng, rng.randint(0, depth - 1), names, nb)
    if rng.random() < 0.5:
        a, b = b, a
    return [rng.choice(["eand", "eor"]), a, b]


def gen_history(rng):
    docs, names = gen_forest(rng, 14)
    ids = Doc(docs).order
    vals = [rng.choice(names), rng.choice(names).upper(), rng.choice(STRS), rng.choice(INTS), None, gen_val(rng)]
    stmts = []
    nb = [0]

    def let_b(term, nary=False):
        stmts.append(["LB", term, nary])
        nb[0] += 1
        return nb[0] - 1

    def starts():
        r = rng.random()
        return "doc %d" % rng.randrange(len(docs)) if r < 0.5 else "res" if r < 0.85 else "node %d" % rng.choice(ids)

    # ---- Booleans
    b = let_b(gen_bexp_exact(rng, rng.choice([3, 3, 4]), names))
    stmts.append(["TB", b, vals])
    c = let_b(gen_bexp_exact(rng, rng.choice([0, 1]), names))
    d = let_b(gen_bexp_exact(rng, rng.choice([0, 1, 2]), names), rng.random() < 0.3)
    R = lambda i: ["ref", i]
    qb = [["qn", ["b", R(b)]], ["qt", ["any"], [["b", R(b)]]], ["qt", ["b", R(b)], [["b", R(c)], ["lit", gen_val(rng)]]]]
    queries = []
    for _ in range(3):
        q = rng.choice(qb)
        k = rng.random()
        if k < 0.2:
            steps = [["G", q]]
        elif k < 0.6:
            steps = [["S", rng.random() < 0.6, rng.random() < 0.5, [q]]]
        else:
            steps = [["S", rng.random() < 0.6, rng.random() < 0.5, [rng.choice([["qn", ["any"]], q]), q]]]
        queries.append(["Q", starts(), steps, rng.random() < 0.5])
    stmts.extend(queries)
    derived = [["and", R(b), R(c)], ["and", R(c), R(b)], ["or", R(b), R(c)], ["or", R(c), R(b)], ["not", R(b)],
               ["and", ["and", R(b), R(c)], R(d)], ["or", ["or", R(b), R(c)], R(d)],
               ["and", R(b), ["not", R(b)]], ["or", ["not", R(c)], R(b)]]
    rng.shuffle(derived)
    made = []
    for t in derived:
        i = let_b(t, t[0] in ("and", "or") and t[1][0] == t[0] and rng.random() < 0.3)
        made.append((i, t))
        stmts.append(["TB", i, vals])
        if rng.random() < 0.5:
            stmts.append(["TB", b, vals])
    # chains continued from DERIVED objects: (b & c) & d, (b | c) | d, d & (c & b), ~(~b)
    for i, t in list(made):
        if t[0] in ("and", "or") and t[1][0] == "ref" and rng.random() < 0.7:
            j = let_b([t[0], R(i), R(d)] if rng.random() < 0.6 else [t[0], R(d), R(i)])
            stmts.append(["TB", j, vals])
            stmts.append(["TB", i, vals])
        elif t[0] == "not" and rng.random() < 0.7:
            j = let_b(["not", R(i)])
            stmts.append(["TB", j, vals])
    for _ in range(rng.randint(1, 3)):
        x, y = rng.randrange(nb[0]), rng.randrange(nb[0])
        j = let_b(rng.choice([["and", R(x), R(y)], ["or", R(x), R(y)], ["not", R(x)], ["and", R(x), R(x)]]))
        stmts.append(["TB", j, vals])
    for i in range(nb[0]):
        stmts.append(["TB", i, vals])
    stmts.extend(queries)

    # ---- entry queries
    ne = [0]

    def let_e(term):
        stmts.append(["LE", term])
        ne[0] += 1
        return ne[0] - 1
    E = lambda i: ["eref", i]
    e = let_e(gen_eq_exact(rng, rng.choice([2, 2, 3]), names, nb[0]))
    stmts.append(["TE", e, ids])
    f = let_e(gen_eq_exact(rng, rng.choice([0, 1]), names, nb[0]))
    g = let_e(gen_eq_exact(rng, rng.choice([0, 1]), names, nb[0]))
    equeries = []
    for _ in range(3):
        k = rng.random()
        if k < 0.3:
            steps = [["W", E(e), "obj"]]
            if rng.random() < 0.5:
                steps.insert(0, ["S", True, False, [["qn", ["any"]]]])
        elif k < 0.45:
            steps = [["G", ["qe", E(e)]]]
        elif k < 0.75:
            steps = [["S", rng.random() < 0.6, rng.random() < 0.5, [rng.choice([["qe", E(e)], ["qte", ["any"], E(e)]])]]]
        else:
            steps = [["S", rng.random() < 0.6, rng.random() < 0.5, [["qn", ["any"]], ["qe", E(e)]]]]
        equeries.append(["Q", starts(), steps, rng.random() < 0.5])
    stmts.extend(equeries)
    ederived = [["eand", E(e), E(f)], ["eand", E(f), E(e)], ["eor", E(e), E(f)], ["eor", E(f), E(e)], ["enot", E(e)],
                ["eand", ["eand", E(e), E(f)], E(g)], ["eor", ["eor", E(e), E(f)], E(g)]]
    rng.shuffle(ederived)
    emade = []
    for t in ederived:
        i = let_e(t)
        emade.append((i, t))
        stmts.append(["TE", i, ids])
        if rng.random() < 0.5:
            stmts.append(["TE", e, ids])
    for i, t in list(emade):
        if t[0] in ("eand", "eor") and t[1][0] == "eref" and rng.random() < 0.7:
            j = let_e([t[0], E(i), E(g)] if rng.random() < 0.6 else [t[0], E(g), E(i)])
            stmts.append(["TE", j, ids])
            stmts.append(["TE", i, ids])
    for i in range(ne[0]):
        stmts.append(["TE", i, ids])
    stmts.extend(equeries)
    for i in range(nb[0]):          # the Booleans once more, after they were used inside entry queries and selects
        stmts.append(["TB", i, vals[:3]])
    return {"docs": docs, "stmts": stmts}


# --------------------------------------------------------------------------- provenance: literals compare by VALUE
#
# The same forest in three provenances (constructed / pickled + unpickled / deep-copied), its names and attributes
# in one of three styles (given to the constructor / assigned after construction as run-time built strs and equal
# floats / assigned as str-subclass instances), every query literal in two provenances (interned source literal /
# built at run time, floats for ints): all combinations must return the same nodes (by position) and those of
# the model, for which names are plain values.  Every pipeline is also run several times, interleaved with other
# roots=True queries, on the same objects: the de-duplication state is per call.

P_NAMES = ["ab", "Ab", "abc", "srv", "node_1", "a b", "éé", "x", 5, None, BYTES_TAG + "ab"]
P_ATTRS = ["ab", "v1", "/var", "abc", 1, 0, 80, None, BYTES_TAG + "ab", "x"]


def build_entries_styled(docs, style):
    ident, keep = {}, []

    def mk(t):
        kids = [mk(c) for c in t["children"]]
        name_bytes = isinstance(t["name"], str) and t["name"].startswith(BYTES_TAG)
        if style == "plain" and not name_bytes:
            e = Entry(name=real_val(t["name"], "source"), attrs=tuple(real_val(a, "source") for a in t["attrs"]), children=kids)
        else:       # values assigned after construction (the constructor decodes bytes names and refuses str subclasses)
            e = Entry(name=None, attrs=(), children=kids)
            st = "source" if style == "plain" else style
            e._name = real_val(t["name"], st)
            e.attrs = tuple(real_val(a, st) for a in t["attrs"])
        ident[id(e)] = t["id"]
        keep.append(e)
        return e
    return [mk(t) for t in docs], ident, keep


def transfer_ident(old_tops, new_tops, ident):
    out, keep = {}, []
    stack = list(zip(old_tops, new_tops))
    while stack:
        a, b = stack.pop()
        out[id(b)] = ident[id(a)]
        keep.append(b)
        stack.extend(zip(a.children, b.children))
    return out, keep


def gen_prov_case(rng):
    names = rng.sample([n for n in P_NAMES if isinstance(n, str) and not n.startswith(BYTES_TAG)], 2) + \
        ([rng.choice([5, None, BYTES_TAG + "ab"])] if rng.random() < 0.35 else [])
    nid = [0]
    budget = [rng.randint(4, 22)]

    def node(depth, top=False):
        t = {"id": nid[0], "name": None if (top and rng.random() < 0.7) else rng.choice(names),
             "attrs": [] if top else [rng.choice(P_ATTRS) for _ in range(rng.choice([0, 1, 1, 2]))], "children": []}
        nid[0] += 1
        budget[0] -= 1
        for _ in range(rng.choice([1, 2, 3]) if top else (0 if depth >= 4 else rng.choice([0, 1, 2, 2, 3]))):
            if budget[0] <= 0:
                break
            t["children"].append(node(depth + 1))
        return t
    docs = [node(0, True) for _ in range(rng.choice([1, 1, 2]))]
    all_nodes = Doc(docs)
    used_attrs = [a for t in all_nodes.by_id.values() for a in t["attrs"]] or P_ATTRS

    def attr_lit():
        return ["lit", rng.choice(used_attrs) if rng.random() < 0.7 else rng.choice(P_ATTRS)]

    def lit_query():
        k = rng.random()
        n = ["lit", rng.choice(names)] if rng.random() < 0.85 else ["lit", rng.choice(P_NAMES)]
        if n[1] is None:
            n = ["any"]
        if k < 0.5:
            return ["qn", n]
        if k < 0.6:
            return ["qn", ["any"]]
        return ["qt", n if rng.random() < 0.6 else ["any"], [attr_lit() for _ in range(rng.choice([0, 1, 1, 2]))]]

    def pipeline():
        r = rng.random()
        start = "doc %d" % rng.randrange(len(docs)) if r < 0.5 else "res" if r < 0.75 else "fn" if r < 0.85 else \
            "node %d" % rng.choice(all_nodes.order)
        steps = []
        k = rng.random()
        if start == "fn" or k < 0.6:
            steps.append(["S", rng.random() < 0.6, rng.random() < 0.6, [lit_query() for _ in range(rng.choice([1, 1, 1, 2, 2, 3]))]])
        elif k < 0.8:
            q = lit_query()
            if q[0] == "qn" and q[1][0] == "lit" and isinstance(q[1][1], int):
                q = ["qt", q[1], []]
            steps.append(["G", q])
        else:
            a = attr_lit() if rng.random() < 0.4 else None
            steps.append(["W", ["child", ["lit", rng.choice(names)] if rng.random() < 0.8 else ["any"],
                                None if a == ["lit", None] else a], rng.choice(["obj", "nv"])])
            if steps[-1][1][1] == ["lit", None]:
                steps[-1][1][1] = ["any"]
        if not (steps[-1][0] == "S" and steps[-1][2]):
            k = rng.random()
            if k < 0.25:
                steps.append(["S", rng.random() < 0.5, rng.random() < 0.6, [lit_query() for _ in range(rng.choice([1, 2]))]])
            elif k < 0.4:
                steps.append(rng.choice([["R"], ["P"], ["U", ["qn", ["lit", rng.choice(names)]]]]))
                if steps[-1][0] == "U" and steps[-1][1][1][1] is None:
                    steps[-1] = ["R"]
        return {"start": start, "steps": steps, "via_find": rng.random() < 0.5}
    pipes = [pipeline() for _ in range(rng.choice([2, 3]))]
    if not any(p["steps"][-1][0] == "S" and p["steps"][-1][2] for p in pipes):       # at least one roots=True call
        pipes.append({"start": "res", "via_find": True,
                      "steps": [["S", True, True, [["qn", ["lit", rng.choice(names)] if rng.random() < 0.8 else ["any"]]]]]})
        if pipes[-1]["steps"][0][3][0][1] == ["lit", None]:
            pipes[-1]["steps"][0][3][0][1] = ["any"]
    order = list(range(len(pipes))) + [0] + [rng.randrange(len(pipes)) for _ in range(2)] + [len(pipes) - 1, 0]
    return {"docs": docs, "style": rng.choice(["plain", "plain", "runtime", "runtime", "subclass"]), "pipes": pipes, "order": order}


def exec_prov(case, sink):
    """answers per pipeline ("!…" when the provenances / repeated calls disagree), and the roots-free result of each"""
    base_tops, base_ident, keep0 = build_entries_styled(case["docs"], case["style"])
    forests = {"constructed": (base_tops, base_ident)}
    t = pickle.loads(pickle.dumps(base_tops, protocol=pickle.HIGHEST_PROTOCOL))
    forests["pickled"] = (t, transfer_ident(base_tops, t, base_ident)[0])
    t = copy.deepcopy(base_tops)
    forests["deep-copied"] = (t, transfer_ident(base_tops, t, base_ident)[0])
    seen = [dict() for _ in case["pipes"]]      # pipeline -> {answer: [where it was seen]}
    plains = [None] * len(case["pipes"])
    for tprov in ("constructed", "pickled", "deep-copied"):
        tops, ident = forests[tprov]
        for call, pi in enumerate(case["order"]):
            pipe = case["pipes"][pi]
            for lprov in ("source", "runtime"):
                c = {"start": pipe["start"], "docs": case["docs"], "steps": pipe["steps"], "via_find": pipe["via_find"]}
                a, plain = run_impl(c, tops, ident, env={"B": [], "E": [], "lit": lprov})
                seen[pi].setdefault(a, []).append("%s tree, %s literals, call %d" % (tprov, lprov, call))
                if plains[pi] is None:
                    plains[pi] = plain_ids(plain, ident)
    answers = []
    for pi, d in enumerate(seen):
        if len(d) == 1:
            answers.append(list(d)[0])
        else:
            desc = "; ".join("%s <- %s" % (a, w[0] if len(w) == 1 else "%s (+%d more)" % (w[0], len(w) - 1)) for a, w in d.items())
            sink.failure("the same query on the same tree gives different nodes depending on provenance / call: pipeline %d %s: %s"
                         % (pi, json.dumps(case["pipes"][pi]["steps"], ensure_ascii=True), desc))
            answers.append("!" + "|".join(sorted(d)))
    return answers, plains


class _CaseSink(object):
    def __init__(self, chk, kind, case):
        self.chk, self.case = chk, {"kind": kind, "case": case}

    def failure(self, desc, case=None, finding=None):
        self.chk.failure(desc, self.case, finding=finding)

    def count(self, *a, **k):
        self.chk.count(*a, **k)


def prov_pipes(case):
    return [{"start": p["start"], "docs": case["docs"], "steps": p["steps"], "via_find": p["via_find"]} for p in case["pipes"]]


# --------------------------------------------------------------------------- histories: query -> re-parent -> query
#
# `.root` is a function of the CURRENT parent chain.  Standalone trees are queried with roots=True (module-level
# select over the parentless tops, containers built with set_parents=False, Result.roots, every node's .root is
# read), then attached below a new top the way ConfigCombiner does (Entry(children=[...]) re-parents; two queried
# trees under one top; attaching at depth 2), then queried again: every result must map to the NEW ultimate
# ancestor, exactly as on an identically built forest that was never queried before being attached, and as in the
# model, which is given the tree as it is at each query.  Top names are drawn from the names of their descendants:
# a top matches AND a descendant matches, the roots must be de-duplicated.

def gen_reparent_case(rng):
    names = rng.sample(sorted(set(NAMES)), 2)
    nid = [0]

    def node(depth):
        t = {"id": nid[0], "name": rng.choice(names), "attrs": [gen_val(rng) for _ in range(rng.choice([0, 1, 1]))], "children": []}
        nid[0] += 1
        for _ in range(rng.choice([1, 2, 3]) if depth == 0 else (0 if depth >= 3 else rng.choice([0, 1, 2]))):
            t["children"].append(node(depth + 1))
        return t
    trees = [node(0) for _ in range(rng.choice([1, 2, 2, 3]))]

    def sel(roots=None):
        qs = [["qn", ["lit", rng.choice(names)] if rng.random() < 0.85 else ["any"]] for _ in range(rng.choice([1, 1, 1, 2]))]
        return ["S", rng.random() < 0.8, rng.random() < 0.75 if roots is None else roots, qs]

    def pipe(starts, tail_ok=True):
        start = rng.choice(starts)
        st = sel()
        steps = [st]
        if not st[2] and tail_ok and rng.random() < 0.6:
            steps.append(rng.choice([["R"], ["P"], ["R"]]))
        return {"start": start, "steps": steps, "via_find": rng.random() < 0.5}
    pre = [pipe(["fn", "fn", "choose", "res"]) for _ in range(rng.choice([1, 2, 3]))]
    pre.append({"start": rng.choice(["fn", "choose"]), "via_find": False,           # a top AND its descendants match
                "steps": [["S", True, True, [["qn", ["lit", trees[0]["name"]]]]]]})
    mode = rng.choice(["top", "top", "depth2", "nested"])
    new = lambda name, kids: {"id": None, "name": name, "attrs": [], "children": kids}
    if mode == "top":
        combined = new(None if rng.random() < 0.6 else rng.choice(names), list(trees))
    elif mode == "depth2":
        combined = new(None, [new(rng.choice(names + ["w"]), [t]) if rng.random() < 0.7 else t for t in trees])
    else:
        combined = new(None, [new("w", [new(rng.choice(names), list(trees))])])

    def number(t):
        if t["id"] is None:
            t["id"] = nid[0]
            nid[0] += 1
        for c in t["children"]:
            number(c)
    number(combined)
    ids = Doc([combined]).order
    post = [pipe(["doc 0", "doc 0", "res", "fn", "node %d" % rng.choice(ids)]) for _ in range(rng.choice([2, 3, 4]))]
    post.append({"start": "doc 0", "via_find": True, "steps": [["S", True, True, [["qn", ["lit", trees[0]["name"]]]]]]})
    post.append({"start": "fn", "via_find": False, "steps": [["S", True, True, [["qn", ["lit", rng.choice(names)]]]]]})
    return {"trees": trees, "combined": combined, "pre": pre, "post": post, "mode": mode}


def attach(desc, by_id, ident, keep):
    """the real object for a node of the combined description: existing trees are REUSED (and so re-parented)"""
    if desc["id"] in by_id:
        return by_id[desc["id"]]
    e = Entry(name=desc["name"], attrs=tuple(desc["attrs"]), children=[attach(c, by_id, ident, keep) for c in desc["children"]])
    ident[id(e)] = desc["id"]
    keep.append(e)
    return e


def exec_reparent(case, sink):
    """[(pipeline case, answer, roots-free answer)] for the queries before and after the attachment"""
    out = []
    results = {}
    for history in (True, False):           # queried before being attached / never queried before being attached
        tops, ident, keep = build_entries(case["trees"])
        if history:
            for p in case["pre"]:
                c = {"start": p["start"], "docs": case["trees"], "steps": p["steps"], "via_find": p["via_find"]}
                a, plain = run_impl(c, tops, ident)
                out.append((c, a, plain_ids(plain, ident)))
            for e in _all_entries(tops):     # any .root access
                e.root
            Result(children=list(_all_entries(tops))).roots
        by_id = dict((ident[id(e)], e) for e in tops)
        top = attach(case["combined"], by_id, ident, keep)
        answers = []
        for p in case["post"]:
            c = {"start": p["start"], "docs": [case["combined"]], "steps": p["steps"], "via_find": p["via_find"]}
            a, plain = run_impl(c, [top], ident)
            answers.append((c, a, plain_ids(plain, ident)))
        results[history] = answers
    for (c, a, pl), (_c, a2, _pl) in zip(results[True], results[False]):
        if a != a2:
            sink.failure("after re-parenting, a forest that was queried before gives %s, the identically built one that was "
                         "never queried gives %s: %s %s" % (a, a2, c["start"], json.dumps(c["steps"], ensure_ascii=True)))
            a = "!queried-before=%s|fresh=%s" % (a, a2)
        out.append((c, a, pl))
    return out


# --------------------------------------------------------------------------- chains far deeper than the random forests

def gen_deep_case(rng, depth):
    """nested sections `depth` levels deep, matches at every depth incl. the deepest, a few directives on the way"""
    names = rng.sample(["a", "b", "ab"], 2)
    nid = [0]

    def mk(name, attrs):
        t = {"id": nid[0], "name": name, "attrs": attrs, "children": []}
        nid[0] += 1
        return t
    top = mk(None, [])
    cur = top
    mid = None
    for d in range(depth):
        sec = mk(rng.choice(names) if rng.random() < 0.8 else names[0], [d] if rng.random() < 0.3 else [])
        if rng.random() < 0.25:
            cur["children"].append(mk(rng.choice(names), ["x"]))
        cur["children"].append(sec)
        if rng.random() < 0.15:
            cur["children"].append(mk(rng.choice(names), []))
        cur = sec
        if d == depth // 2:
            mid = sec["id"]
    cur["name"] = names[0]                      # the deepest node matches
    deepest = cur["id"]
    k = rng.random()
    qs = [["qn", ["lit", names[0]]]] if k < 0.4 else [["qn", ["lit", names[0]]], ["qn", ["lit", rng.choice(names)]]] if k < 0.7 else \
        [["qt", ["lit", names[0]], []], ["qn", ["any"]], ["qn", ["lit", names[1]]]] if k < 0.85 else [["qn", ["b", ["pi", "eq", names[0].upper()]]]]
    start = "doc 0" if rng.random() < 0.6 else "node %d" % mid
    return {"start": start, "docs": [top], "steps": [["S", True, rng.random() < 0.5, qs]], "via_find": rng.random() < 0.5,
            "depth": depth, "deepest": deepest}


# --------------------------------------------------------------------------- run

def case_key(case):
    return json.dumps(case, sort_keys=True, ensure_ascii=True)


def witness_nested():
    """Lean: order_witness — A1[A2[B2], B1]; find('A','B')"""
    b2 = {"id": 3, "name": "B", "attrs": ["B2"], "children": []}
    a2 = {"id": 2, "name": "A", "attrs": ["A2"], "children": [b2]}
    b1 = {"id": 4, "name": "B", "attrs": ["B1"], "children": []}
    a1 = {"id": 1, "name": "A", "attrs": ["A1"], "children": [a2, b1]}
    top = {"id": 0, "name": None, "attrs": [], "children": [a1]}
    return {"start": "doc 0", "docs": [top], "via_find": True,
            "steps": [["S", True, False, [["qn", ["lit", "A"]], ["qn", ["lit", "B"]]]]]}


def witness_parentless():
    """Lean: roots_parentless_regression — select(compile_queries('a'), [Entry('a')], roots=True)"""
    return {"start": "fn", "docs": [{"id": 0, "name": "a", "attrs": [], "children": []}], "via_find": False,
            "steps": [["S", False, True, [["qn", ["lit", "a"]]]]]}


def run_sel_batch(chk, name, cases, impls):
    """impls: list of (answer, plain) already computed on the real objects"""
    model = model_sel(cases)
    chk.compare(name, cases, [a for a, _ in impls], model,
                show=lambda c: {"kind": "sel", "case": c})
    for c, (a, plain) in zip(cases, impls):
        oracle_select(chk, c, a, plain)


def plain_ids(plain, ident):
    return None if plain is None else show_ids(plain, ident)


def run(chk):
    rng = chk.rng
    quick = chk.tier == "quick"
    n_bool = 5000 if quick else 150000
    n_sel = 5000 if quick else 80000
    n_ngx = 250 if quick else 3000
    max_nodes = 40 if quick else 90
    chk.rule = ("forests of 1-3 documents (3..%d nodes, 1-3 distinct names so that levels match and matched nodes nest; "
                "attributes None/int/str incl. mixed case and non-ASCII) built as real Entry trees, pipelines of 1-2 "
                "select/find/[] steps started from Entry / Result / the module-level select, 0-4 query levels of "
                "literals, tuples, None, callables, Boolean algebra, any_/all_/child_query, every (deep, roots); "
                "programs of ~130 statements that build Booleans / entry queries from earlier ones (shared objects as left/right "
                "operands, chains, ~) and re-evaluate every binding and its queries after each later binding; "
                "generated nginx text parsed by NginxConfPEG; boolean expressions of depth <= 4 over all operators x "
                "None/int/str values; non-trivial = the reference result is non-empty (select) / the expression has a "
                "predicate (bool) and the case was not seen before" % max_nodes)
    chk.assumptions = [
        "opaque callables are a parameter of the theorems; the tie instantiates one concrete family (opq / opqEnv)",
        "str.lower is NOT modelled: it is a parameter (Env.lower) of every theorem; each driver request carries the "
        "interpreter's s.lower() for every string of the request that it changes (lower_table), incl. strings whose "
        "lower()/upper()/casefold() differ or change length",
        "Entry identity is modelled by position (path) in the forest; the harness tags real entries in a side table keyed by id(); "
        "values are None/int/str (no bool/float)",
    ]
    chk.lean()

    # ---- corpus: regression of fix e053fd8 and the witnesses of the known findings
    corpus = [(fn, json.load(open(os.path.join(CORPUS, fn), encoding="utf-8")))
              for fn in (sorted(os.listdir(CORPUS)) if os.path.isdir(CORPUS) else [])]
    lines = []
    for fn, data in corpus:         # one driver start for the whole corpus
        c = data["case"]
        if data["kind"] == "prov":
            lines += [sel_line(x) for x in prov_pipes(c)]
        elif data["kind"] == "prog":
            lines.append(prog_line(c))
        elif data["kind"] == "bool":
            lines.append(bool_line(c))
        else:
            lines.append(sel_line(c))
    precompute(lines)
    for fn, data in corpus:
        c = data["case"]
        chk.witnesses.append(fn)
        if data["kind"] == "prov":
            sink = _CaseSink(chk, "prov", c)
            answers, plains = exec_prov(c, sink)
            pipes = prov_pipes(c)
            chk.compare("corpus-provenance", [(x, c) for x in pipes], answers, model_sel(pipes), show=lambda x: {"kind": "prov", "case": x[1]})
            for x, a, pl in zip(pipes, answers, plains):
                if not a.startswith("!"):
                    oracle_select(sink, x, a, pl)
            chk.case(("corpus", fn), True)
        elif data["kind"] == "prog":
            a = exec_prog(c, _ProgSink(chk, c))
            chk.compare("corpus-history", [c], [a], model_prog([c]), show=lambda x: {"kind": "prog", "case": x})
            chk.case(("corpus", fn), True)
        elif data["kind"] == "bool":
            t, cc = impl_bool(c)
            m = driver([bool_line(c)])[0].split(",")
            chk.compare("corpus-bool", [c], ["%s,%s" % (fmt(t), fmt(cc))], [",".join(m[:2])],
                        show=lambda x: {"kind": "bool", "case": x})
            chk.case(("corpus", fn), True)
            if isinstance(t, bool):
                oracle_bool(chk, c, t, cc)
            else:
                chk.failure("building / evaluating the expression raised %s" % t, {"kind": "bool", "case": c})
        else:
            tops, ident, _k = build_entries(c["docs"])
            a, plain = run_impl(c, tops, ident)
            chk.case(("corpus", fn), True)
            run_sel_batch(chk, "corpus-select", [c], [(a, plain_ids(plain, ident))])

    # ---- witnesses of the known findings, against the implementation
    w = witness_nested()
    tops, ident, _k = build_entries(w["docs"])
    a, _ = run_impl(w, tops, ident)
    chk.witnesses.append({"deep-nested-order": a})
    if a == "4,3":
        chk.finding_reproduced("deep-nested-order")
    # regression of fix 9796838 (was the known finding roots-parentless-none): the node itself is returned
    w = witness_parentless()
    tops, ident, _k = build_entries(w["docs"])
    a, _ = run_impl(w, tops, ident)
    chk.witnesses.append({"roots-parentless (fixed 9796838)": a})
    if a != "0":
        chk.failure("select(compile_queries('a'), [Entry('a')], roots=True) returned %s instead of the entry itself" % a, w)

    BATCH = 5000      # bounded memory: generate, run, compare and judge batch by batch

    # ---- stream 1: boolean expressions, interpreted vs compiled
    seen = set()
    for lo in range(0, n_bool, BATCH):
        cases, impl = [], []
        for _ in range(min(BATCH, n_bool - lo)):
            fam = rng.choice(CASE_FAMILIES) if rng.random() < 0.35 else None
            c = {"b": gen_bexp(rng, rng.choice([0, 1, 2, 2, 3, 3, 4]), fam), "v": gen_val(rng, fam), "nary": rng.random() < 0.3}
            if fam is not None:
                chk.count("bool:case-family")
                if isinstance(c["v"], str) and c["v"].lower() != c["v"].casefold():
                    chk.count("bool:value lower() != casefold()")
                if isinstance(c["v"], str) and len(c["v"].lower()) != len(c["v"]):
                    chk.count("bool:value lower() changes length")
            t, cc = impl_bool(c)
            cases.append(c)
            strict, nr = strict_ref(c["b"], c["v"]), non_raising(c["b"], c["v"])
            impl.append("%s,%s,%s,%s" % (fmt(t), fmt(cc), fmt(strict), "1" if nr else "0"))
            k = hash(case_key(c))
            chk.case(k, bool(leaves(c["b"])) and k not in seen)
            seen.add(k)
            chk.count("bool:%s" % ("non-raising" if nr else "strict-raises" if strict == "x" else "unevaluated-raise"))
            chk.count("bool:value-%s" % ("none" if c["v"] is None else type(c["v"]).__name__))
            if isinstance(t, bool):
                oracle_bool(chk, c, t, cc)
            else:
                chk.failure("building / evaluating the expression raised %s" % t, {"kind": "bool", "case": c})
        model = driver([bool_line(c) for c in cases])
        chk.compare("boolean:test/to_pyfunc/reference", cases, impl, model, show=lambda c: {"kind": "bool", "case": c})
        if lo == 0:
            for c, i in list(zip(cases, impl))[5:8]:
                chk.sample({"bool": c, "test,compiled,strict,nonraising": i})

    # ---- stream 1b: isin(values) / matches(pattern) leaves (not in the model): interpreted = compiled = reference
    for _ in range(1500 if quick else 40000):
        c = {"b": gen_bexp_px(rng, rng.choice([0, 1, 2, 2, 3])), "v": rng.choice(RAISE_VALUES + REGEX_VALUES + STRS), "nary": rng.random() < 0.3}
        t, cc = impl_bool(c)
        chk.case(hash(case_key(c)), True)
        nr = non_raising(c["b"], c["v"])
        chk.count("bool-px:%s" % ("non-raising" if nr else "raises"))
        if isinstance(t, bool):
            oracle_bool(chk, c, t, cc)
        else:
            chk.failure("building / evaluating the expression raised %s" % t, {"kind": "bool", "case": c})

    # ---- stream 2: select / find / [] on generated Entry forests
    seen = set()
    for lo in range(0, n_sel, BATCH):
        cases, impls = [], []
        for _ in range(min(BATCH, n_sel - lo)):
            c = gen_sel_case(rng, max_nodes)
            tops, ident, _k = build_entries(c["docs"])
            a, plain = run_impl(c, tops, ident)
            cases.append(c)
            impls.append((a, plain_ids(plain, ident)))
            k = hash(case_key(c))
            chk.case(k, a not in ("-", "err") and k not in seen)
            seen.add(k)
            last = c["steps"][-1]
            chk.count("sel:start-%s" % c["start"].split()[0])
            chk.count("sel:steps-%d" % len(c["steps"]))
            if last[0] == "S":
                chk.count("sel:deep=%d,roots=%d" % (last[1], last[2]))
                chk.count("sel:levels-%d" % len(last[3]))
            else:
                chk.count("sel:getitem" if last[0] == "G" else "sel:where")
            chk.count("sel:result-%s" % ("err" if a == "err" else "empty" if a == "-" else "exc" if a.startswith("exc") else "nodes"))
        run_sel_batch(chk, "select/find/getitem", cases, impls)
        if lo == 0:
            for c, i in list(zip(cases, impls))[3:5]:
                chk.sample({"select": {"start": c["start"], "steps": c["steps"], "nodes": len(Doc(c["docs"]).order)}, "impl": i[0]})

    # ---- stream 2f: callable predicates that RAISE (every exception class, every position, every entry point)
    n_raise = 2500 if quick else 40000
    n_pyonly = 500 if quick else 8000
    seen = set()
    for lo in range(0, n_raise + n_pyonly, BATCH):
        cases, impls = [], []
        for j in range(lo, min(lo + BATCH, n_raise + n_pyonly)):
            if j < n_raise and rng.random() < 0.15:      # the tree is built by from_dict (tuple children, list values as attributes)
                d = gen_dict(rng)
                c0, tops, ident = build_case({"from_dict": d})
                c = gen_raise_case(rng, docs=c0["docs"])
                c["from_dict"] = d
                chk.count("raise:tree built by from_dict")
            else:
                c = gen_raise_case(rng, pyonly=j >= n_raise)
                tops, ident, _k = build_entries(c["docs"])
            a, plain = run_impl(c, tops, ident)
            cases.append(c)
            impls.append((a, plain_ids(plain, ident)))
            k = hash(case_key(c))
            nr = raising_inputs(c)
            chk.case(k, nr > 0 and k not in seen)
            seen.add(k)
            chk.count("raise:%s" % ("oracle-only predicates" if uses_pyonly(c["steps"]) else "modelled predicates"))
            chk.count("raise:start-%s" % c["start"].split()[0])
            chk.count("raise:last-%s" % c["steps"][-1][0])
            chk.count("raise:(callable, value) pairs that raise", nr)
            chk.count("raise:result-%s" % ("empty" if a == "-" else "exc" if a.startswith("exc") else a if a == "err" else "nodes"))
        tied = [(c, i) for c, i in zip(cases, impls) if not uses_pyonly(c["steps"])]
        model = model_sel([c for c, _ in tied])
        chk.compare("raising callables: select/find/[]/where/upto", [c for c, _ in tied], [i[0] for _, i in tied], model,
                    show=lambda c: {"kind": "sel", "case": c})
        for c, (a, plain) in zip(cases, impls):
            oracle_select(chk, c, a, plain)
        if lo == 0:
            chk.sample({"raising": {"start": cases[1]["start"], "steps": cases[1]["steps"], "nodes": len(Doc(cases[1]["docs"]).order)},
                        "impl": impls[1][0]})

    # ---- stream 2a: identity vs content — forests with structurally identical (deep-copied) trees and subtrees
    a_, b_ = Entry("x", ("v", 1), [Entry("y", ("z",))]), Entry("x", ("v", 1), [Entry("y", ("z",))])
    try:
        chk.extra["entry_eq_for_distinct_identical_content"] = {
            "a == b": bool(a_ == b_), "hash(a) == hash(b)": hash(a_) == hash(b_),
            "note": "recorded, not required: the expected results below are by node identity whatever this is"}
    except Exception as ex:
        chk.extra["entry_eq_for_distinct_identical_content"] = "raised " + type(ex).__name__
    n_ident = 1500 if quick else 20000
    seen = set()
    for lo in range(0, n_ident, BATCH):
        cases, impls = [], []
        for _ in range(min(BATCH, n_ident - lo)):
            c = gen_identical_case(rng)
            tops, ident, _k = build_entries(c["docs"])
            a, plain = run_impl(c, tops, ident)
            cases.append(c)
            impls.append((a, plain_ids(plain, ident)))
            k = hash(case_key(c))
            chk.case(k, a.count(",") >= 1 and k not in seen)
            seen.add(k)
            chk.count("identical:layout-%s" % c["layout"])
            chk.count("identical:start-%s" % c["start"].split()[0])
            chk.count("identical:last-%s" % c["steps"][-1][0])
            chk.count("identical:result-%s" % ("err" if a == "err" else "empty" if a == "-" else "exc" if a.startswith("exc")
                                               else "one" if "," not in a else "several"))
        run_sel_batch(chk, "identical-content forests (identity, not content)", cases, impls)
        if lo == 0:
            chk.sample({"identical": {"layout": cases[0]["layout"], "start": cases[0]["start"], "steps": cases[0]["steps"],
                                      "nodes": len(Doc(cases[0]["docs"]).order)}, "impl": impls[0][0]})

    # ---- stream 2c: provenance — literals compare by value; the roots de-duplication state is per call
    n_prov = 300 if quick else 5000
    for lo in range(0, n_prov, 1000):
        flat_cases, flat_impl = [], []
        for _ in range(min(1000, n_prov - lo)):
            pc = gen_prov_case(rng)
            sink = _CaseSink(chk, "prov", pc)
            answers, plains = exec_prov(pc, sink)
            for c, a, pl in zip(prov_pipes(pc), answers, plains):
                flat_cases.append((c, pc))
                flat_impl.append(a)
                if not a.startswith("!"):
                    oracle_select(sink, c, a, pl)
                chk.count("provenance:result-%s" % ("disagree" if a.startswith("!") else "err" if a == "err" else
                                                    "empty" if a == "-" else "exc" if a.startswith("exc") else "nodes"))
            chk.case(hash(case_key(pc)), any(a not in ("-", "err") for a in answers))
            chk.count("provenance:forests")
            chk.count("provenance:style-%s" % pc["style"])
            chk.count("provenance:calls", 6 * len(pc["order"]))
        model = model_sel([c for c, _ in flat_cases])
        chk.compare("provenance (3 tree x 2 literal provenances, repeated calls)", flat_cases, flat_impl, model,
                    show=lambda x: {"kind": "prov", "case": x[1]})
        if lo == 0 and flat_cases:
            chk.sample({"provenance": {"style": flat_cases[0][1]["style"], "pipes": flat_cases[0][1]["pipes"],
                                       "order": flat_cases[0][1]["order"]}, "impl": flat_impl[0]})

    # ---- stream 2e: chains of 70 / 100 / 200 nested sections, matches at any depth
    cases, impls = [], []
    for depth in ([70, 100, 200, 70, 100, 200] if quick else [70, 100, 200] * 30):
        c = gen_deep_case(rng, depth)
        tops, ident, _k = build_entries(c["docs"])
        a, plain = run_impl(c, tops, ident)
        cases.append(c)
        impls.append((a, plain_ids(plain, ident)))
        chk.case(hash(case_key(c)), a not in ("-", "err"))
        chk.count("deep:depth-%d" % depth)
        got = (plain_ids(plain, ident) if c["steps"][0][2] else a)
        chk.count("deep:deepest node returned" if str(c["deepest"]) in (got or "").split(",") else "deep:deepest node not a match of this query")
    run_sel_batch(chk, "deep chains (70/100/200 levels)", cases, impls)

    # ---- stream 2d: histories query -> re-parent -> query (.root follows the current parent chain)
    n_rep = 300 if quick else 8000
    for lo in range(0, n_rep, 2000):
        flat, impl = [], []
        for _ in range(min(2000, n_rep - lo)):
            rc = gen_reparent_case(rng)
            sink = _CaseSink(chk, "reparent", rc)
            for c, a, pl in exec_reparent(rc, sink):
                flat.append((c, rc))
                impl.append(a)
                if not a.startswith("!"):
                    oracle_select(sink, c, a, pl)
            chk.case(hash(case_key(rc)), True)
            chk.count("reparent:forests")
            chk.count("reparent:mode-%s" % rc["mode"])
        model = model_sel([c for c, _ in flat])
        chk.compare("histories:query, re-parent, query", flat, impl, model, show=lambda x: {"kind": "reparent", "case": x[1]})
        chk.count("reparent:queries", len(flat))
        if lo == 0 and flat:
            chk.sample({"reparent": {"mode": flat[0][1]["mode"], "pre": flat[0][1]["pre"], "post": flat[0][1]["post"]}, "impl": impl[:6]})

    # ---- stream 2b: histories with shared sub-expressions (combinations are values)
    n_hist = 250 if quick else 3000
    for lo in range(0, n_hist, 500):
        progs, impl = [], []
        for _ in range(min(500, n_hist - lo)):
            pr = gen_history(rng)
            progs.append(pr)
            impl.append(exec_prog(pr, _ProgSink(chk, pr)))
            chk.case(hash(case_key(pr)), True)
            chk.count("history:programs")
            chk.count("history:statements", len(pr["stmts"]))
            chk.count("history:bindings", sum(1 for st in pr["stmts"] if st[0] in ("LB", "LE")))
            chk.count("history:re-evaluations", sum(1 for st in pr["stmts"] if st[0] in ("TB", "TE", "Q")))
        model = model_prog(progs)
        chk.compare("histories:bindings re-evaluated after later combinations", progs, impl, model,
                    show=lambda pr: {"kind": "prog", "case": pr})
        if lo == 0 and progs:
            chk.sample({"history": progs[0]["stmts"][:14], "impl": impl[0][:200]})

    # ---- stream 3: parsed nginx documents through ConfigComponent
    from insights.parsers.nginx_conf import NginxConfPEG
    from insights.tests import context_wrap
    sampled = False
    for lo in range(0, n_ngx, 500):
        cases, impls = [], []
        for _ in range(min(500, n_ngx - lo)):
            text = gen_nginx(rng)
            try:
                conf = NginxConfPEG(context_wrap(text, path="/etc/nginx/nginx.conf"))
                ident = {}
                desc = describe(conf.doc, ident, [0])
            except Exception as ex:
                chk.count("nginx:unusable-%s" % type(ex).__name__)
                continue
            names = sorted(set(t["name"] for t in Doc([desc]).by_id.values() if isinstance(t["name"], str))) or ["location"]
            for _ in range(6):
                if rng.random() < 0.2:
                    q = gen_query(rng, names)
                    if q[0] == "qn" and q[1][0] == "lit" and isinstance(q[1][1], int):
                        q = ["qt", q[1], []]
                    steps = [["G", q]]
                else:
                    steps = [["S", rng.random() < 0.6, rng.random() < 0.4,
                              [gen_query(rng, names) if rng.random() < 0.5 else ["qn", ["lit", rng.choice(names)]]
                               for _ in range(rng.choice([1, 2, 2, 3]))]]]
                    if rng.random() < 0.25:
                        steps.insert(0, ["S", True, False, [["qn", ["lit", rng.choice(names)]]]])
                c = {"start": "conf", "docs": [desc], "steps": steps, "via_find": rng.random() < 0.5, "text": text, "opts": rng.choice(["bool", "int", "omit"])}
                a, plain = run_impl(c, [conf.doc], ident, conf=conf)
                cases.append(c)
                impls.append((a, plain_ids(plain, ident)))
                chk.case(hash(case_key({"s": steps, "t": text})), a not in ("-", "err"))
                chk.count("nginx:result-%s" % ("empty" if a == "-" else "nodes" if a[0].isdigit() else a))
        if not cases:
            continue
        model = model_sel(cases, start="doc 0")
        chk.compare("nginx:ConfigComponent", cases, [a for a, _ in impls], model, show=lambda c: {"kind": "sel", "case": c})
        for c, (a, plain) in zip(cases, impls):
            oracle_select(chk, c, a, plain)
        if not sampled:
            sampled = True
            chk.sample({"nginx": cases[0]["text"], "steps": cases[0]["steps"], "impl": impls[0][0]})


def fmt(x):
    return "1" if x is True else "0" if x is False else str(x)


# --------------------------------------------------------------------------- replay

class _Rec(object):
    """collects what the oracle says during a replay"""

    def __init__(self):
        self.fails = []

    def failure(self, desc, case=None, finding=None):
        self.fails.append((desc, finding))

    def count(self, *a, **k):
        pass


def replay(data):
    c = data["case"]
    if isinstance(c, dict) and "kind" in c and "case" in c:
        kind, c = c["kind"], c["case"]
    else:
        kind = data.get("kind") if data.get("kind") in ("bool", "sel", "prog", "prov", "reparent") else ("bool" if "b" in c else "sel")
    rec = _Rec()
    if kind == "reparent":
        print("replaying query -> re-parent (%s) -> query history" % c["mode"])
        got = exec_reparent(c, rec)
        model = model_sel([x for x, _a, _p in got])
        for (x, a, pl), m in zip(got, model):
            print("  ", "combined" if x["docs"] is not c["trees"] and len(x["docs"]) == 1 and x["docs"][0] is c["combined"] else "standalone",
                  x["start"], json.dumps(x["steps"], ensure_ascii=True)[:140])
            print("     impl %s   model %s" % (a, m))
            if a != m:
                rec.fails.append(("answer differs from the model's (the tree as it is at this query)", None))
            if not a.startswith("!"):
                oracle_select(rec, x, a, pl)
    elif kind == "prov":
        print("replaying provenance case: style=%s, %d pipelines, call order %s" % (c["style"], len(c["pipes"]), c["order"]))
        answers, plains = exec_prov(c, rec)
        model = model_sel(prov_pipes(c))
        for pc_, a, pl, m in zip(prov_pipes(c), answers, plains, model):
            print("  ", pc_["start"], json.dumps(pc_["steps"], ensure_ascii=True)[:160])
            print("     impl %s   model %s" % (a, m))
            if a != m:
                rec.fails.append(("answer differs from the model's", None))
            if not a.startswith("!"):
                oracle_select(rec, pc_, a, pl)
    elif kind == "prog":
        print("replaying program with %d statements" % len(c["stmts"]))
        for st in c["stmts"]:
            print("  ", json.dumps(st, ensure_ascii=False)[:200])
        a = exec_prog(c, rec)
        m = model_prog([c])[0]
        print("impl  ", a)
        print("model ", m)
        if a != m:
            rec.fails.append(("the program's answers differ from the model's", None))
    elif kind == "bool":
        print("replaying boolean expression", json.dumps(c, ensure_ascii=False))
        t, cc = impl_bool(c)
        m = "(no model counterpart)" if uses_pyonly(c["b"]) else driver([bool_line(c)])[0]
        print("impl test()=%s to_pyfunc()()=%s | reference strict=%s nonraising=%s | model interp,compiled,evalC,nonRaising=%s" % (
            t, cc, fmt(strict_ref(c["b"], c["v"])), non_raising(c["b"], c["v"]), m))
        if isinstance(t, bool):
            oracle_bool(rec, c, t, cc)
        else:
            rec.fails.append(("raised " + t, None))
    else:
        print("replaying query", json.dumps({"start": c["start"], "steps": c["steps"]}, ensure_ascii=False))
        if c["start"] == "conf":
            from insights.parsers.nginx_conf import NginxConfPEG
            from insights.tests import context_wrap
            conf = NginxConfPEG(context_wrap(c["text"], path="/etc/nginx/nginx.conf"))
            ident = {}
            desc = describe(conf.doc, ident, [0])
            c = dict(c, docs=[desc])
            a, plain = run_impl(c, [conf.doc], ident, conf=conf)
            m = model_sel([c], start="doc 0")[0]
        else:
            c, tops, ident = build_case(c)
            a, plain = run_impl(c, tops, ident)
            m = "(no model counterpart)" if uses_pyonly(c["steps"]) else model_sel([c])[0]
        print("impl returned %s   model %s" % (a, m))
        oracle_select(rec, c, a, plain_ids(plain, ident))
    known = set()
    for line in open(os.path.join(VERIF, "known-findings.txt"), encoding="utf-8"):
        if line.startswith("known:") and "property=C20" in line:
            known.add(line.split("id=")[1].split()[0])
    bad = 0
    for desc, finding in rec.fails:
        print(("known finding %s: " % finding if finding in known else "VIOLATED: ") + desc)
        if finding not in known:
            bad = 1
    print("property violated on this input" if bad else "property holds on this input (up to listed known findings)")
    return bad
