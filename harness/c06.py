"""
C06 — collection stays in its root, honours the deny list, writes only to the archive.

Tie: real directory trees (nested directories, symlinks to siblings / parents / absolute targets / the
file-system root, dangling links and loops, sibling directories sharing the root's name as a prefix,
'..' chains) are built under tempfile.mkdtemp().  The real providers (TextFileProvider, RawFileProvider,
CommandOutputProvider, Container*Provider, DatasourceProvider) and the real factories (simple_file,
glob_file, first_file, foreach_collect, simple_command, command_with_args, foreach_execute,
container_execute, container_collect) are run in-process under a HostArchiveContext or a recording
HostContext rooted there and compared with IV.Paths (Drivers/C06.lean), which is fed what the KERNEL says
about each path (os.open(O_PATH) + readlink /proc/self/fd/N), never os.path.realpath.
Deny entries are installed through blacklist.add_file / add_command (and collect.apply_blacklist);
a sys.addaudithook observes open / subprocess.Popen / os.exec*; persistence is checked by a file-system
diff of the scratch area around Hydration(...).dehydrate and serde.serialize.

Round 10: stream validate-paths (run_vpath_stream: every path through validate(), model op `vchk`), malformed deny lists through
collect.apply_blacklist (model op `blseq`) and through collect.collect() (fail-closed clause: abort => nothing ran; goes on =>
every valid entry in force).

Oracle: content or a provider for a path whose kernel-resolved location is outside the kernel-resolved
root; a denied file opened / a denied command executed; a file created outside the output directory
(known finding `dotdot-destination` only when the relative path or save_as has a '..' component).
"""
import glob as globmod
import json
import os
import posixpath
import shlex
import shutil
import sys
import tempfile
from contextlib import contextmanager

from harness.common import VERIF, enc, run_driver

from insights import collect
from insights.core import blacklist, dr, filters, serde
from insights.core import spec_factory as sf
from insights.core.context import HostArchiveContext, HostContext, SerializedArchiveContext
from insights.core.exceptions import BlacklistedSpec, ContentException, NoFilterException
from insights.core.plugins import datasource
from insights.util.mangle import mangle_command

FINDING = "dotdot-destination"

# --------------------------------------------------------------------------- audit hook / recorder

_AUD = {"on": False, "base": None, "events": [], "installed": False}


def _hook(event, args):
    if not _AUD["on"]:
        return
    try:
        if event == "open":
            p = args[0]
            if isinstance(p, bytes):
                p = p.decode("utf-8", "replace")
            if isinstance(p, str) and _AUD["base"] and p.startswith(_AUD["base"]):
                _AUD["events"].append(("open", p))
        elif event == "subprocess.Popen":
            a = args[1]
            _AUD["events"].append(("popen", [str(x) for x in a] if isinstance(a, (list, tuple)) else [str(a)]))
        elif event in ("os.exec", "os.posix_spawn", "os.system", "os.spawn"):
            _AUD["events"].append(("popen", [str(x) for x in args]))
    except Exception:
        pass


def audit(on):
    if not _AUD["installed"]:
        sys.addaudithook(_hook)
        _AUD["installed"] = True
    _AUD["on"] = on


class RecHost(HostContext):
    """HostContext whose commands are RECORDED, not executed (grep pre-filtering of a scratch file is run for real)"""

    def check_output(self, cmd, timeout=None, keep_rc=False, env=None, signum=None):
        argv = [list(c) for c in cmd] if cmd and isinstance(cmd[0], (list, tuple)) else [list(cmd)]
        _AUD["events"].append(("rec", argv))
        if argv and argv[0] and argv[0][0] == "grep" and len(argv) == 1:
            return super(RecHost, self).check_output(cmd, timeout=timeout, keep_rc=keep_rc, env=env, signum=signum)
        out = "recorded output line\nsecond line\n"
        return (0, out) if keep_rc else out

    @contextmanager
    def connect(self, *args, **kwargs):
        _AUD["events"].append(("rec", [list(a) for a in args]))
        yield iter(["recorded output line\n"])

    @contextmanager
    def stream(self, *args, **kwargs):
        _AUD["events"].append(("rec", [list(a) for a in args]))
        yield iter(["recorded output line\n"])


def clear_deny():
    blacklist._FILE_FILTERS.clear()
    blacklist._COMMAND_FILTERS.clear()
    del blacklist.BLACKLISTED_SPECS[:]


# --------------------------------------------------------------------------- kernel ground truth

def kloc(path):
    """kernel-resolved location of path, None when it does not resolve"""
    try:
        fd = os.open(path, os.O_PATH)
    except OSError:
        return None
    try:
        return os.readlink("/proc/self/fd/%d" % fd)
    finally:
        os.close(fd)


def comps(p):
    return [c for c in p.split("/") if c]


def inside(loc, rootloc):
    a, b = comps(loc), comps(rootloc)
    return a[:len(b)] == b


def oracle_denied(entry, deny):
    """the property's own reading of 'matches the deny list': equal, or the entry followed by a space"""
    return any(entry == f or entry[:len(f) + 1] == f + " " for f in deny)


# --------------------------------------------------------------------------- layouts

ROOTFORMS = ["plain", "plain", "plain", "slash", "link", "dot", "dd", "fs"]


def gen_layout(rng, forced_rootname=None):
    rn = forced_rootname or rng.choice(["root", "root", "r", "root.d", "ro ot"])
    sibs = [rn + "2", rn + "_x", "other"] + ([rn[:-1]] if len(rn) > 1 else [])
    nodes, tokens = [], {}
    n = [0]

    def f(rel):
        n[0] += 1
        tok = "TOK%03dX" % n[0]
        nodes.append(["f", rel, tok])
        tokens[tok] = rel

    in_dirs = ["etc", "etc/sub", "var", "var/log", "opt"]
    in_files = ["etc/passwd", "etc/hosts", "etc/sub/deep.conf", "var/log/messages", "etc/my file", "etc/my",
                "opt/a.conf", "opt/b.conf"]
    for d in in_dirs:
        nodes.append(["d", rn + "/" + d])
    for x in in_files:
        f(rn + "/" + x)
    out_files = ["secret"]
    f("secret")
    for s in sibs:
        f(s + "/secret")
        f(s + "/etc/passwd")
        out_files += [s + "/secret", s + "/etc/passwd"]
    nodes.append(["l", "rootlink", rn])
    for b in ("cmd1", "cmd2", "tool"):
        nodes.append(["x", "bin/" + b])
    links = []
    for i in range(rng.randint(3, 8)):
        where = rng.choice([""] + in_dirs)
        wdir = rn + ("/" + where if where else "")
        depth = wdir.count("/") + 1
        up = "../" * depth
        name = "l%d" % i
        rel = wdir + "/" + name
        kind = rng.choice(["rel-in", "rel-out", "abs-in", "abs-out", "dir-in", "dir-out", "dir-out-abs", "dir-base",
                           "dangling", "loop", "chain", "fsroot", "self-root", "rel-out", "dir-out", "abs-out",
                           "dir-out-sub", "dir-out-sub", "dir-in-sub"])
        if kind == "rel-in":
            t = posixpath.relpath(rn + "/" + rng.choice(in_files), wdir)
        elif kind == "rel-out":
            t = up + rng.choice(out_files)
        elif kind == "abs-in":
            t = "$B/" + rn + "/" + rng.choice(in_files)
        elif kind == "abs-out":
            t = "$B/" + rng.choice(out_files)
        elif kind == "dir-in":
            t = posixpath.relpath(rn + "/" + rng.choice(in_dirs), wdir)
        elif kind == "dir-out":
            t = up + rng.choice(sibs)
        elif kind == "dir-out-abs":
            t = "$B/" + rng.choice(sibs)
        elif kind == "dir-out-sub":
            t = rng.choice([up, "$B/"]) + rng.choice(sibs) + "/etc"
        elif kind == "dir-in-sub":
            t = posixpath.relpath(rn + "/" + rng.choice(["etc/sub", "var/log"]), wdir)
        elif kind == "dir-base":
            t = up.rstrip("/") or "."
        elif kind == "dangling":
            t = "no/where"
        elif kind == "loop":
            t = name
        elif kind == "chain" and links:
            t = posixpath.relpath(rng.choice(links)[0], wdir)
        elif kind == "fsroot":
            t = "/"
        elif kind == "self-root":
            t = rng.choice(["$B/" + rn, up + rn, "."])
        else:
            kind, t = "rel-out", up + sibs[0] + "/secret"
        nodes.append(["l", rel, t])
        links.append((rel, kind))
    # always present: directory links whose parent ('..' AFTER the link) is elsewhere than the link's own parent
    fixed = [(rn + "/dl_out", "../" + sibs[0] + "/etc", "dir-out-sub"), (rn + "/etc/dl_in", "sub", "dir-in-sub"),
             (rn + "/dl_chain", "dl_out", "chain-dir"), (rn + "/var/dl_abs", "$B/" + sibs[-1] + "/etc", "dir-out-sub"),
             ("other/inlink", "../" + rn + "/etc/sub", "out-to-in"), ("other/inlink2", "$B/" + rn + "/var/log", "out-to-in")]
    for rel, t, kind in fixed:
        nodes.append(["l", rel, t])
        if rel.startswith(rn + "/"):
            links.append((rel, kind))
    return {"rootname": rn, "sibs": sibs, "nodes": nodes, "tokens": tokens, "in_files": in_files, "in_dirs": in_dirs,
            "links": links, "out_files": out_files}


def build_layout(base, lay):
    for nd in lay["nodes"]:
        p = os.path.join(base, nd[1])
        os.makedirs(os.path.dirname(p), exist_ok=True)
        if nd[0] == "d":
            os.makedirs(p, exist_ok=True)
        elif nd[0] == "f":
            with open(p, "w") as fh:
                fh.write("first %s line\nTOKEN %s\nlast line\n" % (nd[2], nd[2]))
        elif nd[0] == "x":
            with open(p, "w") as fh:
                fh.write("#!/bin/sh\nexit 0\n")
            os.chmod(p, 0o755)
        elif nd[0] == "l":
            os.symlink(nd[2].replace("$B", base), p)


def wipe_layout(base):
    for e in os.listdir(base):
        p = os.path.join(base, e)
        if os.path.isdir(p) and not os.path.islink(p):
            shutil.rmtree(p, ignore_errors=True)
        else:
            os.unlink(p)


def root_of(base, lay, form):
    rn = lay["rootname"]
    return {"plain": base + "/" + rn, "slash": base + "/" + rn + "/", "link": base + "/rootlink",
            "dot": base + "/./" + rn, "dd": base + "/other/../" + rn, "fs": "/"}[form]


def sub(s, base):
    return s.replace("$B", base).replace("$b", base.lstrip("/"))


DIRKINDS = ("dir-in", "dir-out", "dir-out-abs", "dir-base", "self-root", "fsroot", "chain", "chain-dir", "dir-out-sub", "dir-in-sub")
AFTER_TAILS = ["../secret", "../passwd", "../etc/passwd", "../hosts", "../a.conf", "../deep.conf", "../messages", "../../secret",
               "../../etc/passwd", "sub/../../passwd", "sub/../../secret", "etc/../../secret", "etc/../secret", "../opt/a.conf",
               "../etc/hosts", "../log/messages", "../sub/deep.conf", "../my file", "./../secret", "..//secret", "../etc/../secret",
               "../../opt/b.conf", "../../var/log/messages"]


def after_link_family(lay, for_glob=False):
    """relative paths that traverse a directory symlink and THEN go '..' (the kernel takes the parent of the link's
    target, a lexical normalisation takes the parent of the link)"""
    rn, sibs = lay["rootname"], lay["sibs"]
    fam = []
    for rel, kind in lay["links"]:
        if kind not in DIRKINDS:
            continue
        if for_glob and kind in ("dir-base", "self-root", "fsroot", "chain"):
            continue
        r = rel[len(rn) + 1:]
        if for_glob:
            fam += [r + "/../*", r + "/../etc/*", r + "/../s*", r + "/sub/../../*", r + "/../../*/secret"]
            continue
        for t in AFTER_TAILS:
            fam.append(r + "/" + t)
        for s_ in sibs[:2]:
            fam.append(r + "/../" + s_ + "/secret")
            fam.append(r + "/../../" + s_ + "/secret")
        fam.append(r + "/../" + rn + "/etc/passwd")
        fam.append(r + "/../../" + rn + "/etc/hosts")
    if not for_glob:
        # a link OUTSIDE the root that points inside: out through '..', in through the link, '..' after it
        fam += ["../other/inlink/../passwd", "../other/inlink/deep.conf", "../other/inlink/../../opt/a.conf",
                "../other/inlink/../../../" + sibs[0] + "/secret", "../other/inlink2/../../etc/hosts", "../other/inlink2/../log/messages",
                "../other/inlink2/../../../secret", "etc/../../other/inlink/../hosts"]
    return fam


def gen_after_link(rng, lay, k, base):
    fam = after_link_family(lay)
    rn = lay["rootname"]
    out = []
    for _ in range(k):
        r = rng.choice(fam)
        for _ in range(8):
            if rng.random() < 0.1 or kloc(os.path.join(base, rn, r)) is not None:
                break
            r = rng.choice(fam)
        out.append(r)
    return out


def gen_requests(rng, lay, k, base=None):
    rn, sibs = lay["rootname"], lay["sibs"]
    reqs = list(lay["in_files"])
    for rel, kind in lay["links"]:
        r = rel[len(rn) + 1:]
        reqs.append(r)
        reqs.append(r)
        for child in ("secret", "passwd", "etc/passwd", "hosts", rn + "/etc/passwd", sibs[0] + "/secret", "messages",
                      "$b/" + sibs[0] + "/secret", "$b/" + rn + "/etc/hosts", "sub/deep.conf"):
            reqs.append(r + "/" + child)
    s = rng.choice(sibs)
    reqs += ["etc/../etc/passwd", "../" + rn + "/etc/passwd", "../" + s + "/secret", "etc/../../" + s + "/secret",
             "etc/sub/../../../" + s + "/etc/passwd", "../" * 25 + "$b/" + s + "/secret",
             "../" * 25 + "$b/" + rn + "/etc/hosts", "../secret", "etc/../..//" + rn + "/./opt/a.conf",
             "/etc/passwd", "//etc//passwd", "etc/./passwd", "etc/passwd/", "etc/nothing", "etc", "", "..", "../" + s,
             "../rootlink/etc/hosts", "../" + rn + "/../" + s + "/secret", "var/log/../../../" + rn + "/var/log/messages"]
    fam = after_link_family(lay)
    out = []
    for _ in range(k):
        pool = fam if (fam and rng.random() < 0.3) else reqs
        r = rng.choice(pool)
        for _ in range(6):
            if base is None or rng.random() < 0.2 or kloc(os.path.join(base, rn, sub(r, base).lstrip("/"))) is not None:
                break
            r = rng.choice(pool)
        out.append(r)
    return out


def gen_deny_files(rng, lay, reqs, hit=None):
    pool = ["/" + r.lstrip("/") for r in reqs if r] + ["/etc/passwd", "/etc/my", "/etc/pass", "/etc", "/etc/my file",
                                                        "/opt/a.conf", "/etc/passwd ", "etc/passwd", "/"]
    d = set(rng.choice(pool) for _ in range(rng.choice([0, 1, 1, 2, 3])))
    if hit and rng.random() < 0.45:
        h = "/" + rng.choice(hit).lstrip("/")
        d.add(rng.choice([h, h, h, h.split(" ")[0], h[:-1], h + " ", h.rstrip("/")]))
    return sorted(d)


# --------------------------------------------------------------------------- single constructor (validate)

def classify(ex):
    if isinstance(ex, BlacklistedSpec):
        return "blacklisted"
    if isinstance(ex, NoFilterException):
        return "nofilter"
    if isinstance(ex, ContentException):
        return "content"
    return "other"


MODEL_ERR = {"notfound": "content", "noaccess": "content", "toomany": "content", "nofilter": "nofilter",
             "blacklisted": "blacklisted", "outside": "other", "badcmd": "other"}


def tokens_in(content):
    if content is None:
        return []
    if isinstance(content, bytes):
        content = content.decode("utf-8", "replace").splitlines()
    out = []
    for l in content:
        i = l.find("TOK")
        while i >= 0:
            out.append(l[i:i + 7])
            i = l.find("TOK", i + 1)
    return out


def check_contained(fails, case, what, root, path, content, tokloc):
    """ORACLE (A): nothing yielded from outside the kernel-resolved root"""
    rootloc = kloc(root)
    loc = kloc(path)
    if rootloc is None:
        return
    if loc is not None and not inside(loc, rootloc):
        fails.append(("%s returned a provider for %r whose real location %r is outside the root %r" % (what, path, loc, rootloc), case, None))
    for t in set(tokens_in(content)):
        tl = tokloc.get(t)
        if tl is not None and not inside(tl, rootloc):
            fails.append(("%s yielded the content of %r, outside the root %r (requested %r)" % (what, tl, rootloc, path), case, None))


def run_validate(base, lay, case, tokloc):
    """returns (impl_answer, model_line, failures)"""
    fails = []
    root = root_of(base, lay, case["rootform"])
    req = sub(case["req"], base)
    if case["rootform"] == "fs":
        req = base + "/" + lay["rootname"] + "/" + req.lstrip("/")
    host = case["ctx"] == "host"
    if case["ctx"] == "serialized":
        ctx = SerializedArchiveContext(root=root)
    else:
        ctx = RecHost(root=root) if host else HostArchiveContext(root=root)
    kind = {"raw": sf.RawFileProvider, "text": sf.TextFileProvider, "stext": sf.SerializedOutputProvider,
            "sraw": sf.SerializedRawOutputProvider}[case["kind"]]
    deny = case["deny"]
    path = os.path.join(root, req.lstrip("/"))
    resolved = kloc(path)
    rootloc = kloc(root)
    for f in deny:
        blacklist.add_file(f)
    _AUD["events"] = []
    content = None
    try:
        try:
            p = kind(req, root=root, ctx=ctx)
            ans = "ok " + p.path
        except Exception as ex:
            p = None
            ans = classify(ex)
        if p is not None:
            audit(True)
            try:
                content = p.content
            except Exception:
                content = None
            finally:
                audit(False)
    finally:
        clear_deny()
    if p is not None:
        check_contained(fails, case, kind.__name__, root, p.path, content, tokloc)
        if host:
            for ev in _AUD["events"]:
                if ev[0] == "open" and ev[1].startswith(root):
                    ent = "/" + ev[1][len(root):].lstrip("/")
                    if oracle_denied(ent, deny):
                        fails.append(("deny list %r: %s opened %r" % (deny, kind.__name__, ev[1]), case, None))
    line = "\t".join(["mkfile", "1" if host else "0", enc(root), enc(req), "1" if resolved is not None else "0",
                      enc(rootloc or ""), enc(resolved or ""), "1" if os.access(path, os.R_OK) else "0",
                      ",".join(enc(f) for f in deny) if deny else "_"])
    return ans, line, fails


def canon_mkfile(model):
    if model.startswith("ok "):
        from harness.common import dec
        return "ok " + dec(model[3:])
    return MODEL_ERR.get(model, model)


# --------------------------------------------------------------------------- factories

FILE_KINDS = ["simple_file", "glob_file", "first_file", "foreach_collect"]
CMD_KINDS = ["simple_command", "command_with_args", "foreach_execute", "container_execute", "container_collect"]
_ds_counter = [0]


def safe_path_dirs():
    return sf.SAFE_ENV["PATH"].split(os.pathsep)


def cmd_status(cmd):
    """independent statement of 'the first shell word of cmd resolves to an executable'"""
    try:
        first = shlex.split(cmd)[0]
    except Exception:
        return "n"
    if first.startswith("/"):
        return "1" if os.path.isfile(first) and os.access(first, os.X_OK) else "0"
    for d in safe_path_dirs():
        c = os.path.join(d, first)
        if os.path.isfile(c) and os.access(c, os.X_OK):
            return "1"
    return "0"


def pyfmt(tmpl, item):
    try:
        return tmpl % item
    except Exception:
        return None


def gen_factory_case(rng, lay, kind, host, base=None):
    rn, sibs = lay["rootname"], lay["sibs"]
    case = {"op": "factory", "kind": kind, "ctx": "host" if host else "archive",
            "rootform": rng.choice(ROOTFORMS), "save": None, "ignore": None, "maxf": 1000, "filtered": False,
            "raw": rng.random() < 0.25, "denyf": [], "denyc": []}
    reqs = gen_requests(rng, lay, 6, base)
    pre = ("$B/" + rn) if case["rootform"] == "fs" else ""
    save_pool = [None, None, "renamed", "/sub/dir/", "d1/", "/x/y", "../up", "a/../../b/", "..", "d/../", "/"]
    if kind == "simple_file":
        case["a"] = pre + "/" + rng.choice(reqs).lstrip("/") if pre else rng.choice(reqs)
        case["save"] = rng.choice(save_pool)
    elif kind == "first_file":
        case["a"] = [(pre + "/" + r.lstrip("/")) if pre else r for r in reqs[:rng.randint(1, 4)]]
        case["save"] = rng.choice(save_pool)
    elif kind == "glob_file":
        pats = ["etc/*", "/etc/p*", "*/*", "etc/sub/*", "l*", "l*/*", "../" + sibs[0] + "/*", "etc/../opt/*.conf", "opt/[ab].conf",
                "*/l*", "etc/my*", "../*/secret", "nothing/*", "../" + rn + "/etc/h*", "var/log/../../../" + rn + "/opt/*"]
        gfam = after_link_family(lay, for_glob=True)
        if case["rootform"] == "fs":
            # under root "/" a link to "/" would make the glob read whatever lies at the top of the real file system
            pats = [x for x in pats if not x.startswith(("l*", "*/"))]
        elif gfam:
            pats = pats + [rng.choice(gfam) for _ in range(len(pats) // 2)]
        case["a"] = [pre + "/" + rng.choice(pats).lstrip("/") for _ in range(rng.randint(1, 3))]
        case["save"] = rng.choice(save_pool)
        case["ignore"] = rng.choice([None, None, "passwd", "conf", "l1"])
        case["maxf"] = rng.choice([1000, 1000, 1000, 2, 1])
    elif kind == "foreach_collect":
        t = rng.choice(["/%s", "/%s", "/etc/%s", "/etc/%s", "/%s/*", "/%s/%s", "/etc/%s%%"])
        case["a"] = pre + t
        n = t.count("%s")
        pools = {"/%s": ["etc/passwd", "opt/a.conf", "l0", "l1", "l2", "../" + sibs[0] + "/secret", "etc/../etc/hosts", "var/log/messages",
                         "etc/l0", "etc/my file", "nothing", "../" + rn + "/etc/hosts"],
                 "/etc/%s": ["passwd", "hosts", "my file", "sub/deep.conf", "l0", "l1", "*", "../opt/a.conf", "nothing", "../../" + sibs[0] + "/secret"],
                 "/etc/%s%%": ["passwd", "hosts"],
                 "/%s/*": ["etc", "opt", "..", "etc/sub", "../" + sibs[0]] + ([] if case["rootform"] == "fs" else ["l0", "l1"])}
        pools["/%s"] = pools["/%s"] + gen_after_link(rng, lay, 8, base) if base else pools["/%s"]
        items = []
        for _ in range(rng.randint(0, 4)):
            if t == "/%s/%s":
                it = [rng.choice(["etc", "opt", "..", "etc/sub"] + ([] if case["rootform"] == "fs" else ["l0"])),
                      rng.choice(["passwd", "hosts", "a.conf", "deep.conf", "*", "secret"])]
            else:
                it = [rng.choice(pools[t])]
            if rng.random() < 0.08:
                it = it + ["extra"] if rng.random() < 0.5 else it[:-1]
            items.append(it)
        case["b"] = items
        case["save"] = rng.choice(save_pool)
        case["ignore"] = rng.choice([None, None, "hosts"])
    else:
        bins = ["$B/bin/cmd1", "$B/bin/cmd1", "$B/bin/cmd2", "$B/bin/tool", "$B/bin/missing", "ls", "cat", "cat", "no_such_binary_c06"]
        tails = ["", " -a", " -a", " -a /etc/x", " -a /etc/x", " --long opt", " a  b", " 'q r'", " 'unbalanced", " -l /etc/../x"]
        if kind == "simple_command":
            case["a"] = rng.choice(bins) + rng.choice(tails)
            case["save"] = rng.choice([None, None, "renamed", "/d/x/", "../up", "a/../../../b"])
        elif kind == "command_with_args":
            case["a"] = rng.choice(bins) + rng.choice([" %s", " %s", " -x %s %s", " plain", " %s%%"])
            n = case["a"].count("%s")
            case["b"] = [rng.choice(["arg", "-a", "/etc/x", "two words"]) for _ in range(rng.choice([n, n, n, n, 1, 2, 0]))]
            case["save"] = rng.choice([None, "renamed", "../up"])
        elif kind == "foreach_execute":
            case["a"] = rng.choice(bins) + rng.choice([" %s", " -x %s %s", " %s%%", " -a %s"])
            n = case["a"].count("%s")
            case["b"] = [[rng.choice(["arg", "-a", "/etc/x", "b c", "/etc/passwd"]) for _ in range(rng.choice([n, n, n, 1, 0]))]
                         for _ in range(rng.randint(0, 4))]
        elif kind == "container_execute":
            case["a"] = rng.choice(["ls -l", "cat %s", "/bin/ps aux", "tool %s %s", ""])
            n = case["a"].count("%s")
            case["b"] = [["img%d" % i, rng.choice(["docker", "docker", "docker", "podman", "env"]),
                          rng.choice(["c0ffee", "abc123", "a b", ""])] +
                         [rng.choice(["/etc/x", "arg", "../../../up"]) for _ in range(rng.choice([n, n, 0]))]
                         for i in range(rng.randint(0, 4))][:rng.randint(0, 4)]
            if rng.random() < 0.1:
                case["b"].append(["short"])
        elif kind == "container_collect":
            case["a"] = rng.choice([None, "%s", "/etc/hosts", "/var/log/../../etc/x", "../../../../up"])
            withpath = case["a"] in (None, "%s")
            case["b"] = [["img%d" % i, rng.choice(["docker", "docker", "podman"]), rng.choice(["c0ffee", "abc123"])] +
                         ([rng.choice(["/etc/passwd", "etc/x", "/a/../../../../b", "/with space"])] if (withpath or rng.random() < 0.1) else [])
                         for i in range(rng.randint(0, 4))]
    if host:
        case["filtered"] = kind in FILE_KINDS and not case["raw"] and rng.random() < 0.15
    if not case["filtered"] and not case["raw"] and kind in FILE_KINDS + ["simple_command", "foreach_execute"] and rng.random() < 0.06:
        case["nofilter"] = True
    return case


def candidate_cmds(case, base):
    """the command lines the factory is asked to run (the harness's own formatting of the documented templates)"""
    k = case["kind"]
    a = sub(case["a"], base) if isinstance(case.get("a"), str) else case.get("a")
    out = []
    if k == "simple_command":
        out.append(a)
    elif k == "command_with_args":
        b = tuple(case["b"])
        out.append(pyfmt(a, b[0] if len(b) == 1 else b))
    elif k == "foreach_execute":
        for it in case["b"]:
            out.append(pyfmt(a, tuple(it)))
    elif k == "container_execute":
        for it in case["b"]:
            if len(it) >= 3:
                args = tuple(it[3:])
                c = pyfmt(a, args) if args else a
                if c is not None:
                    out.append("/usr/bin/%s exec %s %s" % (it[1], it[2], c))
    elif k == "container_collect":
        for it in case["b"]:
            e = it[1:]
            if a is None or a == "%s":
                if not e:
                    continue
                e, path = e[:-1], e[-1]
            else:
                path = a
            if len(e) == 2:
                out.append(("/usr/bin/%s exec %s cat " % tuple(e)) + path)
    return [c for c in out if c is not None]


def gen_deny_cmds(rng, case, base):
    cands = candidate_cmds(case, "$B")
    pool = []
    for c in cands:
        parts = c.split(" ")
        for i in range(1, len(parts) + 1):
            pool.append(" ".join(parts[:i]))
        pool.append(c[:-1])
    pool += ["$B/bin/cmd1", "$B/bin/cmd", "ls", "/usr/bin/docker exec", "/usr/bin/docker", "cat"]
    d = set(rng.choice(pool) for _ in range(rng.choice([0, 0, 0, 1, 1, 2])))
    if cands and rng.random() < 0.15:
        d.add(rng.choice(cands))
    return sorted(d)


def build_ds(case, base, ctxcls):
    k = case["kind"]
    _ds_counter[0] += 1
    kw = {}
    if case.get("filtered"):
        kw["filterable"] = True
    a = case.get("a")
    a = sub(a, base) if isinstance(a, str) else ([sub(x, base) for x in a] if isinstance(a, list) else a)
    fk = sf.RawFileProvider if case.get("raw") else sf.TextFileProvider
    prov_val = None
    items_ds = None
    if k in ("foreach_collect", "command_with_args", "foreach_execute", "container_execute", "container_collect"):
        def items(broker):
            return None
        items.__name__ = "items%d" % _ds_counter[0]
        items_ds = datasource(ctxcls)(items)
        if k == "command_with_args":
            b = tuple(case["b"])
            prov_val = b[0] if len(b) == 1 else b
        else:
            prov_val = [tuple(it) for it in case["b"]]
    if k == "simple_file":
        ds = sf.simple_file(a, save_as=case["save"], context=ctxcls, kind=fk, **kw)
    elif k == "glob_file":
        ign = None if case["ignore"] is None else __import__("re").escape(case["ignore"])
        ds = sf.glob_file(a, save_as=case["save"], ignore=ign, context=ctxcls, kind=fk, max_files=case["maxf"], **kw)
    elif k == "first_file":
        ds = sf.first_file(a, save_as=case["save"], context=ctxcls, kind=fk, **kw)
    elif k == "foreach_collect":
        ign = None if case["ignore"] is None else __import__("re").escape(case["ignore"])
        ds = sf.foreach_collect(items_ds, a, save_as=case["save"], ignore=ign, context=ctxcls, kind=fk, **kw)
    elif k == "simple_command":
        ds = sf.simple_command(a, save_as=case["save"], context=ctxcls)
    elif k == "command_with_args":
        ds = sf.command_with_args(a, items_ds, save_as=case["save"], context=ctxcls)
    elif k == "foreach_execute":
        ds = sf.foreach_execute(items_ds, a, context=ctxcls)
    elif k == "container_execute":
        ds = sf.container_execute(items_ds, a, context=ctxcls)
    elif k == "container_collect":
        ds = sf.container_collect(items_ds, a, context=ctxcls)
    else:
        raise ValueError(k)
    if case.get("nofilter"):
        # a filterable registry point implemented by ds, with no filter registered: `_filterable and not _filters`
        n = _ds_counter[0]
        base_cls = sf.SpecSetMeta("C06Specs%d" % n, (sf.SpecSet,), {"x": sf.RegistryPoint(filterable=True, multi_output=k in ("glob_file", "foreach_collect", "foreach_execute"))})
        sf.SpecSetMeta("C06Impl%d" % n, (base_cls,), {"x": ds})
    if case.get("filtered"):
        filters.add_filter(ds, "TOKEN")
    return ds, items_ds, prov_val


def walk_files(top):
    out = set()
    for d, ds, fs_ in os.walk(top):
        for f in fs_:
            out.add(os.path.join(d, f))
    return out


def has_dotdot(s):
    return s is not None and ".." in s.split("/")


def net_up(rel):
    """how far a relative path climbs above its starting directory at its lowest point"""
    d, low = 0, 0
    for c in rel.split("/"):
        if c in ("", "."):
            continue
        d += -1 if c == ".." else 1
        low = min(low, d)
    return -low


def enc_tuples(items):
    if not items:
        return "_"
    return ",".join(";".join(enc(x) for x in it) if it else "()" for it in items)


def enc_strs(xs, sep=","):
    return sep.join(enc(x) for x in xs) if xs else "_"


def fs_row(p):
    loc = kloc(p)
    return "%s:%s:%s:%s:%s" % (enc(p), "1" if loc is not None else "0", enc(loc or ""),
                               "1" if os.access(p, os.R_OK) else "0", "1" if os.path.isdir(p) else "0")


def run_factory(base, lay, case, tokloc, outdir):
    """returns (impl_answer, model_line, failures, info)"""
    fails = []
    info = {}
    k = case["kind"]
    case = dict(case)
    if isinstance(case.get("b"), list):
        case["b"] = [[sub(x, base) for x in it] if isinstance(it, list) else sub(it, base) for it in case["b"]]
    root = root_of(base, lay, case["rootform"])
    host = case["ctx"] == "host"
    ctxcls = HostContext if host else HostArchiveContext
    ctx = RecHost(root=root) if host else HostArchiveContext(root=root)
    denyf = [sub(f, base) for f in case["denyf"]]
    denyc = [sub(c, base) for c in case["denyc"]]
    for f in denyf:
        blacklist.add_file(f)
    for c in denyc:
        blacklist.add_command(c)
    _AUD["events"] = []
    provs, contents = [], []
    try:
        ds, items_ds, prov_val = build_ds(case, base, ctxcls)
        broker = dr.Broker()
        broker[ctxcls] = ctx
        if items_ds is not None:
            broker[items_ds] = prov_val
        # ---- glob results are taken before the call (the tree does not change in between)
        glob_rows, path_rows = [], {}
        a = case.get("a")
        if k in ("simple_file", "first_file"):
            for x in ([a] if k == "simple_file" else a):
                p = os.path.join(root, sub(x, base).lstrip("/"))
                path_rows[p] = None
        elif k in ("glob_file", "foreach_collect"):
            if k == "glob_file":
                pats = [sub(x, base) for x in a]
            else:
                pats = [pyfmt(sub(a, base), tuple(it)) for it in case["b"]]
            seen = set()
            for pat in pats:
                if pat is None:
                    continue
                key = os.path.join(root, pat.lstrip("/"))
                res = globmod.glob(key)
                if k == "glob_file":
                    res = sorted(res)
                if key not in seen:
                    seen.add(key)
                    glob_rows.append("%s:%s" % (enc(key), enc_strs(res, ";")))
                for g in res:
                    path_rows[g] = None
                    path_rows[os.path.join(root, g[len(root):].lstrip("/"))] = None
        cmds = candidate_cmds(case, base) if k in CMD_KINDS else []
        # ---- the datasource itself
        audit(True)
        try:
            try:
                res = ds(broker)
                provs = res if isinstance(res, list) else [res]
                ans_head = "ok"
            except Exception as ex:
                ans_head = classify(ex)
                if os.environ.get("C06_DEBUG") and ans_head == "other":
                    info["exc"] = repr(ex)
        finally:
            audit(False)
        ctor_events = [e for e in _AUD["events"] if e[0] in ("open", "rec", "popen")]
        if ctor_events:
            info["ctor_events"] = ctor_events
        # ---- read everything that was returned
        _AUD["events"] = []
        audit(True)
        try:
            for p in provs:
                try:
                    contents.append(p.content)
                except Exception:
                    contents.append(None)
        finally:
            audit(False)
        load_events = list(_AUD["events"])
        # ---- persist
        persisted = None
        if provs and outdir is not None:
            keep = [i for i, c in enumerate(contents) if c]
            rels = [(p.relative_path, getattr(p, "save_as", None)) for p in provs]
            climb = max([0] + [max(net_up(r or ""), net_up(s or "")) for r, s in rels])
            if keep and climb <= 4:
                out = os.path.join(outdir, "a", "b", "c", "d", "out")
                os.makedirs(os.path.dirname(out))
                before = walk_files(base)
                broker[ds] = [provs[i] for i in keep] if isinstance(res, list) else provs[0]
                _AUD["events"] = []
                audit(True)
                try:
                    serde.Hydration(out).dehydrate(ds, broker)
                finally:
                    audit(False)
                new = walk_files(base) - before
                meta = os.path.join(out, "meta_data", dr.get_name(ds) + ".json")
                doc = None
                if os.path.exists(meta):
                    with open(meta) as fh:
                        doc = json.load(fh)
                dirs = set()
                for d_, ds_, _fs in os.walk(outdir):
                    dirs.add(d_)
                persisted = {"keep": keep, "new": sorted(new), "newloc": sorted(set(kloc(f) or f for f in new)),
                             "out": out, "doc": doc, "meta": meta,
                             "events": list(_AUD["events"]), "dirs": dirs,
                             "cp": [os.path.basename(p.path) if isinstance(p, sf.RawFileProvider) else None for p in provs]}
    finally:
        clear_deny()
    # ---- implementation answer
    parts = [ans_head]
    for p in provs:
        if isinstance(p, sf.FileProvider):
            parts.append("o:" + p.path)
        else:
            parts.append("x:" + p.cmd)
    ans = "|".join(parts)
    # ---- ORACLE (A)
    for p, c in zip(provs, contents):
        if isinstance(p, sf.FileProvider):
            check_contained(fails, case, k, root, p.path, c, tokloc)
    # ---- ORACLE (B): the open/exec trace of construction + reading
    trace = []
    all_events = list(info.get("ctor_events", [])) + load_events + (persisted["events"] if persisted else [])
    if host:
        for ev in all_events:
            if ev[0] == "open" and ev[1].startswith(root) and not (persisted and ev[1].startswith(persisted["out"])):
                ent = "/" + ev[1][len(root):].lstrip("/")
                if oracle_denied(ent, denyf):
                    fails.append(("deny list %r: %s opened %r" % (denyf, k, ev[1]), case, None))
            elif ev[0] in ("rec", "popen"):
                argvs = ev[1] if ev[0] == "rec" else [ev[1]]
                for argv in argvs:
                    if argv and argv[0] == "grep" and ev[0] == "rec":
                        pth = argv[-1]
                        if pth.startswith(root) and oracle_denied("/" + pth[len(root):].lstrip("/"), denyf):
                            fails.append(("deny list %r: %s ran grep on %r" % (denyf, k, pth), case, None))
                        continue
                    if all(t and not any(ch in t for ch in " \t'\"\\") for t in argv):
                        if oracle_denied(" ".join(argv), denyc):
                            fails.append(("deny list %r: %s executed %r" % (denyc, k, argv), case, None))
    for ev in load_events:
        if ev[0] == "open":
            trace.append("o:" + ev[1])
        elif ev[0] == "rec":
            argv = ev[1][0]
            if argv and argv[0] == "grep":
                trace.append("o:" + argv[-1])
            else:
                trace.append("x:" + "\x00".join(argv))
    info["trace"] = trace
    info["ctor_quiet"] = not info.get("ctor_events")
    # ---- ORACLE (C)
    if persisted:
        outloc = kloc(persisted["out"])
        dd = any(has_dotdot(p.relative_path) or has_dotdot(getattr(p, "save_as", None)) for p in provs)
        for nf in persisted["new"]:
            loc = kloc(nf) or nf
            if not inside(loc, outloc):
                fails.append(("%s persisted a file at %r, outside the output directory %r" % (k, loc, outloc), case,
                              FINDING if dd else None))
        info["persisted"] = persisted
    # ---- model line
    save = case["save"]
    line = "\t".join([
        "fac", k,
        (enc(sub(case["a"], base)) if isinstance(case.get("a"), str) else
         ("~" if case.get("a") is None else enc_strs([sub(x, base) for x in case["a"]]))),
        (enc_tuples(case["b"]) if k in ("foreach_collect", "foreach_execute", "container_execute", "container_collect")
         else (enc_strs(case["b"], ";") if k == "command_with_args" else "_")),
        "1" if host else "0", enc(root), enc(kloc(root) or ""), enc_strs(denyf), enc_strs(denyc),
        "~" if save is None else enc(save), "~" if case["ignore"] is None else enc(case["ignore"]), str(case["maxf"]),
        "1" if case.get("nofilter") else "0",
        enc(persisted["out"] if persisted else "/out"),
        ",".join(fs_row(p) for p in path_rows) if path_rows else "_",
        ",".join(glob_rows) if glob_rows else "_",
        ",".join("%s:%s" % (enc(c), cmd_status(c)) for c in dict.fromkeys(cmds)) if cmds else "_"])
    return ans, line, fails, info


def canon_factory_model(model):
    """model answer -> (answer in the implementation's form, [trace], [rel], [location])"""
    from harness.common import dec
    parts = model.split(" ")
    if parts[0] != "ok":
        return MODEL_ERR_CLASS.get(parts[0], parts[0]), [], [], []
    head, trace, rels, locs = ["ok"], [], [], []
    for p in parts[1:]:
        kind, what, rel, loc = p.split(":")
        head.append(kind + ":" + dec(what))
        trace.append(kind + ":" + ("\x00".join(shlex.split(dec(what))) if kind == "x" else dec(what)))
        rels.append(dec(rel))
        locs.append(dec(loc))
    return "|".join(head), trace, rels, locs


MODEL_ERR_CLASS = {"content": "content", "nofilter": "nofilter", "blacklisted": "blacklisted", "other": "other"}


def compare_factory(chk, case, ans, info, model):
    """returns list of mismatch descriptions for this case"""
    m_ans, m_trace, m_rels, m_locs = canon_factory_model(model)
    bad = []
    if ans != m_ans:
        bad.append(("providers", ans, m_ans))
    else:
        if info["trace"] != m_trace:
            bad.append(("trace", info["trace"], m_trace))
        if not info["ctor_quiet"]:
            bad.append(("constructor-opened-or-executed", info.get("ctor_events"), []))
        per = info.get("persisted")
        if per and per["doc"] is not None and not per["doc"].get("errors"):
            res = per["doc"].get("results") or []
            res = res if isinstance(res, list) else [res]
            i_rels = [r["object"]["relative_path"] for r in res]
            want = [m_rels[i] for i in per["keep"]]
            if i_rels != want:
                bad.append(("relative_path", i_rels, want))
            i_new = per["newloc"]
            # `cp src dst` with dst an existing directory copies INTO it (RawFileProvider.write; cp is not modelled)
            w_locs = [(m_locs[i].rstrip("/") + "/" + per["cp"][i]) if (per["cp"][i] and m_locs[i] in per["dirs"]) else m_locs[i]
                      for i in per["keep"]]
            w_new = sorted(set(w_locs + [per["meta"]]))
            if i_new != w_new:
                bad.append(("created-files", i_new, w_new))
            chk.count("persist:compared")
        elif per:
            chk.count("persist:with-errors")
    return bad


# --------------------------------------------------------------------------- direct serializer stream

def gen_ser_case(rng):
    segs = ["a", "b", "etc", "..", ".", "x.conf", "sp ace", "", "c", "d.d"]
    def relp(maxn):
        return "/".join(rng.choice(segs) for _ in range(rng.randint(1, maxn)))
    kind = rng.choice(["datasource", "datasource", "command"])
    rel = rng.choice(["", "/", "//"]) + relp(6)
    save = rng.choice([None, None, relp(3), relp(3) + "/", "d/", "../", "..", "a/../../b", "a/../../b/"])
    if save is not None and save.startswith("/"):
        save = "r" + save            # the property quantifies over RELATIVE paths
    if kind == "command":
        return {"op": "ser", "kind": "command", "cmd": "$B/bin/cmd1 " + rng.choice(["-a", "/etc/../..", "a/b/../../../c", "..", "x y"]),
                "save": save}
    return {"op": "ser", "kind": "datasource", "rel": rel, "save": save}


def run_ser(base, case, outdir):
    fails = []
    out = os.path.join(outdir, "a", "b", "c", "d", "out")
    save = case["save"]
    if case["kind"] == "datasource":
        obj = sf.DatasourceProvider("content TOKEN line\nsecond\n", case["rel"], save_as=save)
        mkind, mrel = "file", obj.relative_path
    else:
        obj = sf.CommandOutputProvider(sub(case["cmd"], base), RecHost(root="/"), save_as=save)
        mkind, mrel = "command", obj.relative_path
    climb = max(net_up(obj.relative_path), net_up(save or ""))
    line = "\t".join(["ser", mkind, enc(mrel), "~" if save is None else enc(save), enc(out)])
    if climb > 4:
        return None, line, fails
    os.makedirs(out)
    before = walk_files(base)
    try:
        d = serde.serialize(obj, root=out)
        ans = d["object"]["relative_path"]
    except Exception as ex:
        ans = None
    new = walk_files(base) - before
    outloc = kloc(out)
    dd = has_dotdot(obj.relative_path) or has_dotdot(save)
    locs = []
    for nf in new:
        loc = kloc(nf) or nf
        locs.append(loc)
        if not inside(loc, outloc):
            fails.append(("serializer of %s wrote %r, outside the directory %r it was given (relative_path %r, save_as %r)"
                          % (type(obj).__name__, loc, outloc, obj.relative_path, save), case, FINDING if dd else None))
    if ans is None:
        return None, line, fails
    return ans + "|" + ",".join(sorted(locs)), line, fails


def canon_ser_model(model):
    from harness.common import dec
    rel, dst, loc = model.split(" ")
    return dec(rel) + "|" + dec(loc)


# --------------------------------------------------------------------------- primitives / mangle / deny match

PRIM_ALPH = ["a", "b", "/", "/", "//", ".", "..", " ", "x1", "_", "-", "%s", "%%", "%", "\t", "e", "usr", "bin"]
CMD_ALPH = ["/usr/bin/", "/bin/", "/usr/sbin/", "/sbin/", "/usr/", "ls", "cat", " ", "  ", "-l", "/", "..", ".", "_", "-", "{", "}",
            "|", "$x", "'", "\t", "a", "Z9", "=", ":", "//", "etc/passwd", "~", "*", "\n"]


def gstr(rng, alph, n):
    return "".join(rng.choice(alph) for _ in range(rng.randint(0, n)))


def in_fmt_subset(t):
    """every '%' of the template starts '%s' or '%%' (scanned left to right, as `%` formatting does)"""
    i = 0
    while i < len(t):
        if t[i] == "%":
            if t[i + 1:i + 2] not in ("s", "%"):
                return False
            i += 2
        else:
            i += 1
    return True


def py_norm(s):
    """reference for `norm`: the kernel-style lexical resolution of an absolute path (own statement, not os.path)"""
    st = []
    for c in s.split("/"):
        if c in ("", "."):
            continue
        if c == "..":
            if st:
                st.pop()
        else:
            st.append(c)
    return "/" + "/".join(st)


# --------------------------------------------------------------------------- run

def run(chk):
    import logging
    logging.disable(logging.CRITICAL)       # the implementation logs every skipped file / command
    rng = chk.rng
    quick = chk.tier == "quick"
    n_layouts = 140 if quick else 1000
    n_val = 14 if quick else 24
    n_fac = 14 if quick else 24
    n_ser = 300 if quick else 6000
    n_prim = 1500 if quick else 40000
    chk.rule = ("layouts: a root directory with nested dirs and files, prefix-sharing siblings (root2, root_x, roo), 3-8 random symlinks "
                "(relative/absolute, to files/dirs inside and outside, to the base, to '/', dangling, loops, chains), root given plainly, with "
                "trailing '/', through a symlink, with './' and 'x/../', and as '/'; requests: plain, through links, with '..' chains "
                "(out-and-back, into siblings, up to '/' and down again), doubled slashes, directories, missing; deny lists drawn from the "
                "requests themselves, their prefixes and space continuations; every factory kind under a recording HostContext and a "
                "HostArchiveContext; save_as with and without trailing '/', with '..'. non-trivial = distinct (kind, context, root form, "
                "request shape, outcome) with a provider returned or a rejection other than 'missing'; round 10: every factory kind x filterable x "
                "filters x denied (declaration place, no_redact/no_obfuscate/raw/split/keep_rc/env, PATH-relative commands, file shapes, item "
                "sources, histories once / twice / deny-after-first-use) against the ordered checks of validate(); deny lists as a user may "
                "write them (non-string items, None / number / bare string sections, unknown keys) through apply_blacklist and collect() "
                "(manifest as dict / YAML text / YAML file)")
    chk.assumptions = [
        "os.path.realpath = the kernel's resolution, no concurrent change of the tree between validate and open (the tie feeds the model the kernel's answer and so checks realpath against it on every generated path)",
        "glob() results, os.path.exists/access/isdir, shlex.split + PATH look-up, the `ignore` regular expression and `%` formatting outside %s/%% are parameters of the model",
        "`\\w` of re is modelled for ASCII (commands in the mangle stream are ASCII); ctx.locate_path (expandvars) is the identity on the generated paths (no '$')",
        "commands are recorded by a HostContext subclass (check_output/connect/stream overridden), not executed; `cp` of RawFileProvider.write and grep pre-filtering run for real",
        "deny-list clause is the string match the code documents: a non-canonical spelling of a denied path (extra '/', '.', '..', a symlink alias) is a different entry",
    ]
    chk.lean()

    base = os.path.realpath(tempfile.mkdtemp(prefix="c06_"))
    _AUD["base"] = base
    audit(False)
    try:
        _run(chk, rng, base, n_layouts, n_val, n_fac, n_ser, n_prim)
    finally:
        audit(False)
        clear_deny()
        shutil.rmtree(base, ignore_errors=True)


def load_corpus():
    d = os.path.join(VERIF, "corpus", "C06")
    out = []
    if os.path.isdir(d):
        for f in sorted(os.listdir(d)):
            if f.endswith(".json"):
                out.append((f, json.load(open(os.path.join(d, f)))))
    return out


def shape(req):
    return "".join(sorted(set(("d" if "../" in req or req.endswith("..") else "") + ("l" if "/l" in "/" + req else "") +
                              ("s" if "//" in req or req.startswith("/") else "") + ("b" if "$b" in req else ""))))


def _run(chk, rng, base, n_layouts, n_val, n_fac, n_ser, n_prim):
    from harness.common import dec
    # first, so that its (self-contained, history-carrying) cases lead the replay list
    run_vpath_stream(chk, rng, base, 8 if chk.tier == "quick" else 60)
    n_after = 8 if chk.tier == "quick" else 12
    n_sval = 4 if chk.tier == "quick" else 6
    v_cases, v_impl, v_lines = [], [], []
    f_cases, f_impl, f_lines, f_info = [], [], [], []
    outn = [0]

    def new_out():
        outn[0] += 1
        p = os.path.join(base, "outs", "n%d" % outn[0])
        os.makedirs(p)
        return p

    def do_layout(lay, vcases, fcases, built=False):
        if not built:
            wipe_layout(base)
            build_layout(base, lay)
        tokloc = dict((t, kloc(os.path.join(base, rel))) for t, rel in lay["tokens"].items())
        for case in vcases:
            ans, line, fails = run_validate(base, lay, case, tokloc)
            full = dict(case, layout=lay)
            for desc, _, fid in fails:
                chk.failure(desc, full, finding=fid)
            v_cases.append(full)
            v_impl.append(ans)
            v_lines.append(line)
            chk.case(("v", case["ctx"], case["rootform"], case["kind"], shape(case["req"]), ans.split(" ")[0], bool(case["deny"])),
                     nontrivial=True)
            chk.count("validate:" + ans.split(" ")[0])
            chk.count("rootform:" + case["rootform"])
        for case in fcases:
            od = new_out()
            try:
                ans, line, fails, info = run_factory(base, lay, case, tokloc, od)
            finally:
                shutil.rmtree(od, ignore_errors=True)
            full = dict(case, layout=lay)
            for desc, _, fid in fails:
                chk.failure(desc, full, finding=fid)
            f_cases.append(full)
            f_impl.append(ans)
            f_lines.append(line)
            f_info.append(info)
            head = ans.split("|")[0]
            chk.case(("f", case["kind"], case["ctx"], case["rootform"], head, ans.count("|"), bool(case["denyf"] or case["denyc"]),
                      case["save"], case.get("filtered")), nontrivial=True)
            chk.count("factory:%s:%s" % (case["kind"], head))
            chk.count("providers:%d" % min(ans.count("|"), 5))

    # ---- corpus first (regression layout of the repaired prefix defect, the known finding's witness)
    for name, doc in load_corpus():
        c = doc["case"]
        if c.get("op") in ("vpath", "blseq", "collect", "collect-hist"):
            continue                    # run at the head of their own streams
        lay = c["layout"]
        case = dict((k, v) for k, v in c.items() if k != "layout")
        if case["op"] == "validate":
            do_layout(lay, [case], [])
        elif case["op"] == "factory":
            n0 = len(chk.failures)
            k0 = chk.known_hits.get(FINDING, 0)
            do_layout(lay, [], [case])
            if doc.get("finding") == FINDING:
                if chk.known_hits.get(FINDING, 0) > k0 or len(chk.failures) > n0:
                    chk.witnesses.append({"finding": FINDING, "corpus": name, "reproduced": True})
                else:
                    chk.witnesses.append({"finding": FINDING, "corpus": name, "reproduced": False})
        chk.count("corpus")

    # ---- generated layouts
    import time as _t
    _t0 = _t.time()
    for li in range(n_layouts):
        if os.environ.get("C06_DEBUG") and li % 20 == 0:
            print("layout", li, round(_t.time() - _t0, 1), len(dr.DELEGATES))
        lay = gen_layout(rng)
        for rel, kind in lay["links"]:
            chk.count("link:" + kind)
        wipe_layout(base)
        build_layout(base, lay)
        reqs = gen_requests(rng, lay, n_val, base)
        vcases = []
        for r in reqs:
            host = rng.random() < 0.5
            vcases.append({"op": "validate", "ctx": "host" if host else "archive", "rootform": rng.choice(ROOTFORMS),
                           "deny": gen_deny_files(rng, lay, reqs, [r]) if host else [], "req": r,
                           "kind": rng.choice(["text", "text", "raw"])})
        for r in gen_after_link(rng, lay, n_after, base):
            host = rng.random() < 0.5
            vcases.append({"op": "validate", "ctx": "host" if host else "archive", "rootform": rng.choice(ROOTFORMS),
                           "deny": [], "req": r, "kind": rng.choice(["text", "raw"])})
            chk.count("after-link-dotdot:" + ("resolves" if kloc(os.path.join(base, lay["rootname"], r)) else "missing"))
        # the providers the deserializers build (SerializedOutputProvider / SerializedRawOutputProvider) over the same topologies
        for r in gen_requests(rng, lay, n_sval, base) + gen_after_link(rng, lay, n_sval, base):
            vcases.append({"op": "validate", "ctx": "serialized", "rootform": rng.choice(ROOTFORMS), "deny": [], "req": r,
                           "kind": rng.choice(["stext", "stext", "sraw"])})
        fcases = []
        for _ in range(n_fac):
            host = rng.random() < 0.7
            kind = rng.choice(FILE_KINDS + (CMD_KINDS if host else []) + ["glob_file", "foreach_collect"])
            case = gen_factory_case(rng, lay, kind, host, base)
            if host:
                if kind in FILE_KINDS:
                    a = case["a"] if isinstance(case["a"], list) else [case["a"]]
                    pool = [x for x in a if "%" not in x and "*" not in x]
                    pre = "$B/" + lay["rootname"] if case["rootform"] == "fs" else ""
                    infiles = [pre + "/" + x for x in lay["in_files"]]
                    case["denyf"] = gen_deny_files(rng, lay, pool + infiles, pool or infiles)
                else:
                    case["denyc"] = gen_deny_cmds(rng, case, base)
            fcases.append(case)
        do_layout(lay, vcases, fcases, built=True)
    wipe_layout(base)

    model = run_driver("C06", v_lines)
    chk.compare("validate(FileProvider)", v_cases, v_impl, [canon_mkfile(m) for m in model],
                show=lambda c: dict((k, v) for k, v in c.items()))
    for c, a in list(zip(v_cases, v_impl))[5:8]:
        chk.sample({"validate": {k: c[k] for k in ("ctx", "rootform", "req", "deny", "kind")}, "impl": a.replace(base, "$B")})

    model = run_driver("C06", f_lines)
    mism, first = 0, None
    for case, ans, info, m in zip(f_cases, f_impl, f_info, model):
        bad = compare_factory(chk, case, ans, info, m)
        if bad:
            mism += 1
            if os.environ.get("C06_DEBUG"):
                print("MISMATCH", {k: v for k, v in case.items() if k != "layout"}, [[b[0], b[1], b[2]] for b in bad])
            if first is None:
                first = {"case": case, "differences": [[b[0], b[1], b[2]] for b in bad]}
    chk.stream("factories(providers,trace,relative_path,created-files)", len(f_cases), mism)
    if mism:
        chk.tie_broken("correspondence:factories", "%d of %d cases differ" % (mism, len(f_cases)), first)
    for c, a in list(zip(f_cases, f_impl))[3:6]:
        chk.sample({"factory": {k: c.get(k) for k in ("kind", "ctx", "rootform", "a", "b", "save", "denyf", "denyc")},
                    "impl": a.replace(base, "$B")})

    # ---- direct serializers
    build_layout(base, {"nodes": [["x", "bin/cmd1"]]})
    s_cases, s_impl, s_lines = [], [], []
    for _ in range(n_ser):
        case = gen_ser_case(rng)
        od = new_out()
        try:
            ans, line, fails = run_ser(base, case, od)
        finally:
            shutil.rmtree(od, ignore_errors=True)
        for desc, _, fid in fails:
            chk.failure(desc, case, finding=fid)
        chk.case(("s", case["kind"], case.get("rel"), case.get("cmd"), case["save"]), nontrivial=ans is not None)
        chk.count("serialize:" + ("skipped-or-error" if ans is None else ("dotdot" if has_dotdot(ans.split("|")[0]) else "plain")))
        if ans is not None:
            s_cases.append(case)
            s_impl.append(ans)
            s_lines.append(line)
    shutil.rmtree(os.path.join(base, "outs"), ignore_errors=True)
    model = run_driver("C06", s_lines)
    chk.compare("serialize(relative_path,location)", s_cases, s_impl, [canon_ser_model(m) for m in model])

    # ---- the known finding's witness, on the real code
    w = witness_dotdot(base)
    chk.witnesses.append({"finding": FINDING, "witness": "simple_file('/../../<scratch>/src/f') under HostContext(root='/'), Hydration(out).dehydrate",
                          "reproduced": w})
    if w:
        chk.finding_reproduced(FINDING)

    # ---- primitives, mangle, deny match, accept
    lines, impl, cases = [], [], []

    def add(case, line, ans):
        cases.append(case)
        lines.append(line)
        impl.append(ans)

    for _ in range(n_prim):
        a, b = gstr(rng, PRIM_ALPH, 5), gstr(rng, PRIM_ALPH, 5)
        add(("join", a, b), "join\t%s\t%s" % (enc(a), enc(b)), os.path.join(a, b))
        add(("base", a), "base\t" + enc(a), os.path.basename(a))
        add(("lstrip", a), "lstrip\t" + enc(a), a.lstrip("/"))
        add(("rstrip", a), "rstrip\t" + enc(a), a.rstrip("/"))
        add(("strip", a), "strip\t" + enc(a), a.strip("/"))
        add(("norm", a), "norm\t" + enc(a), py_norm(a))
        k = rng.randint(0, 4)
        add(("splitws", k, a), "splitws\t%d\t%s" % (k, enc(a)), a.split(None, k))
        args = [gstr(rng, ["x", "y", "%", " "], 2) for _ in range(rng.randint(0, 3))]
        t = gstr(rng, ["a", "%s", "%s", "%%", " ", "/", "%"], 5)
        ok_subset = in_fmt_subset(t)
        try:
            r = "ok " + (t % tuple(args))
        except Exception:
            r = "err"
        if ok_subset or r == "err":
            add(("fmt", t, args), "fmt\t%s\t%s" % (enc(t), enc_strs(args, ";")), r)
        c = gstr(rng, CMD_ALPH, 7)
        m = mangle_command(c)
        add(("mangle", c), "mangle\t" + enc(c), m)
        chk.case(("mangle", c), nontrivial=bool(m))
        # ORACLE (C): the mangled name is one path component
        if "/" in m or m in (".", "..") or "\x00" in m:
            chk.failure("mangle_command(%r) = %r is not a single path component" % (c, m), {"op": "mangle", "cmd": c})
        # deny match
        f = rng.choice([c, c[:rng.randint(0, len(c))], c + " ", gstr(rng, CMD_ALPH, 3)])
        d = sorted(set([f] + [gstr(rng, CMD_ALPH, 3) for _ in range(rng.randint(0, 2))]))
        for x in d:
            blacklist.add_command(x)
            blacklist.add_file(x)
        try:
            ra, rf = blacklist.allow_command(c), blacklist.allow_file(c)
        finally:
            clear_deny()
        add(("deny", c, d), "deny\t%s\t%s" % (enc(c), enc_strs(d)), (ra, rf))
        chk.count("deny:" + ("refused" if not ra else "allowed"))
        if ra != rf or ra == oracle_denied(c, d):
            chk.failure("allow_command/allow_file(%r) with deny %r = %r/%r, the documented match says %r"
                        % (c, d, ra, rf, not oracle_denied(c, d)), {"op": "deny", "c": c, "deny": d})
        # hydration paths
        nm = gstr(rng, ["a", ".", "b_c", "Spec"], 4)
        add(("hyd", a, nm), "hyd\t%s\t%s" % (enc(a), enc(nm)),
            (os.path.join(a, "data"), os.path.join(os.path.join(a, "meta_data"), nm + ".json")) if a else None)
    model = run_driver("C06", lines)
    canon = []
    for case, m, i in zip(cases, model, impl):
        op = case[0]
        if op in ("join", "base", "lstrip", "rstrip", "strip", "norm", "mangle"):
            canon.append(dec(m))
        elif op == "splitws":
            canon.append([dec(x) for x in m.split(",")] if m != "-" else [])
        elif op == "fmt":
            canon.append("ok " + dec(m[3:]) if m.startswith("ok ") else m)
        elif op == "deny":
            canon.append((m == "1", m == "1"))
        elif op == "hyd":
            canon.append(tuple(dec(x) for x in m.split(" ")) if i is not None else None)
    chk.compare("primitives+mangle+deny-match", cases, impl, canon)
    chk.sample({"mangle": cases[8][1], "impl": impl[8]})

    run_hydrate_stream(chk, rng, base, 60 if chk.tier == "quick" else 1200)
    run_apply_blacklist(chk, rng)
    run_collect_stream(chk, rng, 40 if chk.tier == "quick" else 300)
    run_collect_history_stream(chk, rng, 8 if chk.tier == "quick" else 120)


def witness_dotdot(base):
    """known finding: '..' segments at the front of a path under root '/' climb out of the data directory"""
    work = os.path.join(base, "w")
    src = os.path.join(work, "src")
    os.makedirs(src)
    with open(os.path.join(src, "f"), "w") as fh:
        fh.write("witness TOKEN\n")
    out = os.path.join(work, "o1", "o2", "o3", "out")
    os.makedirs(os.path.dirname(out))
    ds = sf.simple_file("/../../.." + src + "/f", context=HostContext)
    broker = dr.Broker()
    broker[HostContext] = RecHost(root="/")
    before = walk_files(base)
    try:
        broker[ds] = ds(broker)
        serde.Hydration(out).dehydrate(ds, broker)
    except Exception:
        return False
    new = walk_files(base) - before
    outloc = kloc(out)
    esc = [f for f in new if not inside(kloc(f) or f, outloc)]
    shutil.rmtree(work, ignore_errors=True)
    return bool(esc)


def run_apply_blacklist(chk, rng):
    from harness.common import dec
    import insights.specs.default  # noqa: F401  (DefaultSpecs must be loaded for the symbolic names)
    names = ["hostname", "uptime", "not_a_spec_c06", "installed_rpms", "/etc/passwd", "/bin/ls -l", "with space", "a.b", "x-y",
             "insights.specs.default.DefaultSpecs.hostname", "insights.specs.default.DefaultSpecs.date", "insights.no.such.component",
             "ps_auxww", "1abc", "_x"]
    cases, impl, lines = [], [], []
    for _ in range(40 if chk.tier == "quick" else 600):
        files = [rng.choice(names) for _ in range(rng.randint(0, 3))]
        cmds = [rng.choice(names) for _ in range(rng.randint(0, 3))]
        comps_ = [rng.choice(names) for _ in range(rng.randint(0, 3))]
        pre = "insights.specs.default.DefaultSpecs."
        specs = [n for n in names if n.isidentifier() and dr.get_component_by_name(pre + n)]
        known = [n for n in names if dr.get_component_by_name(n)]
        touched = set()
        try:
            collect.apply_blacklist({"files": files, "commands": cmds, "components": comps_})
            disabled = []
            for n in names:
                for full in (n, pre + n):
                    c = dr.get_component_by_name(full) if ("." in full and " " not in full and "/" not in full) else None
                    if c is not None and not dr.is_enabled(c):
                        disabled.append(full)
                        touched.add(c)
            got = (sorted(blacklist._FILE_FILTERS), sorted(blacklist._COMMAND_FILTERS), sorted(set(disabled)))
        finally:
            for c in touched:
                dr.set_enabled(c, True)
            clear_deny()
        cases.append({"op": "bl", "files": files, "commands": cmds, "components": comps_})
        impl.append(got)
        lines.append("bl\t%s\t%s\t%s\t%s\t%s" % (enc_strs(files), enc_strs(cmds), enc_strs(comps_), enc_strs(specs), enc_strs(known)))
        chk.case(("bl", tuple(files), tuple(cmds), tuple(comps_)), nontrivial=bool(files or cmds or comps_))
        # ORACLE (B): every configured entry is either in a deny set or a disabled component (never silently dropped)
        for f in files:
            if f not in got[0] and (pre + f) not in got[2]:
                chk.failure("apply_blacklist dropped the file entry %r" % f, cases[-1])
        for c in cmds:
            if c not in got[1] and (pre + c) not in got[2]:
                chk.failure("apply_blacklist dropped the command entry %r" % c, cases[-1])
    model = run_driver("C06", lines)
    canon = []
    for m in model:
        a, b, c = m.split(" ")
        canon.append(tuple(sorted(set(dec(x) for x in f.split(","))) if f != "-" else [] for f in (a, b, c)))
    chk.compare("apply_blacklist", cases, impl, canon)

    run_apply_blacklist_malformed(chk, rng, names)

    # a component disabled through the deny list is not evaluated
    del _VICTIM_RAN[:]
    if not _VICTIM_REG:
        _VICTIM_REG.append(datasource()(c06_victim))
    v = _VICTIM_REG[0]
    try:
        broker = dr.run(dr.get_dependency_graph(v), dr.Broker())
        enabled_runs = len(_VICTIM_RAN)
        collect.apply_blacklist({"components": [dr.get_name(v)]})
        broker = dr.run(dr.get_dependency_graph(v), dr.Broker())
        chk.case(("bl-run", enabled_runs), nontrivial=enabled_runs == 1)
        if len(_VICTIM_RAN) != enabled_runs or v in broker:
            chk.failure("component %s named in the deny list was evaluated" % dr.get_name(v), {"op": "bl-run"})
    finally:
        dr.set_enabled(v, True)
        clear_deny()


def bl_state(strs):
    """(file deny set, command deny set, disabled components among the names that were mentioned) + the components touched"""
    pre = "insights.specs.default.DefaultSpecs."
    disabled, touched = [], set()
    for n in strs:
        for full in (n, pre + n):
            c = dr.get_component_by_name(full) if ("." in full and " " not in full and "/" not in full) else None
            if c is not None and not dr.is_enabled(c):
                disabled.append(full)
                touched.add(c)
    return (sorted(blacklist._FILE_FILTERS), sorted(blacklist._COMMAND_FILTERS), sorted(set(disabled))), touched


def run_blseq_case(case):
    """one collect.apply_blacklist on the deny list as written; returns (state or 'abort', model line, oracle failures, exception name)"""
    from collections import defaultdict
    import insights.specs.default  # noqa: F401
    pre = "insights.specs.default.DefaultSpecs."
    mal = case["malformed"]
    cfg = dict((k, mal[k]) for k in ("files", "commands", "components") if mal[k] != ABSENT)
    cfg.update(mal.get("extra") or {})
    strs = uniq(case["files"] + case["commands"] + case["components"])
    specs = [n for n in strs if n.isidentifier() and dr.get_component_by_name(pre + n)]
    known = [n for n in strs if dr.get_component_by_name(n)]
    saved = dict(dr.ENABLED)
    exname, fails = None, []
    try:
        try:
            collect.apply_blacklist(cfg)
            got, _t = bl_state(strs)
        except Exception as ex:
            got, exname = "abort", type(ex).__name__
    finally:
        en = defaultdict(lambda: True)
        en.update(saved)
        dr.ENABLED = en
        clear_deny()
    line = "blseq\t%s\t%s\t%s\t%s\t%s" % (sect_enc(mal["files"]), sect_enc(mal["commands"]), sect_enc(mal["components"]),
                                          enc_strs(specs), enc_strs(known))
    # ORACLE (B): an application that returns has EVERY string entry in force
    if got != "abort":
        for f in case["files"]:
            if f not in got[0] and (pre + f) not in got[2]:
                fails.append("apply_blacklist(%r) returned, the file entry %r is not in force" % (cfg, f))
        for c in case["commands"]:
            if c not in got[1] and (pre + c) not in got[2]:
                fails.append("apply_blacklist(%r) returned, the command entry %r is not in force" % (cfg, c))
        for c in case["components"]:
            if c in known and c not in got[2]:
                fails.append("apply_blacklist(%r) returned, the component %r is still enabled" % (cfg, c))
    return got, line, fails, exname


def run_apply_blacklist_malformed(chk, rng, names):
    """collect.apply_blacklist on deny lists as a user may write them: non-string items, None / number / bare string instead of a
    list, absent and unknown keys.  Compared with the model's sequential application (abort or final state)."""
    from harness.common import dec
    pre = "insights.specs.default.DefaultSpecs."
    cases, impl, lines = [], [], []
    fixed = [doc["case"] for _n, doc in load_corpus() if doc["case"].get("op") == "blseq"]
    for i in range(len(fixed) + (120 if chk.tier == "quick" else 2500)):
        if i < len(fixed):
            case = fixed[i]
            chk.count("corpus")
        else:
            base = {"files": [rng.choice(names) for _ in range(rng.randint(0, 3))],
                    "commands": [rng.choice(names) for _ in range(rng.randint(0, 3))],
                    "components": [rng.choice(names) for _ in range(rng.randint(0, 3))], "in_manifest": False}
            case = malform(rng, base)
            case["op"] = "blseq"
        got, line, fails, exname = run_blseq_case(case)
        if exname:
            chk.count("blseq:abort:" + exname)
        for desc in fails:
            chk.failure(desc, case)
        cases.append(case)
        impl.append(got)
        lines.append(line)
        chk.case(("blseq", json.dumps(case["malformed"], sort_keys=True)), nontrivial=True)
        chk.count("blseq:mode:" + case["mode"])
    model = run_driver("C06", lines)
    canon = []
    for m, i in zip(model, impl):
        if m == "abort":
            # the model aborts; an implementation that goes on instead is held to the oracle above (all valid entries in force)
            canon.append("abort" if i == "abort" else i)
            if i != "abort":
                chk.count("blseq:implementation-went-on")
            continue
        parts = m.split(" ")
        canon.append(tuple(sorted(set(dec(x) for x in f.split(","))) if f != "-" else [] for f in parts[1:4]) if parts[0] == "ok" and len(parts) == 4 else m)
    chk.compare("apply_blacklist(malformed deny lists)", cases, impl, canon)


_VICTIM_RAN = []
_VICTIM_REG = []


def c06_victim(broker):
    _VICTIM_RAN.append(1)
    return "x"



# --------------------------------------------------------------------------- the real entry point: collect.collect()

DEF_FILES = {"hosts": "etc/hosts", "fstab": "etc/fstab", "chrony_conf": "etc/chrony.conf", "os_release": "etc/os-release"}
DEF_CMDS = {"date": "/bin/date", "date_utc": "/bin/date --utc", "hostname_default": "/bin/hostname", "uptime": "/usr/bin/uptime"}
OWN_FILES = ["etc/own_a.conf", "etc/own_b.conf", "etc/own_c.conf", "opt/g1.conf", "opt/g2.conf", "var/e1.log", "var/e2.log"]


def collect_universe(n):
    """elements that a run of collect() may collect: id -> (component name, kind, path-or-command)"""
    reg, imp, dflt = "harness.c06.C06Reg%d" % n, "harness.c06.C06Impl%d" % n, "insights.specs.default.DefaultSpecs."
    u = {}
    for k, p in DEF_FILES.items():
        u["F:" + k] = (dflt + k, "insights.specs.Specs." + k, "file", "/" + p)
    for k, c in DEF_CMDS.items():
        u["C:" + k] = (dflt + k, "insights.specs.Specs." + k, "cmd", c)
    u["F:own_file"] = (imp + ".own_file", reg + ".own_file", "file", "/etc/own_a.conf")
    u["F:own_glob:g1"] = (imp + ".own_glob", reg + ".own_glob", "file", "/opt/g1.conf")
    u["F:own_glob:g2"] = (imp + ".own_glob", reg + ".own_glob", "file", "/opt/g2.conf")
    u["F:own_each:e1"] = (imp + ".own_each", reg + ".own_each", "file", "/var/e1.log")
    u["F:own_each:e2"] = (imp + ".own_each", reg + ".own_each", "file", "/var/e2.log")
    u["C:own_cmd"] = (imp + ".own_cmd", reg + ".own_cmd", "cmd", "/bin/echo own_cmd_marker")
    u["C:own_each_cmd:e1"] = (imp + ".own_each_cmd", reg + ".own_each_cmd", "cmd", "/bin/echo each e1.log")
    u["C:own_each_cmd:e2"] = (imp + ".own_each_cmd", reg + ".own_each_cmd", "cmd", "/bin/echo each e2.log")
    u["C:own_args"] = (imp + ".own_args", reg + ".own_args", "cmd", "/bin/echo args xyz")
    u["C:own_date"] = (imp + ".date", reg + ".date", "cmd", "/bin/echo own_date_marker")
    # first_file(["/etc/none", "/etc/own_b.conf", "/etc/own_c.conf"]): the first allowed existing one
    u["F:own_first:b"] = (imp + ".own_first", reg + ".own_first", "first", "/etc/own_b.conf")
    u["F:own_first:c"] = (imp + ".own_first", reg + ".own_first", "first", "/etc/own_c.conf")
    return u


def gen_collect_case(rng, n):
    u = collect_universe(n)
    comps_pool = sorted(set(v[0] for v in u.values())) + ["insights.no.such.component", "harness.c06.C06Impl%d.items" % n]
    sym = list(DEF_FILES) + list(DEF_CMDS) + ["not_a_spec_c06"]
    lit_f = ["/etc/hosts", "/etc/own_a.conf", "/opt/g1.conf", "/var/e2.log", "/etc/own_b.conf", "/etc/own", "/etc/os-release",
             "/etc/chrony.conf", "/opt", "/etc/own_c.conf", "etc/fstab"]
    lit_c = ["/bin/date", "/bin/date --utc", "/bin/echo own_cmd_marker", "/bin/echo each e1.log", "/bin/echo", "/bin/echo args",
             "/usr/bin/uptime", "/bin/hostname", "/bin/ech", "/bin/echo each"]
    def pick(pool, ks):
        return sorted(set(rng.choice(pool) for _ in range(rng.choice(ks))))
    mode = rng.choice(["components", "symbolic", "literal", "mixed", "mixed"])
    files, cmds, comps_ = [], [], []
    if mode in ("components", "mixed"):
        comps_ = pick(comps_pool, [1, 2, 3])
    if mode in ("symbolic", "mixed"):
        files += pick(sym, [1, 2])
        cmds += pick(sym, [0, 1, 2])
    if mode in ("literal", "mixed"):
        files += pick(lit_f, [1, 2, 3])
        cmds += pick(lit_c, [0, 1, 2])
    comps_ = list(comps_)
    if rng.random() < 0.4:
        # entries that SHARE A SHORT NAME: a registry point and its implementation, the same component twice, a symbolic name plus
        # another component with that last segment
        for _ in range(rng.choice([1, 1, 2])):
            eid = rng.choice(sorted(u))
            comp, point = u[eid][0], u[eid][1]
            how = rng.choice(["both", "both-rev", "twice", "point", "sym+own", "two-dates"])
            if how == "both":
                comps_ += [point, comp]
            elif how == "both-rev":
                comps_ += [comp, point]
            elif how == "twice":
                comps_ += [comp, comp]
            elif how == "point":
                comps_ += [point]
            elif how == "sym+own":
                files.append("date")
                comps_ += ["harness.c06.C06Impl%d.date" % n]
            else:
                comps_ += ["insights.specs.default.DefaultSpecs.date", "harness.c06.C06Impl%d.date" % n] if rng.random() < 0.5 else \
                          ["harness.c06.C06Reg%d.date" % n, "insights.specs.Specs.date", "harness.c06.C06Impl%d.date" % n]
    return {"op": "collect", "n": n, "files": sorted(set(files)), "commands": sorted(set(cmds)), "components": comps_,
            "in_manifest": rng.random() < 0.3, "manifest_form": rng.choice(["dict", "dict", "yaml", "file"])}


BAD_ITEMS = [5, None, 3.5, True, 0, -1]
ABSENT = "@absent"


def uniq(xs):
    return list(dict.fromkeys(xs))


def malform(rng, case):
    """the deny list AS THE USER WROTE IT, with a fault somewhere: returns the case with `malformed` (sections as written) and
    files/commands/components reduced to the VALID string entries it still contains"""
    mal = {"files": list(case["files"]), "commands": list(case["commands"]), "components": list(case["components"]), "extra": {}}
    mode = rng.choice(["item", "item", "item", "item-front", "none-value", "str-value", "num-value", "unknown-keys", "comp-items", "absent"])
    if mode in ("item", "item-front"):
        sec = rng.choice(["files", "files", "commands"])
        pos = 0 if mode == "item-front" else rng.randint(0, len(mal[sec]))
        mal[sec].insert(pos, rng.choice(BAD_ITEMS))
        if rng.random() < 0.3:
            mal[sec].insert(rng.randint(0, len(mal[sec])), rng.choice(BAD_ITEMS))
    elif mode == "none-value":
        mal[rng.choice(["files", "commands", "components"])] = None
    elif mode == "num-value":
        mal[rng.choice(["files", "commands", "components"])] = rng.choice([7, 0, 2.5, True])
    elif mode == "str-value":
        sec = rng.choice(["files", "commands", "components"])
        mal[sec] = rng.choice(["hosts", "/etc/hosts", "date", "ab"])
    elif mode == "unknown-keys":
        mal["extra"] = rng.choice([{"bogus": 5}, {"patterns": None, "keywords": "abc"}, {"file": ["/etc/hosts"], "Files": None},
                                   {"patterns": {"regex": ["x"]}, "keywords": [1, 2]}])
    elif mode == "comp-items":
        for _ in range(rng.randint(1, 2)):
            mal["components"].insert(rng.randint(0, len(mal["components"])), rng.choice(BAD_ITEMS))
    elif mode == "absent":
        mal[rng.choice(["files", "commands", "components"])] = ABSENT
    out = dict(case)
    out["malformed"] = mal
    out["mode"] = mode
    for sec in ("files", "commands", "components"):
        v = mal[sec]
        if isinstance(v, list):
            out[sec] = uniq([x for x in v if isinstance(x, str)])
        elif isinstance(v, str) and v != ABSENT:
            out[sec] = uniq(list(v))
        else:
            out[sec] = []
    return out


def sect_enc(v):
    """a section as written -> the driver's encoding"""
    if isinstance(v, str):
        return "~" if v == ABSENT else "s:" + enc(v)
    if isinstance(v, list):
        return "l:" + (";".join(enc(x) if isinstance(x, str) else "#" for x in v) if v else "_")
    return "!"


_SPECS_MADE = set()
_PROBE = {}


def watch_names(n):
    u = collect_universe(n)
    return sorted(set([v[0] for v in u.values()] + [v[1] for v in u.values()] + ["harness.c06.C06Impl%d.items" % n]))


def enabled_snapshot(n):
    """names (implementations, registry points) whose component is DISABLED right now"""
    out = []
    for name in watch_names(n):
        c = dr.get_component_by_name(name)
        if c is not None and not dr.is_enabled(c):
            out.append(name)
    return out


def _collect_specs(n):
    """a fresh SpecSet pair (registry points + implementations over the scratch root), reachable by name"""
    mod = sys.modules[__name__]
    reg_name, imp_name = "C06Reg%d" % n, "C06Impl%d" % n
    if n in _SPECS_MADE:                      # a history of collect() calls re-uses its SpecSet
        return getattr(mod, reg_name), getattr(mod, imp_name)
    _SPECS_MADE.add(n)
    pts = {"__module__": __name__}
    for k in ("own_file", "own_first", "own_cmd", "own_args", "date"):
        pts[k] = sf.RegistryPoint()
    for k in ("own_glob", "own_each", "own_each_cmd"):
        pts[k] = sf.RegistryPoint(multi_output=True)
    reg = sf.SpecSetMeta(reg_name, (sf.SpecSet,), pts)
    setattr(mod, reg_name, reg)

    def items(broker):
        return ["e1.log", "e2.log"]

    def argsrc(broker):
        return "xyz"
    def probe(broker):
        # the enabled flags AS THEY ARE WHILE DATASOURCES RUN
        _PROBE["snap"] = enabled_snapshot(n)
        return "probe"
    items = datasource(HostContext)(items)
    argsrc = datasource(HostContext)(argsrc)
    probe = datasource(HostContext)(probe)
    imp = sf.SpecSetMeta(imp_name, (reg,), {
        "__module__": __name__,
        "items": items, "argsrc": argsrc, "probe": probe,
        # a component that shares its LAST NAME SEGMENT with insights.specs.default.DefaultSpecs.date
        "date": sf.simple_command("/bin/echo own_date_marker"),
        "own_file": sf.simple_file("/etc/own_a.conf", context=HostContext),
        "own_glob": sf.glob_file("/opt/*.conf", context=HostContext),
        "own_first": sf.first_file(["/etc/none", "/etc/own_b.conf", "/etc/own_c.conf"], context=HostContext),
        "own_each": sf.foreach_collect(items, "/var/%s", context=HostContext),
        "own_cmd": sf.simple_command("/bin/echo own_cmd_marker"),
        "own_each_cmd": sf.foreach_execute(items, "/bin/echo each %s"),
        "own_args": sf.command_with_args("/bin/echo args %s", argsrc),
    })
    setattr(mod, imp_name, imp)
    return reg, imp


def run_collect_case(base, case, keep_state=False):
    """one real collect.collect() in a scratch directory; returns the observation dict.  keep_state: leave the process-wide
    state (deny sets, BLACKLISTED_SPECS, enabled flags) as collect() left it -- the next call of a history sees it"""
    from collections import defaultdict
    import insights.specs.default  # noqa: F401
    n = case["n"]
    u = collect_universe(n)
    work = os.path.join(base, "collect%d" % n)
    root = os.path.join(work, "root")
    tok = {}
    for i, rel in enumerate(sorted(set(list(DEF_FILES.values()) + OWN_FILES))):
        p = os.path.join(root, rel)
        os.makedirs(os.path.dirname(p), exist_ok=True)
        tok["/" + rel] = "CTK%03dX" % i
        with open(p, "w") as fh:
            fh.write("line one\nTOKEN %s\nlast\n" % tok["/" + rel])
    _collect_specs(n)
    reg, imp = "harness.c06.C06Reg%d" % n, "harness.c06.C06Impl%d" % n
    configs = [{"name": reg, "enabled": True}, {"name": imp, "enabled": True}]
    for k in list(DEF_FILES) + list(DEF_CMDS):
        configs.append({"name": "insights.specs.Specs." + k, "enabled": True})
        configs.append({"name": "insights.specs.default.DefaultSpecs." + k, "enabled": True})
    rm_conf = {"files": list(case["files"]), "commands": list(case["commands"]), "components": list(case["components"])}
    if case.get("malformed"):
        mal = case["malformed"]
        rm_conf = dict((k, mal[k]) for k in ("files", "commands", "components") if mal[k] != ABSENT)
        rm_conf.update(mal.get("extra") or {})
    bl = {"files": [], "commands": [], "patterns": [], "keywords": []}
    if case.get("in_manifest") and "files" in rm_conf:
        bl["files"] = rm_conf.pop("files")
    manifest = {"version": 0,
                "client": {"context": {"class": "insights.core.context.HostContext", "args": {"root": root, "timeout": 10}},
                           "blacklist": bl,
                           "persist": [{"name": reg, "enabled": True}, {"name": "insights.specs.Specs", "enabled": True}],
                           "run_strategy": {"name": "serial", "args": {"max_workers": None}}},
                "plugins": {"default_component_enabled": False, "packages": ["insights.specs.default"], "configs": configs}}
    # GLUE: the manifest as a dict, as YAML text, or as a YAML file (insights-collect -m <file>); load_manifest() takes all three
    form = case.get("manifest_form", "dict")
    if form in ("yaml", "file"):
        import yaml
        text = yaml.safe_dump(manifest)
        if form == "file":
            os.makedirs(work, exist_ok=True)
            mf = os.path.join(work, "manifest.yaml")
            with open(mf, "w") as fh:
                fh.write(text)
            manifest = mf
        else:
            manifest = text
    pre = "insights.specs.default.DefaultSpecs."
    names = sorted(set(case["files"] + case["commands"] + case["components"]))
    specs = [x for x in names if x.isidentifier() and dr.get_component_by_name(pre + x)]
    known = [x for x in names if dr.get_component_by_name(x)]
    saved = dict(dr.ENABLED)
    _AUD["base"] = work
    _AUD["events"] = []
    err = None
    _PROBE.pop("snap", None)
    disabled_seen = None
    audit(True)
    try:
        try:
            out, _errs = collect.collect(manifest=manifest, tmp_path=work, archive_name="arch", rm_conf=rm_conf, compress=False)
        except Exception as ex:
            out, err = os.path.join(work, "arch"), repr(ex)
        disabled_seen = _PROBE.pop("snap", None)
        if disabled_seen is None and err is None:
            disabled_seen = ["<the probe datasource did not run>"] + enabled_snapshot(n)
    finally:
        audit(False)
        if not keep_state:
            clear_deny()
            en = defaultdict(lambda: True)
            en.update(saved)
            dr.ENABLED = en
    events = list(_AUD["events"])
    opened = sorted(set("/" + e[1][len(root):].lstrip("/") for e in events if e[0] == "open" and e[1].startswith(root + "/")))
    execd = sorted(set(" ".join(e[1]) for e in events if e[0] == "popen"))
    persisted, meta = {}, {}
    data = os.path.join(out, "data")
    for f in walk_files(out):
        try:
            with open(f, "rb") as fh:
                persisted[f[len(out):]] = fh.read().decode("utf-8", "replace")
        except Exception:
            pass
    mdir = os.path.join(out, "meta_data")
    if os.path.isdir(mdir):
        for f in os.listdir(mdir):
            try:
                doc = json.load(open(os.path.join(mdir, f)))
            except Exception:
                continue
            res = doc.get("results") or []
            res = res if isinstance(res, list) else [res]
            meta[doc.get("name")] = [r["object"] for r in res]
    # which elements were collected (opened/executed AND present in the archive's data directory)
    got = {}
    for eid, (comp, point, kind, what) in u.items():
        objs = meta.get(point, [])
        if kind in ("file", "first"):
            rel = what.lstrip("/")
            in_meta = any(o.get("relative_path") == rel for o in objs)
            in_data = tok[what] in persisted.get("/data/" + rel, "")
            got[eid] = {"collected": in_meta and in_data, "touched": what in opened,
                        "leaked": any(tok[what] in c for c in persisted.values())}
        else:
            in_meta = any(o.get("cmd") == what for o in objs)
            ran = any(x == what or x.endswith(" " + what) for x in execd)
            marker = what[len("/bin/echo "):] if what.startswith("/bin/echo ") else None
            got[eid] = {"collected": in_meta, "touched": ran,
                        "leaked": bool(marker) and any(marker in c for f, c in persisted.items() if f.startswith("/data/"))}
    data_files = sorted(f for f in persisted if f.startswith(("/data/", "/meta_data/")))
    shutil.rmtree(work, ignore_errors=True)
    return {"got": got, "specs": specs, "known": known, "error": err, "opened": opened, "execd": execd, "data_files": data_files,
            "disabled": disabled_seen}


def collect_child():
    """runs in a child interpreter (clean registries): cases on stdin, observations on stdout"""
    import logging
    logging.disable(logging.CRITICAL)
    req = json.load(sys.stdin)
    base = os.path.realpath(tempfile.mkdtemp(prefix="c06c_"))
    out = []
    try:
        for case in req["cases"]:
            if case.get("op") == "collect-hist":
                # HISTORY: several collect() calls in this ONE interpreter, nothing reset in between except what collect() resets
                from collections import defaultdict
                saved = dict(dr.ENABLED)
                calls = []
                try:
                    for c in case["calls"]:
                        calls.append(run_collect_case(base, c, keep_state=True))
                finally:
                    clear_deny()
                    en = defaultdict(lambda: True)
                    en.update(saved)
                    dr.ENABLED = en
                out.append({"calls": calls})
            else:
                out.append(run_collect_case(base, case))
    finally:
        audit(False)
        shutil.rmtree(base, ignore_errors=True)
    sys.stdout.write("\n@@C06" + json.dumps(out) + "\n")


def run_collect_cases(cases):
    import subprocess
    from harness.common import REPO
    prog = ("import sys; sys.path[:0] = [%r, %r]; sys.dont_write_bytecode = True; import harness.c06 as m; m.collect_child()"
            % (VERIF, REPO))
    p = subprocess.run(["/venv/bin/python", "-c", prog], input=json.dumps({"cases": cases}).encode(), stdout=subprocess.PIPE,
                       stderr=subprocess.PIPE, cwd=VERIF, timeout=1500)
    for l in p.stdout.decode("utf-8", "replace").split("\n"):
        if l.startswith("@@C06"):
            return json.loads(l[5:])
    raise RuntimeError("collect child failed: rc=%s\n%s" % (p.returncode, p.stderr.decode("utf-8", "replace")[-3000:]))


def collect_expect(case, obs, bl_model, allow_model, baseline):
    """what the MODEL predicts is collected: not disabled by applyBlacklist, and allowed by the deny sets it produced"""
    u = collect_universe(case["n"])
    disabled = set(bl_model[2])
    exp = {}
    first_done = False
    for eid in sorted(u):
        comp, point, kind, what = u[eid]
        ok = comp not in disabled and point not in disabled and allow_model[eid]
        if comp.endswith((".own_each", ".own_each_cmd")) and ("harness.c06.C06Impl%d.items" % case["n"]) in disabled:
            ok = False
        if kind == "first":
            ok = ok and not first_done
            first_done = first_done or ok
        exp[eid] = ok and baseline.get(eid, False) if kind != "first" else ok
    return exp


def collect_oracle(case, obs):
    """ORACLE (B) through the real entry point: nothing the user denied is opened / executed / persisted"""
    u = collect_universe(case["n"])
    pre = "insights.specs.default.DefaultSpecs."
    fails = []
    for eid, (comp, point, kind, what) in u.items():
        g = obs["got"][eid]
        short = comp[len(pre):] if comp.startswith(pre) else None
        why = None
        if point in case["components"] and comp not in case["components"] and g["collected"]:
            fails.append("collect(): registry point %s is listed under components, yet its content was persisted" % point)
        if comp in case["components"]:
            why = "component %s is listed under components" % comp
        elif short and (short in case["files"] or short in case["commands"]):
            why = "the spec's symbolic name %r is listed" % short
        elif kind in ("file", "first") and oracle_denied(what, case["files"]):
            why = "file %r matches the deny list %r" % (what, case["files"])
        elif kind == "cmd" and oracle_denied(what, case["commands"]):
            why = "command %r matches the deny list %r" % (what, case["commands"])
        if why and (g["collected"] or g["touched"] or g["leaked"]):
            fails.append("collect(): %s, yet it was %s" % (why, "/".join(k for k in ("touched", "collected", "leaked") if g[k])
                                                           .replace("touched", "opened" if kind != "cmd" else "executed")
                                                           .replace("leaked", "found in the archive").replace("collected", "persisted")))
    return fails


def collect_abort_oracle(case, o):
    """ORACLE (B), fail-closed: a collect() that raised on the deny list has run no datasource at all"""
    if not o["error"]:
        return []
    ran = sorted(k for k, v in o["got"].items() if v["touched"] or v["collected"] or v["leaked"])
    if ran or o["opened"] or o["execd"] or o.get("data_files"):
        return ["collect() raised %s on the deny list %r, yet datasources had run: %r opened %r executed %r persisted %r"
                % (o["error"], case.get("malformed"), ran, o["opened"], o["execd"], o.get("data_files"))]
    return []


def collect_flag_oracle(case, o):
    """ORACLE (B): every component the deny list names -- under components, or by symbolic name under files / commands -- is
    DISABLED while the datasources run (in every collection of a process, however often or under whatever short name it was named)"""
    if o["error"] or o.get("disabled") is None:
        return []
    pre = "insights.specs.default.DefaultSpecs."
    watch = set(watch_names(case["n"]))
    named = [c for c in case["components"] if c in watch]
    named += [pre + x for x in case["files"] + case["commands"] if (pre + x) in watch and x.isidentifier()]
    left = sorted(set(named) - set(o["disabled"]))
    if left:
        return ["collect(): the deny list names %r, yet %r %s enabled while the datasources ran" % (sorted(set(named)), left,
                                                                                                   "was" if len(left) == 1 else "were")]
    return []


def run_driver_cached_bl(c, f3):
    """does this call's own list contain every literal entry that is in force (i.e. nothing an EARLIER call left is missing)?"""
    return set(f3[0]) <= set(c["files"]) and set(f3[1]) <= set(c["commands"])


def gen_history(rng, n):
    kind = rng.choice(["same", "same", "different", "late", "late", "mixed"])
    first = gen_collect_case(rng, n)
    empty = dict(first, files=[], commands=[], components=[])
    if kind == "same":
        calls = [first] + [dict(first) for _ in range(rng.choice([1, 2]))]
    elif kind == "different":
        calls = [first, gen_collect_case(rng, n)] + ([gen_collect_case(rng, n)] if rng.random() < 0.4 else [])
    elif kind == "late":
        calls = [empty, first] + ([dict(first)] if rng.random() < 0.4 else [])
    else:
        calls = [first, empty, dict(first)]
    for c in calls:
        c["in_manifest"] = False
    return {"op": "collect-hist", "n": n, "kind": kind, "calls": calls}


def run_collect_history_stream(chk, rng, n_hist, n0=5000):
    """HISTORIES of 2-3 collect() calls in ONE interpreter (same deny list, a different one, the deny list only on a later call).
    In every collection: oracle on what was opened / executed / persisted and on the enabled flags; the outcome against the model
    (disabled = a function of THIS call's deny list alone; literal deny sets accumulate, they are never reset) and, where no earlier
    literal entry is missing from the current list, against the same collect() run on its own."""
    from harness.common import dec
    hists = [doc["case"] for _n, doc in load_corpus() if doc["case"].get("op") == "collect-hist"]
    hists += [gen_history(rng, n0 + i) for i in range(n_hist)]
    alone = [c for h in hists for c in h["calls"]]
    cases = [{"op": "collect", "n": 0, "files": [], "commands": [], "components": [], "in_manifest": False}] + hists + alone
    obs = run_collect_cases(cases)
    if not isinstance(obs, list) or len(obs) != len(cases) or any("calls" not in o or len(o["calls"]) != len(h["calls"])
                                                                  for h, o in zip(hists, obs[1:1 + len(hists)])):
        chk.tie_broken("collect-child", "the child interpreter did not return one observation per call of every history", cases[0])
        return
    baseline = dict((k, v["collected"]) for k, v in obs[0]["got"].items())
    alone_obs = obs[1 + len(hists):]
    flat = [(hi, ki, c, o) for hi, (h, ho) in enumerate(zip(hists, obs[1:1 + len(hists)]))
            for ki, (c, o) in enumerate(zip(h["calls"], ho["calls"]))]
    # the model's process state after each collect() of the history (collectStep: flags reset, module-level deny sets kept)
    hlines = []
    for h, ho in zip(hists, obs[1:1 + len(hists)]):
        specs = uniq(x for o in ho["calls"] for x in o["specs"])
        known = uniq(x for o in ho["calls"] for x in o["known"])
        hlines.append("\t".join(["hist", enc_strs(specs), enc_strs(known)] +
                                [enc_strs(c[k]) for c in h["calls"] for k in ("files", "commands", "components")]))
    accs = []
    for h, m in zip(hists, run_driver("C06", hlines)):
        states = m.split("|")
        if len(states) != len(h["calls"]):
            chk.tie_broken("hist-driver", "the driver answered %r for a history of %d calls" % (m, len(h["calls"])), h)
            return
        for c, st in zip(h["calls"], states):
            f3 = [sorted(set(dec(x) for x in f.split(","))) if f != "-" else [] for f in st.split(" ")]
            own = run_driver_cached_bl(c, f3)
            accs.append((f3[0], f3[1], f3[2], own))
    lines, idx = [], []
    for fi, (hi, ki, c, o) in enumerate(flat):
        u = collect_universe(c["n"])
        for eid in sorted(u):
            d = accs[fi][0] if u[eid][2] in ("file", "first") else accs[fi][1]
            lines.append("deny\t%s\t%s" % (enc(u[eid][3]), enc_strs(d)))
            idx.append((fi, eid))
    allow = [dict() for _ in flat]
    for (fi, eid), m in zip(idx, run_driver("C06", lines)):
        allow[fi][eid] = m == "1"
    c_cases, impl, model = [], [], []
    for fi, (hi, ki, c, o) in enumerate(flat):
        hcase = dict(hists[hi], upto=ki)
        watch = set(watch_names(c["n"]))
        exp = collect_expect(c, o, accs[fi], allow[fi], baseline)
        got = "raised" if o["error"] else (sorted(k for k, v in o["got"].items() if v["collected"]), sorted(o.get("disabled") or []))
        want = (sorted(k for k, v in exp.items() if v), sorted(set(accs[fi][2]) & watch))
        if not accs[fi][3] and not o["error"]:
            # literal entries of an EARLIER call that this call's list lacks: whether they still bind is a lifetime question the
            # property does not decide (today they do); only the flags are compared, the oracle holds this call's own list
            want = (got[0], want[1])
            chk.count("collect-hist:earlier-literals-not-in-this-list")
        for desc in collect_oracle(c, o) + collect_flag_oracle(c, o):
            chk.failure("call %d of a history of %d collect() calls in one process (%s): %s" % (ki + 1, len(hists[hi]["calls"]),
                                                                                               hists[hi].get("kind"), desc), hcase)
        a = alone_obs[fi]
        for desc in collect_oracle(c, a) + collect_flag_oracle(c, a):
            chk.failure("the deny list of call %d of a history, given to collect() once more later in the same process: %s"
                        % (ki + 1, desc), hcase)
        if accs[fi][3] and not o["error"] and not a["error"]:
            ga = (sorted(k for k, v in a["got"].items() if v["collected"]), sorted(a.get("disabled") or []))
            if ga != got:
                chk.failure("call %d of a history (%s) collected %r with %r disabled; the same collect() on its own collects %r with %r disabled"
                            % (ki + 1, hists[hi].get("kind"), got[0], got[1], ga[0], ga[1]), hcase)
            chk.count("collect-hist:compared-with-alone")
        c_cases.append(hcase)
        impl.append(got)
        model.append(want)
        chk.case(("collect-hist", hists[hi].get("kind"), ki, tuple(c["files"]), tuple(c["commands"]), tuple(c["components"])),
                 nontrivial=ki > 0)
        chk.count("collect-hist:%s:call%d" % (hists[hi].get("kind"), ki + 1))
    chk.compare("collect() histories in one process(collected elements, disabled flags)", c_cases, impl, model)


def run_collect_stream(chk, rng, n_cases):
    from harness.common import dec
    cases = [{"op": "collect", "n": 0, "files": [], "commands": [], "components": [], "in_manifest": False}]
    cases += [gen_collect_case(rng, i + 1) for i in range(n_cases)]
    n_mal = max(16, n_cases)
    cases += [malform(rng, gen_collect_case(rng, n_cases + 1 + i)) for i in range(n_mal)]
    cases += [doc["case"] for _n, doc in load_corpus() if doc["case"].get("op") == "collect"]
    obs = run_collect_cases(cases)
    if not isinstance(obs, list) or len(obs) != len(cases):
        chk.tie_broken("collect-child", "the child interpreter returned %r observations for %d cases" % (
            len(obs) if isinstance(obs, list) else type(obs).__name__, len(cases)), cases[0])
        return
    baseline = dict((k, v["collected"]) for k, v in obs[0]["got"].items())
    chk.extra["collect_baseline"] = sorted(k for k, v in baseline.items() if v)
    want_base = set(k for k in baseline if not k.startswith("F:own_first:c"))
    if obs[0]["error"] or len([k for k in want_base if baseline[k]]) < len(want_base) - 3:
        chk.tie_broken("collect-baseline", "collect() with an empty deny list collected only %r (%s)"
                       % (chk.extra["collect_baseline"], obs[0]["error"]), cases[0])
    lines = []
    for case, o in zip(cases, obs):
        u = collect_universe(case["n"])
        lines.append("bl\t%s\t%s\t%s\t%s\t%s" % (enc_strs(case["files"]), enc_strs(case["commands"]), enc_strs(case["components"]),
                                                 enc_strs(o["specs"]), enc_strs(o["known"])))
    bl_out = run_driver("C06", lines)
    bls = []
    for m in bl_out:
        a, b, c = m.split(" ")
        bls.append(tuple(sorted(set(dec(x) for x in f.split(","))) if f != "-" else [] for f in (a, b, c)))
    lines, idx = [], []
    for ci, case in enumerate(cases):
        u = collect_universe(case["n"])
        for eid in sorted(u):
            kind, what = u[eid][2], u[eid][3]
            d = bls[ci][0] if kind in ("file", "first") else bls[ci][1]
            lines.append("deny\t%s\t%s" % (enc(what), enc_strs(d)))
            idx.append((ci, eid))
    al = run_driver("C06", lines)
    allow = [dict() for _ in cases]
    for (ci, eid), m in zip(idx, al):
        allow[ci][eid] = m == "1"
    # the deny list as written, applied sequentially by the model: does the application abort?
    mal_idx = [ci for ci, c in enumerate(cases) if c.get("malformed")]
    strict = run_driver("C06", ["blseq\t%s\t%s\t%s\t%s\t%s" % (
        sect_enc(cases[ci]["malformed"]["files"]), sect_enc(cases[ci]["malformed"]["commands"]),
        sect_enc(cases[ci]["malformed"]["components"]), enc_strs(obs[ci]["specs"]), enc_strs(obs[ci]["known"])) for ci in mal_idx])
    aborts = dict((ci, m == "abort") for ci, m in zip(mal_idx, strict))
    impl, model = [], []
    for ci, (case, o) in enumerate(zip(cases, obs)):
        exp = collect_expect(case, o, bls[ci], allow[ci], baseline)
        got_list = sorted(k for k, v in o["got"].items() if v["collected"])
        want_list = sorted(k for k, v in exp.items() if v)
        if case.get("malformed"):
            chk.count("collect:malformed:%s:%s" % (case["mode"], "aborted" if o["error"] else "ran"))
            # ORACLE (B), fail-closed: an aborted collect() has run no datasource at all ...
            for desc in collect_abort_oracle(case, o):
                chk.failure(desc, case)
            # ... and one that goes on has EVERY valid entry in force (collect_oracle below, on the valid entries)
            # correspondence: abort is compared as such; where the implementation goes on, what it collected is held to
            # the model with all valid entries applied
            if o["error"] and aborts.get(ci):
                got_list, want_list = "abort", "abort"
            elif o["error"]:
                got_list = "abort"
        elif o["error"]:
            got_list = "raised"
        if isinstance(got_list, list):
            # the enabled flags while the datasources ran, against the model's `disabled` (every named component, registry point or
            # implementation, first or repeated mention, whatever its short name)
            watch = set(watch_names(case["n"]))
            got_list = (got_list, sorted(o.get("disabled") or []))
            want_list = (want_list, sorted(set(bls[ci][2]) & watch))
            for desc in collect_flag_oracle(case, o):
                chk.failure(desc, case)
        impl.append(got_list)
        model.append(want_list)
        for desc in collect_oracle(case, o):
            chk.failure(desc, case)
        if o["error"]:
            chk.count("collect:error")
        chk.case(("collect", tuple(case["files"]), tuple(case["commands"]), tuple(case["components"])),
                 nontrivial=impl[-1] != impl[0])
        if isinstance(impl[-1], list) and isinstance(impl[0], list):
            chk.count("collect:denied-elements:%d" % min(5, len(impl[0]) - len(impl[-1])))
    chk.compare("collect()(collected elements)", cases, impl, model)
    chk.sample({"collect": {k: cases[1][k] for k in ("files", "commands", "components")}, "collected": impl[1]})



# --------------------------------------------------------------------------- loading a serialized archive again (hydrate)

H_KINDS = ["TextFileProvider", "CommandOutputProvider", "DatasourceProvider", "RawFileProvider", "ContainerFileProvider",
           "ContainerCommandProvider"]
H_ROUTES = ["inside", "inside", "inside-dotdot", "inside-link", "inside-dirlink", "leaf-link-out-rel", "leaf-link-out-abs",
            "dirlink-out-rel", "dirlink-out-abs", "dotdot-out", "dotdot-out-deep", "dotdot-after-dirlink", "chain-out",
            "between-meta", "between-data2", "prefix-sibling-arch", "abs-recorded", "missing", "dotdot-in-and-back"]
H_OUTSIDE = ("leaf-link-out-rel", "leaf-link-out-abs", "dirlink-out-rel", "dirlink-out-abs", "dotdot-out", "dotdot-out-deep",
             "dotdot-after-dirlink", "chain-out", "prefix-sibling-arch")
_HREG = []


def hydrate_registry():
    """registry points the meta_data documents name (sp* single, mp* multi_output); created once per process"""
    if not _HREG:
        pts = {"__module__": __name__}
        for i in range(12):
            pts["sp%d" % i] = sf.RegistryPoint()
        for i in range(4):
            pts["mp%d" % i] = sf.RegistryPoint(multi_output=True)
        reg = sf.SpecSetMeta("C06HReg", (sf.SpecSet,), pts)
        setattr(sys.modules[__name__], "C06HReg", reg)
        _HREG.append(reg)
    return _HREG[0]


def h_elem(route, i, arch):
    """(recorded relative_path, nodes to create relative to the scratch base, token-bearing file or None)
    layout: <base>/<arch>/{insights_archive.txt, meta_data/, data/, data2/}, <base>/outside/, <base>/<arch>2/"""
    d = arch + "/data"
    tok = "HTK%03dX" % i
    sub_ = ["insights_commands", "etc", "insights_containers/c0ffee/etc", "var/log"][i % 4]
    if route == "inside":
        return sub_ + "/f%d" % i, [["f", d + "/" + sub_ + "/f%d" % i, tok]], tok
    if route == "inside-dotdot":
        return "x%d/../%s/f%d" % (i, sub_, i), [["d", d + "/x%d" % i], ["f", d + "/" + sub_ + "/f%d" % i, tok]], tok
    if route == "inside-link":
        return "l%d" % i, [["f", d + "/" + sub_ + "/f%d" % i, tok], ["l", d + "/l%d" % i, sub_ + "/f%d" % i]], tok
    if route == "inside-dirlink":
        return "dl%d/f%d" % (i, i), [["f", d + "/" + sub_ + "/f%d" % i, tok], ["l", d + "/dl%d" % i, sub_]], tok
    if route == "dotdot-in-and-back":
        return "../data/%s/f%d" % (sub_, i), [["f", d + "/" + sub_ + "/f%d" % i, tok]], tok
    o = "outside/s%d" % i
    if route == "leaf-link-out-rel":
        return "etc/l%d" % i, [["f", o, tok], ["l", d + "/etc/l%d" % i, "../../../" + o]], tok
    if route == "leaf-link-out-abs":
        return "l%d" % i, [["f", o, tok], ["l", d + "/l%d" % i, "$B/" + o]], tok
    if route == "dirlink-out-rel":
        return "dl%d/s%d" % (i, i), [["f", o, tok], ["l", d + "/dl%d" % i, "../../outside"]], tok
    if route == "dirlink-out-abs":
        return "dl%d/s%d" % (i, i), [["f", o, tok], ["l", d + "/dl%d" % i, "$B/outside"]], tok
    if route == "dotdot-out":
        return "../../" + o, [["f", o, tok]], tok
    if route == "dotdot-out-deep":
        return "etc/sub/../../../../" + o, [["d", d + "/etc/sub"], ["f", o, tok]], tok
    if route == "dotdot-after-dirlink":
        return "dl%d/../s%d" % (i, i), [["f", o, tok], ["d", "outside/sub%d" % i], ["l", d + "/dl%d" % i, "../../outside/sub%d" % i]], tok
    if route == "chain-out":
        return "c%d" % i, [["f", o, tok], ["l", d + "/hop%d" % i, "$B/" + o], ["l", d + "/c%d" % i, "hop%d" % i]], tok
    if route == "between-meta":
        return "../marker%d.txt" % i, [["f", arch + "/marker%d.txt" % i, tok]], tok
    if route == "between-data2":
        return "../data2/f%d" % i, [["f", arch + "/data2/f%d" % i, tok]], tok
    if route == "prefix-sibling-arch":
        return "../../%s2/data/f%d" % (arch, i), [["f", arch + "2/data/f%d" % i, tok]], tok
    if route == "abs-recorded":
        return "/$b/" + o, [["f", o, tok]], tok
    return "nope/none%d" % i, [], None


def gen_hydrate_case(rng):
    arch = rng.choice(["arch", "arch", "a.d", "ins ights"])
    specs = [{"pt": "sp0", "kind": rng.choice(H_KINDS), "elems": [{"route": "inside", "i": 0}]}]
    kinds = list(H_KINDS)
    rng.shuffle(kinds)
    n = rng.randint(5, 9)
    i = 1
    for k in range(n):
        route = rng.choice(H_ROUTES)
        specs.append({"pt": "sp%d" % (k + 1), "kind": kinds[k % 6], "elems": [{"route": route, "i": i}]})
        i += 1
    for m in range(rng.randint(0, 3)):
        elems = []
        for _ in range(rng.randint(1, 3)):
            elems.append({"route": rng.choice(H_ROUTES + ["inside", "inside"]), "i": i})
            i += 1
        specs.append({"pt": "mp%d" % m, "kind": rng.choice(H_KINDS), "elems": elems})
    return {"op": "hydrate", "arch": arch, "specs": specs, "entry": rng.choice(["initialize_broker", "initialize_broker", "Hydration"]),
            "rootvia": rng.choice(["plain", "plain", "link", "slash"])}


def h_object(kind, rel):
    o = {"relative_path": rel, "save_as": False, "rc": None}
    if kind in ("CommandOutputProvider", "ContainerCommandProvider"):
        o.update({"cmd": "/bin/true x", "args": None})
    if kind.startswith("Container"):
        o.update({"image": "img", "engine": "podman", "container_id": "c0ffee"})
    if kind == "DatasourceProvider":
        o = {"relative_path": rel, "save_as": None}
    return o


def run_hydrate(base, case):
    """build the archive, load it through the real entry point; returns (impl answers per spec, model lines, index, failures)"""
    from insights.core.hydration import initialize_broker
    reg = hydrate_registry()
    fails = []
    arch = case["arch"]
    top = os.path.join(base, arch)
    os.makedirs(os.path.join(top, "meta_data"))
    os.makedirs(os.path.join(top, "data"))
    with open(os.path.join(top, "insights_archive.txt"), "w") as fh:
        fh.write("")
    os.symlink(arch, os.path.join(base, "archlink"))
    tokloc, per_spec = {}, []
    for sp in case["specs"]:
        objs, rels = [], []
        for e in sp["elems"]:
            rel, nodes, tok = h_elem(e["route"], e["i"], arch)
            rel = sub(rel, base)
            build_layout(base, {"nodes": nodes})
            for nd in nodes:
                if nd[0] == "f":
                    tokloc[nd[2]] = kloc(os.path.join(base, nd[1]))
            objs.append({"type": "insights.core.spec_factory." + sp["kind"], "object": h_object(sp["kind"], rel)})
            rels.append(rel)
        name = "%s.C06HReg.%s" % (__name__, sp["pt"])
        doc = {"name": name, "exec_time": 0.01, "ser_time": 0.01, "errors": [],
               "results": objs if sp["pt"].startswith("mp") else objs[0]}
        with open(os.path.join(top, "meta_data", name + ".json"), "w") as fh:
            json.dump(doc, fh)
        per_spec.append((sp, rels))
    given = {"plain": top, "link": os.path.join(base, "archlink"), "slash": top + "/"}[case["rootvia"]]
    audit(False)
    err = None
    try:
        if case["entry"] == "initialize_broker":
            ctx, broker = initialize_broker(given)
        else:
            ctx = SerializedArchiveContext(root=given)
            broker = serde.Hydration(root=given, ctx=ctx).hydrate()
    except Exception as ex:
        err = repr(ex)
        ctx, broker = None, dr.Broker()
    ctxroot = ctx.root if ctx is not None else given
    rootloc = kloc(ctxroot)
    data_root = os.path.join(ctxroot, "data")
    impl, lines, idx = [], [], []
    for si, (sp, rels) in enumerate(per_spec):
        comp = getattr(reg, sp["pt"])
        val = broker.get(comp) if comp in broker else None
        provs = val if isinstance(val, list) else ([val] if val is not None else [])
        parts = []
        for p in provs:
            try:
                content = p.content
            except Exception:
                content = None
            parts.append(p.path)
            # ORACLE (A): nothing from outside the context root, whatever the route
            loc = kloc(p.path)
            if rootloc is not None and loc is not None and not inside(loc, rootloc):
                fails.append("hydrate: %s for %s resolves to %r, outside the archive root %r (relative_path %r)"
                             % (type(p).__name__, sp["kind"], loc, rootloc, p.relative_path))
            for t in set(tokens_in(content)):
                tl = tokloc.get(t)
                if tl is not None and rootloc is not None and not inside(tl, rootloc):
                    fails.append("hydrate: %s for %s yielded the content of %r, outside the archive root %r (relative_path %r)"
                                 % (type(p).__name__, sp["kind"], tl, rootloc, p.relative_path))
        impl.append("ok|" + "|".join(parts) if provs else "dropped")
        for rel in rels:
            path = os.path.join(data_root, rel.lstrip("/"))
            resolved = kloc(path)
            lines.append("\t".join(["mkfile", "0", enc(data_root), enc(rel), "1" if resolved is not None else "0",
                                    enc(kloc(data_root) or ""), enc(resolved or ""), "1" if os.access(path, os.R_OK) else "0", "_"]))
            idx.append(si)
    return impl, lines, idx, fails, err


def run_hydrate_stream(chk, rng, base, n_cases):
    cases = [{"op": "hydrate", "arch": "arch", "entry": "initialize_broker", "rootvia": "plain",
              "specs": [{"pt": "sp0", "kind": "TextFileProvider", "elems": [{"route": "inside", "i": 0}]}] +
                       [{"pt": "sp%d" % (j + 1), "kind": H_KINDS[j % 6], "elems": [{"route": r, "i": j + 1}]}
                        for j, r in enumerate(["leaf-link-out-rel", "dirlink-out-rel", "dotdot-out", "dotdot-after-dirlink",
                                               "leaf-link-out-abs", "prefix-sibling-arch", "dotdot-out-deep", "chain-out"])]}]
    cases += [gen_hydrate_case(rng) for _ in range(n_cases)]
    all_lines, spans, impls, flat_cases = [], [], [], []
    for case in cases:
        wipe_layout(base)
        impl, lines, idx, fails, err = run_hydrate(base, case)
        for desc in fails:
            chk.failure(desc, case)
        if err:
            chk.count("hydrate:entry-error")
        spans.append((len(all_lines), idx))
        all_lines += lines
        impls.append(impl)
        for sp in case["specs"]:
            for e in sp["elems"]:
                chk.count("hydrate-route:" + e["route"])
            chk.count("hydrate-kind:" + sp["kind"])
    wipe_layout(base)
    model = run_driver("C06", all_lines)
    impl_flat, model_flat = [], []
    for case, impl, (start, idx) in zip(cases, impls, spans):
        per = {}
        for j, si in enumerate(idx):
            per.setdefault(si, []).append(canon_mkfile(model[start + j]))
        for si, sp in enumerate(case["specs"]):
            ms = per.get(si, [])
            m = ("ok|" + "|".join(x[3:] for x in ms)) if ms and all(x.startswith("ok ") for x in ms) else "dropped"
            impl_flat.append(impl[si])
            model_flat.append(m)
            flat_cases.append(dict(case, spec=sp["pt"]))
            routes = tuple(e["route"] for e in sp["elems"])
            chk.case(("hydrate", sp["kind"], routes, impl[si].split("|")[0], case["entry"], case["rootvia"]), nontrivial=True)
            chk.count("hydrate:" + impl[si].split("|")[0])
            if sp["pt"] == "sp0" and impl[si] == "dropped":
                chk.tie_broken("hydrate-control", "the control spec (a plain file inside data/) was not loaded", case)
    chk.compare("hydrate(Serialized* providers per spec)", flat_cases, impl_flat, model_flat)
    chk.sample({"hydrate": {"entry": cases[1]["entry"], "specs": [(sp["kind"], [e["route"] for e in sp["elems"]]) for sp in cases[1]["specs"]]},
                "loaded": [x.split("|")[0] for x in impls[1]]})


# --------------------------------------------------------------------------- replay

# --------------------------------------------------------------------------- every path through validate() (round 10)

V_KINDS = ["simple_file", "glob_file", "first_file", "foreach_collect", "simple_command", "command_with_args", "foreach_execute",
           "container_execute", "container_collect"]
V_FILES = ["/etc/vp/va.conf", "/etc/vp/vb.conf", "/etc/vp/vc.conf"]
_V_N = [0]


def v_candidates(kind, case=None):
    """what the datasource of this kind is asked to open / execute: [(identity, deny key)]"""
    echo = "echo" if (case or {}).get("cmdform") == "rel" else "/bin/echo"
    if (case or {}).get("src") == "scalar" and kind in ("foreach_collect", "foreach_execute", "container_execute", "container_collect"):
        return v_candidates(kind, dict(case, src="list"))[:1]
    if kind in ("simple_file",):
        return [("o:" + V_FILES[0], V_FILES[0])]
    if kind in ("glob_file", "first_file", "foreach_collect"):
        return [("o:" + f, f) for f in V_FILES]
    if kind in ("simple_command", "command_with_args"):
        return [("x:%s va" % echo, "%s va" % echo)]
    if kind == "foreach_execute":
        return [("x:%s %s" % (echo, a), "%s %s" % (echo, a)) for a in ("va", "vb", "vc")]
    if kind == "container_execute":
        return [("x:" + c, c) for c in ("/usr/bin/env exec cid_%s ls -l /x" % a for a in "abc")]
    if kind == "container_collect":
        return [("x:" + c, c) for c in ("/usr/bin/env exec cid_%s cat /etc/vp/v%s.conf" % (a, a) for a in "abc")]
    raise ValueError(kind)


def gen_vpath_case(rng, kind, filterable, addf, denied):
    cmdform = rng.choice(["abs", "abs", "rel"])
    src = rng.choice(["list", "list", "provider", "set", "scalar"])
    cands = [c[0][2:] for c in v_candidates(kind, {"cmdform": cmdform, "src": src})]
    pool_hit = list(cands)
    if kind not in FILE_KINDS:
        for c in cands:
            parts = c.split(" ")
            pool_hit += [" ".join(parts[:i]) for i in range(1, len(parts))]
    pool_miss = [c[:-1] for c in cands] + [c + "x" for c in cands] + ["/etc/vp", "/etc/vp/", "/bin/ech", "/usr/bin/env exec cid", " " + cands[0],
                                                                      cands[0] + " ", "/etc/vp/va.conf extra"]
    deny = set()
    if denied:
        deny.update(rng.choice(pool_hit) for _ in range(rng.choice([1, 1, 2, 3])))
        if rng.random() < 0.2:
            deny.update(cands)
    deny.update(rng.choice(pool_miss) for _ in range(rng.choice([0, 1, 2])))
    decl = rng.choice(["point", "point", "direct"])
    case = {"op": "vpath", "kind": kind, "filterable": filterable, "addf": bool(addf and filterable), "deny": sorted(deny),
            "decl": decl, "ctx": "host" if rng.random() < 0.9 else "archive",
            "enabled": not (filterable and rng.random() < 0.12),
            "no_redact": rng.random() < 0.3, "no_obf": rng.choice([None, None, ["ipv4"], ["hostname", "ipv4", "ipv6", "mac"]]),
            "raw": kind in FILE_KINDS and not filterable and rng.random() < 0.2,
            "first_order": rng.sample(range(3), 3), "npat": rng.choice([1, 1, 2]),
            "hist": rng.choice(["once", "once", "late-deny", "twice"]), "src": src,
            "cmdform": cmdform, "fshape": [rng.choice(["reg", "reg", "link", "empty", "hard"]) for _ in range(3)],
            "keep_rc": rng.random() < 0.25, "env": rng.random() < 0.25}
    case["split"] = not (kind in ("simple_command", "command_with_args", "foreach_execute") and not case["addf"]
                         and not filterable and rng.random() < 0.2)
    return case


def v_build(case, ctxcls):
    k = case["kind"]
    _V_N[0] += 1
    n = _V_N[0]
    kw = {}
    if case["decl"] == "direct":
        kw = {"filterable": case["filterable"], "no_redact": case["no_redact"]}
        if case["no_obf"] is not None:
            kw["no_obfuscate"] = list(case["no_obf"])
    fk = sf.RawFileProvider if case.get("raw") else sf.TextFileProvider
    items_ds, items_val = None, None
    echo = "echo" if case.get("cmdform") == "rel" else "/bin/echo"
    ckw = dict(kw)
    if case.get("keep_rc"):
        ckw["keep_rc"] = True
    if case.get("env"):
        ckw["override_env"] = {"LC_ALL": "C"}
        ckw["inherit_env"] = ["HOME"]
    if case.get("split") is False:
        ckw["split"] = False

    def items(broker):
        return None
    items.__name__ = "vitems%d" % n
    if k == "simple_file":
        ds = sf.simple_file(V_FILES[0], context=ctxcls, kind=fk, **kw)
    elif k == "glob_file":
        pats = ["/etc/vp/v*.conf"] if case["npat"] == 1 else ["/etc/vp/va*", "/etc/vp/v[bc].conf"]
        ds = sf.glob_file(pats, context=ctxcls, kind=fk, **kw)
    elif k == "first_file":
        ds = sf.first_file(["/etc/vp/none"] + [V_FILES[i] for i in case["first_order"]], context=ctxcls, kind=fk, **kw)
    elif k == "foreach_collect":
        items_ds = datasource(ctxcls)(items)
        items_val = ["va", "vb", "vc"]
        ds = sf.foreach_collect(items_ds, "/etc/vp/%s.conf", context=ctxcls, kind=fk, **kw)
    elif k == "simple_command":
        ds = sf.simple_command(echo + " va", context=ctxcls, **ckw)
    elif k == "command_with_args":
        items_ds = datasource(ctxcls)(items)
        items_val = "va"
        ds = sf.command_with_args(echo + " %s", items_ds, context=ctxcls, **ckw)
    elif k == "foreach_execute":
        items_ds = datasource(ctxcls)(items)
        items_val = ["va", "vb", "vc"]
        ds = sf.foreach_execute(items_ds, echo + " %s", context=ctxcls, **ckw)
    elif k == "container_execute":
        items_ds = datasource(ctxcls)(items)
        items_val = [("img", "env", "cid_" + a) for a in "abc"]
        ds = sf.container_execute(items_ds, "ls -l /x", context=ctxcls, **kw)
    elif k == "container_collect":
        items_ds = datasource(ctxcls)(items)
        items_val = [("img", "env", "cid_" + a, "/etc/vp/v%s.conf" % a) for a in "abc"]
        ds = sf.container_collect(items_ds, context=ctxcls, **kw)
    else:
        raise ValueError(k)
    target = ds
    if case["decl"] == "point":
        rp = {"filterable": case["filterable"], "no_redact": case["no_redact"],
              "multi_output": k not in ("simple_file", "first_file", "simple_command", "command_with_args"),
              "raw": bool(case.get("raw")) or case.get("split") is False}
        if case["no_obf"] is not None:
            rp["no_obfuscate"] = list(case["no_obf"])
        base_cls = sf.SpecSetMeta("C06VSpecs%d" % n, (sf.SpecSet,), {"x": sf.RegistryPoint(**rp)})
        sf.SpecSetMeta("C06VImpl%d" % n, (base_cls,), {"x": ds})
        target = base_cls.x
    if case["addf"]:
        filters.add_filter(target, ["TOKEN", "never_there_c06"])
    return ds, items_ds, items_val


def run_vpath(base, case):
    """returns (impl_answer, model_lines, failures): impl_answer = 'nofilter' or the sorted identities of the providers returned"""
    fails = []
    k = case["kind"]
    _V_N[0] += 1
    work = os.path.join(base, "vp%d" % _V_N[0])      # a root of its own: nothing an earlier case left behind can be hit by name
    root = os.path.join(work, "root")
    out = os.path.join(work, "out")
    shutil.rmtree(work, ignore_errors=True)
    os.makedirs(os.path.join(root, "etc", "vp"))
    toks = {}
    shapes = case.get("fshape") or ["reg"] * 3
    for i, f in enumerate(V_FILES):
        toks[f] = "VTK%dQ" % i
        shp = shapes[i]
        real = root + f if shp in ("reg", "empty") else root + "/etc/vp/store%d.data" % i
        with open(real, "w") as fh:
            fh.write("" if shp == "empty" else "first\nTOKEN %s\nlast line\n" % toks[f])
        if shp == "link":
            os.symlink("store%d.data" % i, root + f)
        elif shp == "hard":
            os.link(real, root + f)
    host = case["ctx"] == "host"
    ctxcls = HostContext if host else HostArchiveContext
    ctx = RecHost(root=root) if host else HostArchiveContext(root=root)
    cands = v_candidates(k, case)
    file_like = k in FILE_KINDS
    saved_enabled = filters.ENABLED
    provs, contents, events, ans_head = [], [], [], "ok"
    persisted = {}
    try:
        filters.ENABLED = bool(case["enabled"])
        filters._CACHE.clear()
        hist = case.get("hist", "once")
        if hist != "late-deny":
            for d in case["deny"]:
                (blacklist.add_file if file_like else blacklist.add_command)(d)
        ds, items_ds, items_val = v_build(case, ctxcls)
        broker = dr.Broker()
        broker[ctxcls] = ctx
        if items_ds is not None:
            src = case.get("src", "list")
            if src == "provider" and isinstance(items_val, list):
                items_val = sf.DatasourceProvider(content=list(items_val), relative_path="vitems")
            elif src == "provider" and k == "command_with_args":
                items_val = sf.DatasourceProvider(content=[items_val], relative_path="vitems")   # content is a list: refused
            elif src == "set" and isinstance(items_val, list):
                items_val = set(items_val)
            elif src == "scalar" and isinstance(items_val, list):
                items_val = items_val[0]
            broker[items_ds] = items_val
        if hist in ("late-deny", "twice"):
            # HISTORY: the same datasource object was evaluated (and read) before; with "late-deny" the deny entries are
            # registered only after that first use
            try:
                warm = ds(broker)
                for p in (warm if isinstance(warm, list) else [warm]):
                    try:
                        p.content
                    except Exception:
                        pass
            except Exception:
                pass
            if hist == "late-deny":
                for d in case["deny"]:
                    (blacklist.add_file if file_like else blacklist.add_command)(d)
        _AUD["events"] = []
        audit(True)
        try:
            try:
                res = ds(broker)
                provs = res if isinstance(res, list) else [res]
            except Exception as ex:
                ans_head = classify(ex)
                res = None
            for p in provs:
                try:
                    contents.append(p.content)
                except Exception:
                    contents.append(None)
            keep = [i for i, c in enumerate(contents) if c]
            if keep:
                broker[ds] = [provs[i] for i in keep] if isinstance(res, list) else provs[0]
                try:
                    serde.Hydration(out).dehydrate(ds, broker)
                except Exception as ex:
                    fails.append(("Hydration.dehydrate raised %r for %s" % (ex, k), case, None))
        finally:
            audit(False)
        events = list(_AUD["events"])
        for f in walk_files(out) if os.path.isdir(out) else []:
            try:
                with open(f, "rb") as fh:
                    persisted[f[len(out):]] = fh.read().decode("utf-8", "replace")
            except OSError:
                persisted[f[len(out):]] = ""
    finally:
        filters.ENABLED = saved_enabled
        filters._CACHE.clear()
        clear_deny()
        shutil.rmtree(work, ignore_errors=True)
    # ---- shape of what came back
    idents = []
    for p in provs:
        if isinstance(p, sf.FileProvider):
            pth = p.path
            idents.append("o:/" + pth[len(root):].lstrip("/") if isinstance(pth, str) and pth.startswith(root) else "o?:%r" % (pth,))
        elif isinstance(p, sf.CommandOutputProvider):
            idents.append("x:%s" % (p.cmd,))
        else:
            idents.append("?:%s" % type(p).__name__)
    ans = "nofilter" if ans_head == "nofilter" else "|".join(sorted(idents))
    # ---- ORACLE (B): denied => never returned / opened / executed / persisted, whatever filterable / filters / flags are
    if host:
        opened, execd = set(), set()
        for ev in events:
            if ev[0] == "open" and isinstance(ev[1], str) and ev[1].startswith(root + "/"):
                opened.add("/" + ev[1][len(root):].lstrip("/"))
            elif ev[0] in ("rec", "popen"):
                for argv in (ev[1] if ev[0] == "rec" else [ev[1]]):
                    if argv and argv[0] == "grep" and argv[-1].startswith(root + "/"):
                        opened.add("/" + argv[-1][len(root):].lstrip("/"))
                    execd.add(" ".join(argv))
        for ident, key in cands:
            if not oracle_denied(key, case["deny"]):
                continue
            how = []
            if ident in idents:
                how.append("a provider was returned for it")
            if file_like and key in opened:
                how.append("it was opened")
            if not file_like and key in execd:
                how.append("it was executed")
            if file_like and any(toks[key] in c for c in persisted.values()):
                how.append("its content was persisted")
            if not file_like and any(isinstance(v, str) and ('"cmd": "%s"' % key) in v for v in persisted.values()):
                how.append("it was recorded as collected in meta_data")
            if how:
                fails.append(("%s (filterable=%s, filters %s, declared on the %s): %r matches the deny list %r, yet %s"
                              % (k, case["filterable"], "registered" if case["addf"] else "none", case["decl"], key, case["deny"],
                                 " and ".join(how)), case, None))
    # ---- model: the ordered checks of validate() per candidate
    # `_filterable` looks at the REGISTRY POINTS of the datasource: a datasource declared filterable outside a SpecSet has none
    # (so it is the combination "not filterable, filters registered"); INSIGHTS_FILTERS_ENABLED=false switches both off
    eff_filterable = bool(case["filterable"] and case["enabled"] and case["decl"] == "point")
    eff_filters = bool(case["addf"] and case["enabled"])
    lines = []
    for ident, key in cands:
        lines.append("\t".join(["vchk", "file" if file_like else "cmd", "1", "1" if host else "0", "1" if eff_filterable else "0",
                                "1" if eff_filters else "0", enc(key), enc_strs(case["deny"]), "1", "1"]))
    return ans, lines, fails


def vpath_expect(case, model):
    cands = v_candidates(case["kind"], case)
    if case["kind"] == "command_with_args" and case.get("src") == "provider":
        return ""           # the argument source is neither str nor tuple: ContentException before any provider is built
    if any(m == "nofilter" for m in model):
        return "nofilter"
    ok = [c[0] for c, m in zip(cands, model) if m == "ok"]
    if case["kind"] == "first_file":
        order = ["o:" + V_FILES[i] for i in case["first_order"]]
        ok = [x for x in order if x in ok][:1]
    return "|".join(sorted(ok))


def run_vpath_stream(chk, rng, base, reps):
    cases, impl, lines, spans = [], [], [], []

    def do_case(case):
        ans, ls, fails = run_vpath(base, case)
        for desc, c, fid in fails:
            chk.failure(desc, c, finding=fid)
        cases.append(case)
        impl.append(ans)
        spans.append((len(lines), len(lines) + len(ls)))
        lines.extend(ls)
        chk.case(("vpath", case["kind"], case["filterable"], case["addf"], tuple(case["deny"]), case["decl"], case["ctx"],
                  case["enabled"]), nontrivial=bool(case["deny"]))
        chk.count("vpath:%s:%s" % ("filterable" if case["filterable"] else "plain", "filters" if case["addf"] else "nofilters"))
        chk.count("vpath:answer:" + ("nofilter" if ans == "nofilter" else ("none" if not ans else "some")))
        chk.count("vpath:history:" + case.get("hist", "once"))

    for _name, doc in load_corpus():
        if doc["case"].get("op") == "vpath":
            do_case(doc["case"])
            chk.count("corpus")
    for rep in range(reps):
        for kind in V_KINDS:
            for filterable in (False, True):
                for addf in ((False, True) if filterable else (False,)):
                    for denied in (True, False):
                        do_case(gen_vpath_case(rng, kind, filterable, addf, denied))
    model = run_driver("C06", lines)
    exp = [vpath_expect(c, model[a:b]) for c, (a, b) in zip(cases, spans)]
    chk.compare("validate-paths(kind x filterable x filters x denied)", cases, impl, exp)
    chk.sample({"vpath": cases[-3], "providers": impl[-3]})


def replay(data):
    c = data["case"]
    print("replaying", json.dumps({k: v for k, v in c.items() if k != "layout"}, ensure_ascii=False))
    op = c.get("op")
    base = os.path.realpath(tempfile.mkdtemp(prefix="c06r_"))
    _AUD["base"] = base
    known = False
    fails = []
    try:
        if op in ("validate", "factory"):
            lay = c["layout"]
            build_layout(base, lay)
            tokloc = dict((t, kloc(os.path.join(base, rel))) for t, rel in lay["tokens"].items())
            case = dict((k, v) for k, v in c.items() if k != "layout")
            if op == "validate":
                ans, line, fails = run_validate(base, lay, case, tokloc)
            else:
                out = os.path.join(base, "outs", "n1")
                os.makedirs(out)
                ans, line, fails, info = run_factory(base, lay, case, tokloc, out)
                print("trace:", [t.replace(base, "$B") for t in info.get("trace", [])])
            print("implementation:", ans.replace(base, "$B"))
            m = run_driver("C06", [line])[0]
            print("model:", (canon_mkfile(m) if op == "validate" else canon_factory_model(m)[0]).replace(base, "$B"))
        elif op == "ser":
            out = os.path.join(base, "outs", "n1")
            os.makedirs(out)
            ans, line, fails = run_ser(base, c, out)
            print("implementation:", ans)
        elif op == "hydrate":
            impl, lines, idx, hf, err = run_hydrate(base, c)
            for sp, a in zip(c["specs"], impl):
                print(sp["pt"], sp["kind"], [e["route"] for e in sp["elems"]], "->", a.replace(base, "$B"))
            fails = [(d, c, None) for d in hf]
        elif op == "collect":
            base_case = {"op": "collect", "n": 0, "files": [], "commands": [], "components": [], "in_manifest": False}
            obs = run_collect_cases([base_case, c])
            print("collected without a deny list:", sorted(k for k, v in obs[0]["got"].items() if v["collected"]))
            print("collected with it:            ", sorted(k for k, v in obs[1]["got"].items() if v["collected"]))
            print("opened:", obs[1]["opened"], "executed:", obs[1]["execd"])
            print("collect() raised:", obs[1]["error"])
            print("disabled while the datasources ran:", obs[1].get("disabled"))
            fails = [(d, c, None) for d in collect_oracle(c, obs[1]) + collect_abort_oracle(c, obs[1]) + collect_flag_oracle(c, obs[1])]
        elif op == "collect-hist":
            calls = c["calls"][:c.get("upto", len(c["calls"]) - 1) + 1]
            obs = run_collect_cases([dict(c, calls=calls)] + [calls[-1]])
            for ki, (cc, o) in enumerate(zip(calls, obs[0]["calls"])):
                print("call %d: deny list files=%r commands=%r components=%r" % (ki + 1, cc["files"], cc["commands"], cc["components"]))
                print("   collected:", sorted(k for k, v in o["got"].items() if v["collected"]), "disabled:", o.get("disabled"),
                      "raised:", o["error"])
                fails += [("call %d: %s" % (ki + 1, d), c, None) for d in collect_oracle(cc, o) + collect_flag_oracle(cc, o)]
            a = obs[1]
            print("last call once more, later in the same process: collected:", sorted(k for k, v in a["got"].items() if v["collected"]),
                  "disabled:", a.get("disabled"))
            fails += [("repeated later in the same process: %s" % d, c, None) for d in collect_oracle(calls[-1], a) + collect_flag_oracle(calls[-1], a)]
        elif op == "blseq":
            got, line, bf, exname = run_blseq_case(c)
            print("apply_blacklist ->", got, exname or "")
            print("model:            ", run_driver("C06", [line])[0])
            fails = [(d, c, None) for d in bf]
        elif op == "vpath":
            ans, lines, fails = run_vpath(base, c)
            print("implementation:", ans)
            print("model:         ", vpath_expect(c, run_driver("C06", lines)))
        elif op == "mangle":
            m = mangle_command(c["cmd"])
            print("mangle_command ->", repr(m))
            if "/" in m or m in (".", ".."):
                fails = [("not a single component", c, None)]
        elif op == "deny":
            for x in c["deny"]:
                blacklist.add_command(x)
            try:
                ra = blacklist.allow_command(c["c"])
            finally:
                clear_deny()
            print("allow_command ->", ra, " documented match ->", not oracle_denied(c["c"], c["deny"]))
            if ra == oracle_denied(c["c"], c["deny"]):
                fails = [("deny match differs", c, None)]
        else:
            print("nothing to replay for op", op)
    finally:
        audit(False)
        clear_deny()
        shutil.rmtree(base, ignore_errors=True)
    for desc, _, fid in fails:
        print("ORACLE:", desc.replace(base, "$B"), "[known finding %s]" % fid if fid else "")
        known = known or fid is not None
    bad = bool(fails)
    print("property violated on this input" if bad else "property holds on this input")
    return 1 if bad else 0
