"""
C19 — parser combinators implement ordered-choice PEG semantics.

Tie      random grammar terms are built as REAL insights.parsr combinator objects through the public
         constructors / operators (+ | << >> & / .map .sep_by .until Lift*…), the built object graph is
         walked back into a term (class, attributes, children, Forward -> rule table) and that term is
         run by the Lean model (Drivers/C19.lean: IV.Peg.run / call).  Compared per (term, input):
         position + value or failure of `process(0, data, ctx)`, whether ctx.function_error is set, the
         tag stack left in ctx.tags, and what `Parser.__call__` reports (value / parse error / function error).
         Operators: random Python EXPRESSIONS over leaf parsers (`a + (b + c)`, `(a | b) | c`, `a + (b | c) + d`, mixes with
         << >> & / * % .map .sep_by .until Many Opt Wrapper Sequence([..]) Choice([..]), explicit parentheses in every
         association; grouping taken from Python's own `ast`) are evaluated with the real operators; the built object
         graph is read back and compared (a) with the documented term (left operand accumulates, anything else nests)
         built through the class constructors, structure and VALUES, (b) with the model's smart constructors
         `plus`/`alt`/`mul` (driver op `ops`: same structure, same value).
         The driver's fuel is `IV.Peg.bound rules term |input|` (Props.C19.no_divergence) and it reports the model's
         `WellFormed` for every generated grammar (must be 1: the generator's discipline is the theorem's hypothesis).
Shipped  translate/grammars.py walks the live objects json_parser.Top and taglang.parse into IV/Gen/Grammars.lean at the
         start of every run; the TRANSLATED grammars are run in the driver on the same documents / expressions as the
         real ones (streams json-translated-vs-real, taglang-translated-vs-real: value or error class of __call__,
         resp. Predicate.test on 32 tag sets).
Library  (round 10) PosMarker / Context.line / Context.col are in the model (Term.mark); skip_none is a table function; the
         module-level parsers (WS, Number, LineEnd, QuotedString, …) and EnclosedComment / OneLineComment / EmptyQuotedString
         are leaves of the random grammars with their documented meaning written down here (CONST_TERMS); WithIndent /
         HangingString run against the reference evaluator only; generated INI documents against iniparser.parse_doc.
Oracle   `Ref` below: an independent recursive-descent evaluator written from the textbook PEG rules
         (functional state: a failed alternative leaves no trace; a raising action aborts the parse),
         evaluated on the same terms.  Shipped grammars: insights.parsr.examples.json_parser against
         json.loads on the documented subset, insights.core.taglang.parse against boolean evaluation
         with precedence ! > & > | ,  on every tag set.
"""
import itertools
import json
import os
import re
import signal
import string as _string

from harness.common import VERIF, REPO, enc, dec, run_driver

import insights.parsr as P
from insights.parsr import (Backtrack, Char, Choice, Context, EndTagName, FollowedBy, Forward, InSet, KeepLeft,
                            KeepRight, Lift, Literal, Many, Map, NotFollowedBy, Opt, Parser, Sequence,
                            StartTagName, String, Until, Wrapper)
from insights.parsr.examples import json_parser
from insights.core import taglang

FUEL = "auto"     # the driver computes IV.Peg.bound rules term |input| (Props.C19.no_divergence)
# the private sentinel of sep_by (absent in trees without fix 8179445: then nothing is ever equal to it)
NO_MATCH = getattr(Parser, "_NO_MATCH", object())
AnyCharCls = type(P.AnyChar)
EOFCls = type(P.EOF)
# classes / functions added to the check in round 10; a tree without one of them is reported through the oracle
PosMarker = getattr(P, "PosMarker", None)
MarkCls = getattr(P, "Mark", None)
EnclosedComment = getattr(P, "EnclosedComment", None)
OneLineComment = getattr(P, "OneLineComment", None)
EmptyQuotedString = getattr(P, "EmptyQuotedString", None)
WithIndent = getattr(P, "WithIndent", None)
HangingString = getattr(P, "HangingString", None)


class RMark(object):
    """the reference evaluator's Mark: line and column (1-based) of the start position, and the value"""

    def __init__(self, lineno, col, value):
        self.lineno, self.col, self.value = lineno, col, value


# --------------------------------------------------------------------------- values

def canon(v):
    if v is None:
        return "N"
    if v is NO_MATCH:
        return "X"
    if isinstance(v, bool):
        return "B%d" % v
    if isinstance(v, int):
        return "I%d" % v
    if isinstance(v, float):
        return "F" + repr(v)
    if isinstance(v, str):
        return "S" + enc(v)
    if isinstance(v, list):
        return "[" + ";".join(canon(x) for x in v) + "]"
    if isinstance(v, dict):
        return "{" + ";".join(canon(k) + ":" + canon(x) for k, x in v.items()) + "}"
    if isinstance(v, RMark) or (MarkCls is not None and type(v) is MarkCls):
        ln, col = getattr(v, "lineno", None), getattr(v, "col", None)
        if type(ln) is int and type(col) is int and hasattr(v, "value"):
            return "O" + enc("Mark") + "(I%d;I%d;%s)" % (ln, col, canon(v.value))
        return "?Mark(%r,%r)" % (ln, col)
    return "?" + type(v).__name__


def val_tokens(v):
    if v is None:
        return ["N"]
    if v is NO_MATCH:
        return ["X"]
    if isinstance(v, bool):
        return ["B", "1" if v else "0"]
    if isinstance(v, int):
        return ["I", str(v)]
    if isinstance(v, str):
        return ["S", enc(v)]
    if isinstance(v, list):
        out = ["L", str(len(v))]
        for x in v:
            out += val_tokens(x)
        return out
    raise Untranslatable("value of type %s" % type(v).__name__)


# --------------------------------------------------------------------------- mapped functions (the table of IV.Peg.Fn)

def _tag(f, *tok):
    f._c19 = tok
    return f


def fn_map(spec):
    """a function for Map: one argument"""
    k = spec[0]
    if k == "ident":
        return _tag(lambda x: x, "ident")
    if k == "join":
        return _tag(lambda x: "".join(x), "join")
    if k == "len":
        return _tag(lambda x: len(x), "len")
    if k == "const":
        v = spec[1]
        return _tag(lambda x: v, "const", v)
    if k == "btif":
        v = spec[1]

        def f(x):
            if x == v:
                raise Backtrack("mapped function backtracks")
            return x
        return _tag(f, "btif", v)
    if k == "raiseif":
        v = spec[1]

        def g(x):
            if x == v:
                raise ValueError("mapped function raises")
            return x
        return _tag(g, "raiseif", v)
    if k == "skipnone":
        return P.skip_none              # the library's own function object (identified by identity)
    raise ValueError(k)


def fn_lift(spec):
    """a function for Lift: *args; the model applies the same table entry to the list of arguments"""
    if spec[0] == "pair":
        return _tag(lambda *a: list(a), "pair")
    if spec[0] == "skipnone":
        return _tag(lambda *a: P.skip_none(list(a)), "skipnone")
    inner = fn_map(spec)
    return _tag(lambda *a: inner(list(a)), *inner._c19)


def fn_tokens(func):
    if func is getattr(Parser, "_accumulate", None):
        return ["accum"]
    if func is getattr(P, "skip_none", None):
        return ["skipnone"]
    code = getattr(func, "__code__", None)
    if (getattr(func, "__name__", "") == "<lambda>" and getattr(func, "__module__", "") == "insights.parsr" and code is not None
            and code.co_argcount == 1 and code.co_names == ("join",) and "" in code.co_consts):
        return ["join"]                 # EnclosedComment's  lambda x: "".join(x)
    tok = getattr(func, "_c19", None)
    if tok is None:
        # the functions of the shipped grammars (identified by identity with the live objects)
        from translate import grammars as tg
        try:
            shipped = tg.shipped_fn_tokens(func)
        except tg.Unsupported as e:
            raise Untranslatable(str(e))
        if shipped is not None:
            return shipped
        raise Untranslatable("mapped function %r" % getattr(func, "__name__", func))
    if len(tok) == 1:
        return [tok[0]]
    return [tok[0]] + val_tokens(tok[1])


# --------------------------------------------------------------------------- spec -> real combinators

SET_STYLES = ["setgen", "setiter", "settuple", "setmutated"]
LIST_STYLES = ["list", "gen", "iter", "tuple", "sharedlist:before", "sharedlist:after", "sharedlist:same",
               "mutated:append", "mutated:clear", "mutated:pop", "mutated:reverse", "mutated:insert"]


def own_list(cls, kids, style):
    """Sequence / Choice through their CONSTRUCTOR, by the routes a caller can take with the operand collection.
    Whatever the route, the combinator denotes the operands it was CONSTRUCTED from (it owns its operand list):
      gen / iter / tuple   a generator expression, a one-shot iterator, a tuple (then evaluated more than once)
      sharedlist:*         ONE list object handed to two combinators, one of which is then extended with | or +
                           (before / after: the other class, built before / after this one; same: the same class)
      mutated:*            the caller mutates its list after construction (append / clear / pop / reverse / insert)"""
    kids = list(kids)
    extra = Char("z")
    if style == "gen":
        return cls(k for k in kids)
    if style == "iter":
        return cls(iter(kids))
    if style == "tuple":
        return cls(tuple(kids))
    if style.startswith("sharedlist:"):
        other_cls = Choice if cls is Sequence else Sequence
        l = list(kids)
        how = style.split(":")[1]
        if how == "before":
            o = other_cls(l)
            o = (o | extra) if other_cls is Choice else (o + extra)
            return cls(l)
        node = cls(l)
        o = other_cls(l) if how == "after" else cls(l)
        o = (o | extra) if type(o) is Choice else (o + extra)
        return node
    if style.startswith("mutated:"):
        l = list(kids)
        node = cls(l)
        how = style.split(":")[1]
        if how == "append":
            l.append(extra)
        elif how == "clear":
            del l[:]
        elif how == "pop":
            if l:
                l.pop()
        elif how == "reverse":
            l.reverse()
            l.append(extra)
        elif how == "insert":
            l.insert(0, extra)
        return node
    return cls(kids)


def reset_children(node, operands, style):
    """the public Node.set_children on a built combinator, from a one-shot iterator / generator / tuple of the SAME
    operands (Until, FollowedBy, NotFollowedBy, KeepLeft, KeepRight, Lift, Forward): it denotes what it did before"""
    operands = list(operands)
    if style == "setgen":
        node.set_children(c for c in operands)
    elif style == "setiter":
        node.set_children(iter(operands))
    elif style == "settuple":
        node.set_children(tuple(operands))
    elif style == "setmutated":
        l = list(operands)
        node.set_children(l)
        l.append(Char("z"))
        l.reverse()
    return node


def build(spec, fwd, pool=None):
    """spec (JSON-able nested lists) -> real parser objects, through the public API.
    pool (a dict) = draw OBJECTS with repetition: every further occurrence of an equal sub-spec is the SAME Python object
    (how real grammars are written: one WS / Comma / Number object used everywhere).  pool=None: a fresh object per
    occurrence.  Both spellings denote the same term — a tree of occurrences."""
    if pool is not None and spec[0] != "ref":
        key = json.dumps(spec, sort_keys=True)
        if key in pool:
            pool["#hits"] = pool.get("#hits", 0) + 1
            return pool[key]
        obj = _build(spec, fwd, pool)
        pool[key] = obj
        return obj
    return _build(spec, fwd, pool)


def _build(spec, fwd, pool):
    k = spec[0]
    if k == "any":
        return P.AnyChar
    if k == "eof":
        return P.EOF
    if k == "chr":
        return Char(spec[1])
    if k == "set":
        return InSet(spec[1])
    if k == "str":
        return String(spec[1], spec[2] or None, spec[3])
    if k == "lit":
        if spec[2] is None:
            return Literal(spec[1], ignore_case=spec[3])
        return Literal(spec[1], value=spec[2][0], ignore_case=spec[3])
    if k == "seq":
        kids = [build(s, fwd, pool) for s in spec[1]]
        if spec[2] == "+" and len(kids) >= 2 and not isinstance(kids[0], Sequence):
            p = kids[0] + kids[1]
            for c in kids[2:]:
                p = p + c
            return p
        return own_list(Sequence, kids, spec[2])
    if k == "cho":
        kids = [build(s, fwd, pool) for s in spec[1]]
        if spec[2] == "|" and len(kids) >= 2 and not isinstance(kids[0], Choice):
            p = kids[0] | kids[1]
            for c in kids[2:]:
                p = p | c
            return p
        return own_list(Choice, kids, spec[2])
    if k == "many":
        return Many(build(spec[1], fwd, pool), lower=spec[2])
    if k in ("until", "fb", "nfb", "kl", "kr") and len(spec) > 3:
        a, b = build(spec[1], fwd, pool), build(spec[2], fwd, pool)
        node = {"until": lambda: a.until(b), "fb": lambda: a & b, "nfb": lambda: a / b, "kl": lambda: a << b,
                "kr": lambda: a >> b}[k]()
        return reset_children(node, [a, b], spec[3])
    if k == "until":
        return build(spec[1], fwd, pool).until(build(spec[2], fwd, pool))
    if k == "opt":
        return Opt(build(spec[1], fwd, pool), spec[2]) if spec[2] is not None else Opt(build(spec[1], fwd, pool))
    if k == "fb":
        return build(spec[1], fwd, pool) & build(spec[2], fwd, pool)
    if k == "nfb":
        return build(spec[1], fwd, pool) / build(spec[2], fwd, pool)
    if k == "kl":
        return build(spec[1], fwd, pool) << build(spec[2], fwd, pool)
    if k == "kr":
        return build(spec[1], fwd, pool) >> build(spec[2], fwd, pool)
    if k == "map":
        return build(spec[2], fwd, pool).map(fn_map(spec[1]))
    if k == "lift":
        p = Lift(fn_lift(spec[1]))
        if len(spec) > 3:
            return reset_children(p, [build(s, fwd, pool) for s in spec[2]], spec[3])
        for s in spec[2]:
            p = p * build(s, fwd, pool)
        return p
    if k == "sepby":
        return build(spec[1], fwd, pool).sep_by(build(spec[2], fwd, pool))
    if k == "wrap":
        return Wrapper(build(spec[1], fwd, pool))
    if k == "ref":
        return fwd[spec[1]]
    if k == "stag":
        return StartTagName(build(spec[1], fwd, pool))
    if k == "etag":
        return EndTagName(build(spec[1], fwd, pool), ignore_case=spec[2])
    if k == "pm":
        return PosMarker(build(spec[1], fwd, pool))
    if k == "dbg":
        return build(spec[1], fwd, pool).debug()
    if k == "named":
        return build(spec[1], fwd, pool) % spec[2]
    if k == "const":
        return getattr(P, spec[1])
    if k == "ecom":
        return EnclosedComment(spec[1], spec[2])
    if k == "olcom":
        return OneLineComment(spec[1])
    if k == "eqs":
        return EmptyQuotedString(spec[1])
    if k == "wi":
        return WithIndent(build(spec[1], fwd, pool))
    if k == "hs":
        return HangingString(spec[1], spec[2] or None, spec[3]) if (spec[2] or spec[3] != 1) else HangingString(spec[1])
    raise ValueError(k)


def build_grammar(g, share=False):
    """g = {"rules": [spec…], "top": spec} -> (top parser, [Forward…]); share: one object pool for the whole grammar"""
    pool = {} if share else None
    fwd = [Forward() for _ in g["rules"]]
    for j, (f, s) in enumerate(zip(fwd, g["rules"])):
        body = build(s, fwd, pool)
        f <= body
        style = (g.get("fwd_styles") or [])[j:j + 1]
        if style and style[0] != "<=":
            reset_children(f, [body], style[0])
    top = build(g["top"], fwd, pool)
    if share:
        build_grammar.hits = pool.get("#hits", 0)
        build_grammar.pool = pool
    return top, fwd


# ---- history: BUILD -> EVALUATE -> EXTEND / REPLACE -> EVALUATE

def map_spec(spec, f):
    """the spec with f applied to its direct sub-specs"""
    k = spec[0]
    out = list(spec)
    if k in ("seq", "cho"):
        out[1] = [f(c) for c in spec[1]]
    elif k == "lift":
        out[2] = [f(c) for c in spec[2]]
    elif k in ("many", "opt", "wrap", "stag", "etag", "pm", "dbg", "named", "wi"):
        out[1] = f(spec[1])
    elif k == "map":
        out[2] = f(spec[2])
    elif k in ("until", "fb", "nfb", "kl", "kr", "sepby"):
        out[1], out[2] = f(spec[1]), f(spec[2])
    return out


def sub_specs(spec, acc):
    acc.append(spec)
    map_spec(spec, lambda c: sub_specs(c, acc) or c)
    return acc


def replace_all(spec, target, new):
    """every occurrence of an equal sub-spec is the SAME pooled object: a change to it shows at every occurrence"""
    if spec == target:
        return new
    return map_spec(spec, lambda c: replace_all(c, target, new))


def plan_history(rng, g):
    """choose, at the level of specs, what is done to the built grammar after its first evaluation"""
    cands = []
    for sp in sub_specs(g["top"], []) + [x for r in g["rules"] for x in sub_specs(r, [])]:
        if sp[0] in ("seq", "cho", "lift"):
            cands.append(("extend", sp))
            cands.append(("add_child", sp))
        if sp[0] in ("seq", "cho") and sp[1] or sp[0] in ("until", "fb", "nfb", "kl", "kr"):
            cands.append(("replace", sp))
    for i in range(len(g["rules"])):
        cands.append(("reassign", i))
    if not cands:
        return None
    op, tgt = rng.choice(cands)
    h = {"op": op, "extra": rng.choice([["chr", "z"], ["chr", "z"], ["set", "yz"], ["lit", "zz", None, False]])}
    if op == "reassign":
        h["rule"] = tgt
    else:
        h["target"] = tgt
        if op == "replace":
            h["child"] = rng.randrange(len(tgt[1])) if tgt[0] in ("seq", "cho") else rng.randrange(2)
    return h


def grammar_after(g, h):
    """the grammar the objects denote AFTER the step (the model grammar of the second evaluation)"""
    x = h["extra"]
    if h["op"] == "reassign":
        rules = list(g["rules"])
        rules[h["rule"]] = ["cho", [x, rules[h["rule"]]], "list"]
        return dict(g, rules=rules)
    t = h["target"]
    new = list(t)
    if h["op"] in ("extend", "add_child"):
        if t[0] == "lift":
            new[2] = t[2] + [x]
        else:
            new[1] = t[1] + [x]
    elif t[0] in ("seq", "cho"):
        new[1] = [x if j == h["child"] else c for j, c in enumerate(t[1])]
    else:
        new[1 + h["child"]] = x
    return dict(g, top=replace_all(g["top"], t, new), rules=[replace_all(r, t, new) for r in g["rules"]])


def apply_history(g, h, fwd, pool):
    """do the step to the BUILT objects through the public API; returns (the object acted on, repr evidence)"""
    def obj_of(spec):
        return fwd[spec[1]] if spec[0] == "ref" else pool[json.dumps(spec, sort_keys=True)]
    extra = build(h["extra"], fwd, None)
    if h["op"] == "reassign":
        f = fwd[h["rule"]]
        f <= Choice([extra, obj_of(g["rules"][h["rule"]])])
        return f
    t = h["target"]
    node = obj_of(t)
    if h["op"] == "extend":
        res = (node | extra) if t[0] == "cho" else (node + extra) if t[0] == "seq" else (node * extra)
        if res is not node:
            raise Shape("%s %s a further operand returned a new %s instead of extending the combinator" % (
                type(node).__name__, {"cho": "|", "seq": "+", "lift": "*"}[t[0]], type(res).__name__))
    elif h["op"] == "add_child":
        node.add_child(extra)
    else:
        kids = [obj_of(c) for c in (t[1] if t[0] in ("seq", "cho") else [t[1], t[2]])]
        kids[h["child"]] = extra
        node.set_children(kids)
    return node


def fn_spec_tokens(fs):
    return [fs[0]] + (val_tokens(fs[1]) if len(fs) > 1 else [])


def spec_term(spec):
    """the term a spec denotes — one child per operand OCCURRENCE (what `build` is documented to give)"""
    k = spec[0]
    if k in ("any", "eof"):
        return [k]
    if k == "chr":
        return ["chr", spec[1]]
    if k == "set":
        return ["set", "".join(sorted(set(spec[1])))]
    if k == "str":
        return ["str", "".join(sorted(set(spec[1]))), "".join(sorted(set(spec[2] or ""))), spec[3]]
    if k == "lit":
        return ["lit", spec[1].lower() if spec[3] else spec[1], None if spec[2] is None else [spec[2][0]], bool(spec[3])]
    if k in ("seq", "cho"):
        return [k, [spec_term(c) for c in spec[1]]]
    if k == "many":
        return ["many", spec_term(spec[1]), spec[2]]
    if k == "opt":
        return ["opt", spec_term(spec[1]), [spec[2]]]
    if k in ("until", "fb", "nfb", "kl", "kr"):
        return [k, spec_term(spec[1]), spec_term(spec[2])]
    if k == "map":
        return ["map", fn_spec_tokens(spec[1]), spec_term(spec[2])]
    if k == "lift":
        return ["lift", fn_spec_tokens(spec[1]), [spec_term(c) for c in spec[2]]]
    if k == "sepby":
        a, b = spec_term(spec[1]), spec_term(spec[2])
        return ["lift", ["accum"], [["opt", a, [NO_MATCH]], ["many", ["kr", b, a], 0]]]
    if k == "wrap":
        return ["wrap", spec_term(spec[1])]
    if k == "ref":
        return ["ref", spec[1]]
    if k == "stag":
        return ["stag", spec_term(spec[1])]
    if k == "etag":
        return ["etag", spec_term(spec[1]), bool(spec[2])]
    if k == "pm":
        return ["pm", spec_term(spec[1])]
    if k in ("dbg", "named"):           # .debug() and % name change nothing a parse returns
        return spec_term(spec[1])
    if k == "wi":
        return ["wi", spec_term(spec[1])]
    if k == "hs":
        return ["hs", _cs(spec[1]), _cs(spec[2] or ""), spec[3]]
    if k == "const":
        return json.loads(json.dumps(CONST_TERMS[spec[1]]))
    if k == "ecom":                     # Start >> AnyChar.until(End).map("".join) << End
        return ["wrap", ["kl", ["kr", ["lit", spec[1], None, False],
                                ["map", ["join"], ["until", ["any"], ["lit", spec[2], None, False]]]],
                         ["lit", spec[2], None, False]]]
    if k == "olcom":                    # Literal(s) >> Opt(AnyChar.until(InSet("\r\n")), "")
        return ["wrap", ["kr", ["lit", spec[1], None, False], ["opt", ["until", ["any"], ["set", "\n\r"]], [""]]]]
    if k == "eqs":                      # a quoted string that may be empty, either quote, the quote itself escapable
        def q(c):
            return ["kl", ["kr", ["chr", c], ["str", _cs(set(spec[1]) - set(c)), c, 0]], ["chr", c]]
        return ["wrap", ["cho", [q("'"), q('"')]]]
    raise ValueError(k)


def _cs(chars):
    return "".join(sorted(set(chars)))


def _quoted(c):
    return ["kl", ["kr", ["chr", c], ["str", _cs(set(_string.printable) - set(c)), c, 1]], ["chr", c]]


# the DOCUMENTED meaning of the ready-made parsers at the bottom of insights/parsr/__init__.py, written with the
# `string` module and not read from the library: the objects are read back (walk) and must denote exactly these terms
CONST_TERMS = {
    "EOF": ["eof"], "AnyChar": ["any"], "EOL": ["set", "\n\r"],
    "LineEnd": ["wrap", ["cho", [["set", "\n\r"], ["eof"]]]],
    "EQ": ["chr", "="], "LT": ["chr", "<"], "GT": ["chr", ">"], "FS": ["chr", "/"], "LeftCurly": ["chr", "{"],
    "RightCurly": ["chr", "}"], "LeftBracket": ["chr", "["], "RightBracket": ["chr", "]"], "LeftParen": ["chr", "("],
    "RightParen": ["chr", ")"], "Colon": ["chr", ":"], "SemiColon": ["chr", ";"], "Comma": ["chr", ","],
    "NonZeroDigit": ["set", "123456789"], "Digit": ["set", "0123456789"], "Digits": ["str", "0123456789", "", 1],
    "Letter": ["set", _cs(_string.ascii_letters)], "Letters": ["str", _cs(_string.ascii_letters), "", 1],
    "WSChar": ["set", _cs(" \t\x0b\x0c")], "WS": ["many", ["set", _cs(" \t\n\r\x0b\x0c")], 0],
    "Number": ["lift", ["mknum"], [["opt", ["chr", "-"], [""]], ["str", "0123456789", "", 1],
                                    ["opt", ["seq", [["chr", "."], ["str", "0123456789", "", 1]]], [None]]]],
    "SingleQuotedString": _quoted("'"), "DoubleQuotedString": _quoted('"'),
    "QuotedString": ["wrap", ["cho", [_quoted('"'), _quoted("'")]]],
}


# --------------------------------------------------------------------------- real object graph -> term

class Untranslatable(Exception):
    pass


class Shape(Untranslatable):
    """a built parser object does not have the shape its class promises (number of children, attribute types):
    never an exception of the harness — callers turn it into an oracle failure / broken tie"""


ARITY = {}      # class -> number of children its constructor is documented to give (filled below)


def _kids(p, path):
    kids = getattr(p, "children", None)
    if not isinstance(kids, list):
        raise Shape("%s at %s has no children list (%r)" % (type(p).__name__, path or "top", type(kids).__name__))
    want = ARITY.get(type(p))
    if want is not None and len(kids) != want:
        raise Shape("%s at %s has %d children, its %d operands each count as one child" % (
            type(p).__name__, path or "top", len(kids), want))
    for c in kids:
        if not isinstance(c, Parser):
            raise Shape("%s at %s has a child of type %s" % (type(p).__name__, path or "top", type(c).__name__))
    return kids


def _attr(p, name, types, path):
    if not hasattr(p, name):
        raise Shape("%s at %s has no attribute %s" % (type(p).__name__, path or "top", name))
    v = getattr(p, name)
    if types is not None and not isinstance(v, types):
        raise Shape("%s.%s at %s is a %s" % (type(p).__name__, name, path or "top", type(v).__name__))
    return v


def _charset(p, name, path):
    v = _attr(p, name, (set, frozenset, list, tuple, str), path)
    if not all(isinstance(c, str) and len(c) == 1 for c in v):
        raise Shape("%s.%s at %s is not a set of characters" % (type(p).__name__, name, path or "top"))
    return "".join(sorted(set(v)))


def walk(p, fwd_ids, path=""):
    """the term the built object graph denotes (what the model and the reference evaluator run): a TREE OF
    OCCURRENCES — an object referenced n times is walked n times, identity of the Python objects does not matter.
    Every internal that is read is shape-checked first (Shape), nothing is indexed on trust."""
    if len(path) > 400:
        raise Shape("object graph deeper than 200 levels below %s (a cycle that is not a Forward?)" % path[:40])
    if not isinstance(p, Parser):
        raise Shape("%s at %s is not a Parser" % (type(p).__name__, path or "top"))
    t = type(p)
    if t is Forward:
        if id(p) not in fwd_ids:
            raise Untranslatable("unknown Forward")
        return ["ref", fwd_ids[id(p)]]
    if t not in ARITY and t not in (Sequence, Choice, Lift):
        raise Untranslatable("parser class %s" % t.__name__)
    kids = _kids(p, path)

    def sub(i):
        return walk(kids[i], fwd_ids, path + "/%d" % i)
    if t is AnyCharCls:
        return ["any"]
    if t is EOFCls:
        return ["eof"]
    if t is Char:
        c = _attr(p, "char", None, path)
        if not (isinstance(c, str) and len(c) == 1):
            raise Untranslatable("Char(%r)" % (c,))
        return ["chr", c]
    if t is InSet:
        return ["set", _charset(p, "values", path)]
    if t is String:
        return ["str", _charset(p, "chars", path), _charset(p, "echars", path), _attr(p, "min_length", int, path)]
    if t is Literal:
        v = _attr(p, "value", None, path)
        return ["lit", _attr(p, "chars", str, path), None if v is getattr(Literal, "_NULL", None) else [v],
                bool(_attr(p, "ignore_case", None, path))]
    if t is Sequence:
        return ["seq", [sub(i) for i in range(len(kids))]]
    if t is Choice:
        return ["cho", [sub(i) for i in range(len(kids))]]
    if t is Many:
        return ["many", sub(0), _attr(p, "lower", int, path)]
    if t is Until:
        return ["until", sub(0), sub(1)]
    if t is Opt:
        return ["opt", sub(0), [_attr(p, "default", None, path)]]
    if t is FollowedBy:
        return ["fb", sub(0), sub(1)]
    if t is NotFollowedBy:
        return ["nfb", sub(0), sub(1)]
    if t is KeepLeft:
        return ["kl", sub(0), sub(1)]
    if t is KeepRight:
        return ["kr", sub(0), sub(1)]
    if t is Map:
        return ["map", fn_tokens(_attr(p, "func", None, path)), sub(0)]
    if t is Lift:
        return ["lift", fn_tokens(_attr(p, "func", None, path)), [sub(i) for i in range(len(kids))]]
    if t is Wrapper:
        return ["wrap", sub(0)]
    if t is StartTagName:
        return ["stag", sub(0)]
    if t is EndTagName:
        return ["etag", sub(0), bool(_attr(p, "ignore_case", None, path))]
    if t is PosMarker:
        return ["pm", sub(0)]
    if t is WithIndent:
        return ["wi", sub(0)]
    if t is HangingString:
        line = sub(0)                    # one line of the value: String(chars, echars, min_length) << (EOL | EOF)
        if not (line[0] == "kl" and line[1][0] == "str" and line[2] == ["cho", [["set", "\n\r"], ["eof"]]]):
            raise Shape("HangingString at %s wraps %s, not  String << (EOL | EOF)" % (path or "top", " ".join(tokens(line))))
        return ["hs", line[1][1], line[1][2], line[1][3]]
    if t in (EnclosedComment, OneLineComment, EmptyQuotedString):      # process() hands over to the one child
        return ["wrap", sub(0)]
    raise Untranslatable("parser class %s" % t.__name__)


ARITY.update({AnyCharCls: 0, EOFCls: 0, Char: 0, InSet: 0, String: 0, Literal: 0, Many: 1, Until: 2, Opt: 1, FollowedBy: 2,
              NotFollowedBy: 2, KeepLeft: 2, KeepRight: 2, Map: 1, Wrapper: 1, StartTagName: 1, EndTagName: 1})
for _c in (PosMarker, EnclosedComment, OneLineComment, EmptyQuotedString, WithIndent, HangingString):
    if _c is not None:
        ARITY[_c] = 1


def forward_body(f, fwd_ids, i):
    """the rule body behind a Forward, shape-checked"""
    kids = getattr(f, "children", None)
    if not isinstance(kids, list) or len(kids) != 1:
        raise Shape("Forward #%d has %s children, a defined Forward has exactly one" % (
            i, len(kids) if isinstance(kids, list) else "no"))
    return walk(kids[0], fwd_ids, "rule%d" % i)


def tokens(t):
    k = t[0]
    if k in ("any", "eof"):
        return [k]
    if k == "chr":
        return ["chr", enc(t[1])]
    if k == "set":
        return ["set", enc(t[1])]
    if k == "str":
        return ["str", enc(t[1]), enc(t[2]), str(t[3])]
    if k == "lit":
        return ["lit", enc(t[1])] + (["_"] if t[2] is None else ["V"] + val_tokens(t[2][0])) + ["1" if t[3] else "0"]
    if k in ("seq", "cho"):
        out = [k, str(len(t[1]))]
        for c in t[1]:
            out += tokens(c)
        return out
    if k == "many":
        return ["many", str(t[2])] + tokens(t[1])
    if k == "opt":
        return ["opt"] + val_tokens(t[2][0]) + tokens(t[1])
    if k in ("until", "fb", "nfb", "kl", "kr"):
        return [k] + tokens(t[1]) + tokens(t[2])
    if k == "map":
        return ["map"] + t[1] + tokens(t[2])
    if k == "lift":
        out = ["lift"] + t[1] + [str(len(t[2]))]
        for c in t[2]:
            out += tokens(c)
        return out
    if k in ("wrap", "stag", "pm", "wi"):
        return [k] + tokens(t[1])
    if k == "hs":
        return ["hs", enc(t[1]), enc(t[2]), str(t[3])]
    if k == "ref":
        return ["ref", str(t[1])]
    if k == "etag":
        return ["etag", "1" if t[2] else "0"] + tokens(t[1])
    raise ValueError(k)


def kinds(t, acc):
    acc.add(t[0])
    for x in t[1:]:
        if isinstance(x, list) and x and isinstance(x[0], str) and x[0] in KINDS:
            kinds(x, acc)
        elif isinstance(x, list):
            for y in x:
                if isinstance(y, list) and y and isinstance(y[0], str) and y[0] in KINDS:
                    kinds(y, acc)
    return acc


KINDS = {"any", "eof", "chr", "set", "str", "lit", "seq", "cho", "many", "until", "opt", "fb", "nfb", "kl", "kr",
         "map", "lift", "wrap", "ref", "stag", "etag", "pm", "wi", "hs"}


# --------------------------------------------------------------------------- the reference: textbook PEG with values

class Abort(Exception):
    """a semantic action raised: the parse as a whole is an error"""


FAIL = None


def apply_fn(tok, v):
    """the meaning of a function-table entry on a Python value; returns ('ok', w) | 'back' | 'raise'"""
    k = tok[0]
    arg = _untok(tok[1:]) if len(tok) > 1 else None
    if k in ("ident", "pair"):
        return ("ok", v)
    if k == "join":
        if isinstance(v, str):
            return ("ok", v)
        if isinstance(v, list) and all(isinstance(x, str) for x in v):
            return ("ok", "".join(v))
        return "raise"
    if k == "len":
        return ("ok", len(v)) if isinstance(v, (str, list)) else "raise"
    if k == "const":
        return ("ok", arg)
    if k == "btif":
        return "back" if canon(v) == canon(arg) else ("ok", v)
    if k == "raiseif":
        return "raise" if canon(v) == canon(arg) else ("ok", v)
    if k == "accum":
        if isinstance(v, list) and len(v) == 2 and isinstance(v[1], list):
            return ("ok", ([] if v[0] is NO_MATCH else [v[0]]) + v[1])
        return "raise"
    if k == "skipnone":                  # the entries that are not None, in order; iterating a str gives its characters
        if isinstance(v, (list, str)):
            return ("ok", [x for x in v if x is not None])
        return "raise"
    if k == "mknum":                     # the number a literal  -?digits(.digits)?  denotes
        try:
            sign, ip, frac = v
            text = sign + ip + ("".join(frac) if frac else "")
            return ("ok", float(text) if "." in text else int(text))
        except Exception:
            return "raise"
    raise ValueError(k)


def _untok(tok):
    def go(i):
        k = tok[i]
        if k == "N":
            return None, i + 1
        if k == "X":
            return NO_MATCH, i + 1
        if k == "I":
            return int(tok[i + 1]), i + 2
        if k == "S":
            from harness.common import dec
            return dec(tok[i + 1]), i + 2
        if k == "L":
            n, j, out = int(tok[i + 1]), i + 2, []
            for _ in range(n):
                v, j = go(j)
                out.append(v)
            return out, j
        raise ValueError(k)
    return go(0)[0]


class Ref(object):
    """
    e ::= . | 'c' | [set] | e1 e2 | e1 / e2 | e* | e? | &e | !e | A     (Ford 2004), with semantic values.
    State is passed functionally: `tags` (a tuple) goes in and comes out only on success, so a failed
    alternative leaves no trace.  leaky=True makes the tag stack one global mutable list instead (used only
    to decide whether a disagreement is an instance of the known finding tag-stack-not-restored).
    A raising action aborts the parse (Abort propagates through every combinator).
    """

    def __init__(self, rules, s, leaky=False, swallow=False):
        self.rules, self.s, self.leaky, self.swallow = rules, s, leaky, swallow
        self.global_tags = []
        self.ferr = False
        self.indents = []          # dynamically scoped: WithIndent pushes for the extent of its child only

    def ev(self, t, i, tags):
        """-> (j, value, tags') or FAIL"""
        s, k = self.s, t[0]
        if self.ferr:
            return FAIL
        if k == "any":
            return (i + 1, s[i], tags) if i < len(s) else FAIL
        if k == "chr":
            return (i + 1, s[i], tags) if i < len(s) and s[i] == t[1] else FAIL
        if k == "set":
            return (i + 1, s[i], tags) if i < len(s) and s[i] in t[1] else FAIL
        if k == "eof":
            return (i, None, tags) if i == len(s) else FAIL
        if k == "str":
            out, j = [], i
            while j < len(s):
                if s[j] == "\\" and j + 1 < len(s) and s[j + 1] in t[2]:
                    out.append(s[j + 1])
                    j += 2
                elif s[j] in t[1]:
                    out.append(s[j])
                    j += 1
                else:
                    break
            return (j, "".join(out), tags) if len(out) >= t[3] else FAIL
        if k == "lit":
            n = len(t[1])
            seg = s[i:i + n]
            hit = len(seg) == n and ((seg.lower() if t[3] else seg) == t[1])
            if not hit:
                return FAIL
            return (i + n, seg if t[2] is None else t[2][0], tags)
        if k in ("seq", "lift"):
            kids = t[1] if k == "seq" else t[2]
            vals, j = [], i
            for c in kids:
                r = self.ev(c, j, tags)
                if r is FAIL:
                    return FAIL
                j, v, tags = r
                vals.append(v)
            if k == "seq":
                return (j, vals, tags)
            return self.act(t[1], vals, j, tags)
        if k == "cho":
            for c in t[1]:
                r = self.ev(c, i, tags)
                if r is not FAIL:
                    return r
            return FAIL
        if k == "many":
            vals, j = [], i
            while True:
                r = self.ev(t[1], j, tags)
                if r is FAIL:
                    break
                if r[0] == j and r[2] == tags:
                    raise Unproductive()
                j, v, tags = r
                vals.append(v)
            return (j, vals, tags) if len(vals) >= t[2] else FAIL
        if k == "until":                       # (!q p)*
            vals, j = [], i
            while True:
                if self.ev(t[2], j, tags) is not FAIL:
                    break
                r = self.ev(t[1], j, tags)
                if r is FAIL:
                    break
                if r[0] == j and r[2] == tags:
                    raise Unproductive()
                j, v, tags = r
                vals.append(v)
            return (j, vals, tags)
        if k == "opt":
            r = self.ev(t[1], i, tags)
            return r if r is not FAIL else (i, t[2][0], tags)
        if k == "fb":
            r = self.ev(t[1], i, tags)
            if r is FAIL:
                return FAIL
            q = self.ev(t[2], r[0], r[2])
            return FAIL if q is FAIL else (r[0], r[1], q[2])
        if k == "nfb":
            r = self.ev(t[1], i, tags)
            if r is FAIL:
                return FAIL
            return r if self.ev(t[2], r[0], r[2]) is FAIL else FAIL
        if k in ("kl", "kr"):
            r = self.ev(t[1], i, tags)
            if r is FAIL:
                return FAIL
            q = self.ev(t[2], r[0], r[2])
            if q is FAIL:
                return FAIL
            return (q[0], r[1] if k == "kl" else q[1], q[2])
        if k == "map":
            r = self.ev(t[2], i, tags)
            if r is FAIL:
                return FAIL
            return self.act(t[1], r[1], r[0], r[2])
        if k == "wrap":
            return self.ev(t[1], i, tags)
        if k == "pm":                          # the value with line / column (1-based) of the position it starts at
            r = self.ev(t[1], i, tags)
            if r is FAIL:
                return FAIL
            before = s[:i]
            return (r[0], RMark(before.count("\n") + 1, len(before) - (before.rfind("\n") + 1) + 1, r[1]), r[2])
        if k == "ref":
            return self.ev(self.rules[t[1]], i, tags) if t[1] < len(self.rules) else FAIL
        if k == "wi":                          # skip white space, remember the column reached while the child runs
            j = i
            while j < len(s) and s[j] in _string.whitespace:
                j += 1
            self.indents.append(j - (s.rfind("\n", 0, j) + 1))
            try:
                return self.ev(t[1], j, tags)
            finally:
                self.indents.pop()
        if k == "hs":
            # a value line (String << (EOL | EOF)) and the following lines as long as they start right of the indent
            # remembered by the innermost WithIndent; per line: text before the first '#', trailing blanks and
            # backslashes removed; joined by one blank.  Always succeeds.  What is mirrored from the code rather
            # than taken from a textbook: where it stops reading (after the white space that follows the last line it took
            # when the next line does not match; before it when the next line is not indented enough)
            line = ["kl", ["str", t[1], t[2], t[3]], ["cho", [["set", "\n\r"], ["eof"]]]]
            pos, old, parts = i, i, []
            while self.indents:
                if pos - (s.rfind("\n", 0, pos) + 1) > self.indents[-1]:
                    r = self.ev(line, pos, tags)
                    if r is FAIL:
                        break
                    if r[0] == pos:
                        raise Unproductive()
                    pos = r[0]
                    parts.append(r[1].split("#", 1)[0].rstrip(" \\"))
                else:
                    pos = old
                    break
                old = pos
                while pos < len(s) and s[pos] in _string.whitespace:
                    pos += 1
            return (pos, " ".join(parts), tags)
        if k == "stag":
            r = self.ev(t[1], i, tags)
            if r is FAIL:
                return FAIL
            if self.leaky:
                self.global_tags.append(r[1])
                return r
            return (r[0], r[1], r[2] + (r[1],))
        if k == "etag":
            r = self.ev(t[1], i, tags)
            if r is FAIL:
                return FAIL
            if self.leaky:
                if not self.global_tags:
                    return FAIL
                expect, rest = self.global_tags.pop(), r[2]
            else:
                if not r[2]:
                    return FAIL
                expect, rest = r[2][-1], r[2][:-1]
            if t[2]:
                same = isinstance(r[1], str) and isinstance(expect, str) and r[1].lower() == expect.lower()
            else:
                same = canon(r[1]) == canon(expect)
            return (r[0], r[1], rest) if same else FAIL
        raise ValueError(k)

    def act(self, fn, v, j, tags):
        r = apply_fn(fn, v)
        if r == "raise":
            if self.swallow:
                self.ferr = True
                return FAIL
            raise Abort()
        if r == "back":
            return FAIL
        return (j, r[1], tags)


class Unproductive(Exception):
    """a repetition body succeeded without consuming: the textbook semantics has no result"""


def reference(term, rules, s, leaky=False, swallow=False):
    """what the parse as a whole must report: 'value <v> <pos>' | 'perr' | 'ferr' | None (no result)"""
    ref = Ref(rules, s, leaky, swallow)
    try:
        r = ref.ev(term, 0, ())
    except Abort:
        return "ferr"
    except (Unproductive, RecursionError):
        return None
    if r is FAIL:
        return "ferr" if ref.ferr else "perr"
    return "value %s %d" % (canon(r[1]), r[0])


# --------------------------------------------------------------------------- running the implementation

class Hang(BaseException):
    pass


class StopStream(Exception):
    """the implementation hung once: do not spend 5 s on every further case"""


def _alarm(signum, frame):
    raise Hang()


signal.signal(signal.SIGALRM, _alarm)


class RecCtx(Context):
    last = None

    def __init__(self, lines, src=None):
        super(RecCtx, self).__init__(lines, src=src)
        RecCtx.last = self


def _disarm():
    while True:
        try:
            signal.setitimer(signal.ITIMER_REAL, 0, 0)
            return
        except Hang:
            continue          # the re-firing timer went off while it was being switched off


def run_impl(p, s):
    """-> (line compared with the model, summary compared with the reference)"""
    try:
        return _run_impl(p, s)
    except Hang:
        # the timer re-fires every 50 ms once it has gone off: it may do so between the handler below and the disarming
        _disarm()
        return "hang", "hang", False


def _run_impl(p, s):
    signal.setitimer(signal.ITIMER_REAL, 5.0, 0.05)      # re-fires: Choice's bare except may eat one
    try:
        data = list(s)
        data.append(None)
        ctx = Context(data)
        try:
            pos, val = p.process(0, data, ctx)
            res = "ok %d %s" % (pos, canon(val))
        except Exception:
            pos, res = None, "fail"
        ferr = ctx.function_error is not None
        tags = ",".join(canon(x) for x in reversed(ctx.tags))
        RecCtx.last = None
        try:
            v = p(s, Ctx=RecCtx)
            call = "value " + canon(v)
        except Exception:
            c = RecCtx.last
            call = "ferr" if (c is not None and c.function_error is not None) else "perr"
        cferr = RecCtx.last is not None and RecCtx.last.function_error is not None
        # WithIndent's indent is dynamically scoped: whatever happened inside, nothing of it is left when the parse is over
        # (a left-over entry is what a HangingString of a LATER alternative would measure its continuation lines against)
        left = [getattr(ctx, "indents", None), getattr(RecCtx.last, "indents", None) if RecCtx.last is not None else []]
        if any(x for x in left if x != []):
            call = "%s [indent stack left behind: %r]" % (call, left)
        if len(s) % 3 == 1:
            # __call__ takes any iterable of characters (data = list(data)): a list, a tuple, a one-shot generator and the
            # default Context must give what the str gave
            for how, arg in (("list", list(s)), ("tuple", tuple(s)), ("generator", (ch for ch in s))):
                try:
                    other = "value " + canon(p(arg, src=None) if how == "list" else p(arg))
                except Exception:
                    other = "error"
                if how == "list" and arg != list(s):
                    other = "a changed caller's list %r" % (arg[:12],)
                if (other == "error") != (not call.startswith("value")) or (other != "error" and other != call):
                    call = "%s [but %s when the same characters are given as a %s]" % (call, other, how)
                    break
    except Hang:
        return "hang", "hang", False
    finally:
        _disarm()
    line = "%s|%d|%s|%s" % (res, 1 if ferr else 0, tags, call)
    summary = (call + (" %d" % pos if call.startswith("value") and pos is not None else ""))
    return line, summary, cferr


# --------------------------------------------------------------------------- generator of grammars

ALPHA = "abc"
CONST_NAMES = sorted(CONST_TERMS)
VALS = [None, 0, 1, "", "a", "ab", [], ["a"]]
HITS = ["a", "b", "ab", ["a"], ["a", "b"], [], None, "", 1, 2, ["a", "a"]]


def consuming(s, rules=None):
    """syntactic: the term cannot succeed without consuming input (refs count as non-consuming)"""
    k = s[0]
    if k in ("any", "chr", "set"):
        return True
    if k == "str":
        return s[3] >= 1
    if k == "lit":
        return len(s[1]) >= 1
    if k in ("eof", "until", "opt", "ref", "sepby"):
        return False
    if k in ("seq",):
        return any(consuming(c) for c in s[1])
    if k == "lift":
        return any(consuming(c) for c in s[2])
    if k == "cho":
        return all(consuming(c) for c in s[1])
    if k == "many":
        return s[2] >= 1 and consuming(s[1])
    if k in ("fb", "nfb"):
        return consuming(s[1])
    if k in ("kl", "kr"):
        return consuming(s[1]) or consuming(s[2])
    if k == "map":
        return consuming(s[2])
    if k in ("wrap", "stag", "etag", "pm", "dbg", "named", "wi"):
        return consuming(s[1])
    if k == "hs":
        return False
    if k in ("const", "ecom", "olcom", "eqs"):
        return consuming(spec_term(s))
    raise ValueError(k)


class Gen(object):
    def __init__(self, rng, nrules, tags, raises):
        self.rng, self.nrules, self.tags, self.raises = rng, nrules, tags, raises

    def leaf(self):
        r = self.rng
        if getattr(self, "lib", True) and r.random() < 0.12:
            return self.lib_leaf()
        k = r.choice(["chr", "chr", "chr", "set", "any", "str", "lit", "lit", "eof"])
        if k == "chr":
            return ["chr", r.choice(ALPHA + "\n" if r.random() < 0.15 else ALPHA)]
        if k == "set":
            return ["set", "".join(sorted(set(r.choice(ALPHA) for _ in range(r.randint(1, 2)))))]
        if k == "str":
            cs = "".join(sorted(set(r.choice(ALPHA + "\\") for _ in range(r.randint(1, 2)))))
            es = r.choice(["", "", "a", "b\\"])
            return ["str", cs, es, r.choice([0, 1, 1, 2])]
        if k == "lit":
            chars = "".join(r.choice(ALPHA + "B") for _ in range(r.randint(0, 2) or 1))
            return ["lit", chars, r.choice([None, None, [r.choice(VALS)]]), r.random() < 0.3]
        return [k]

    def lib_leaf(self):
        """the ready-made parsers of the library: module-level objects (shared by every grammar of the process) and the
        derived classes EnclosedComment / OneLineComment / EmptyQuotedString"""
        r = self.rng
        k = r.choice(["const", "const", "const", "const", "ecom", "olcom", "eqs", "hs" if r.random() < 0.4 else "const"])
        if k == "hs":
            return ["hs", "".join(sorted(set(r.choice("abc #\\ ") for _ in range(r.randint(2, 5))))), r.choice(["", "", "a", "#"]),
                    r.choice([1, 1, 1, 2])]
        if k == "const":
            return ["const", r.choice(CONST_NAMES)]
        if k == "ecom":
            return ["ecom", r.choice(["a", "ab", "#", "/*"]), r.choice(["b", "ba", "c", "*/", "a"])]
        if k == "olcom":
            return ["olcom", r.choice(["a", "#", "ab", "//"])]
        return ["eqs", "".join(sorted(set(r.choice("abc'\"\\ ") for _ in range(r.randint(1, 4)))))]

    def consuming_term(self, d, guarded):
        for _ in range(20):
            t = self.term(d, guarded)
            if consuming(t):
                return t
        return ["chr", self.rng.choice(ALPHA)]

    def fn(self):
        r = self.rng
        k = r.choice(["ident", "join", "join", "len", "const", "btif", "btif", "skipnone"] + (["raiseif"] if self.raises else []))
        if k == "const":
            return ["const", r.choice(VALS)]
        if k in ("btif", "raiseif"):
            return [k, r.choice(HITS)]
        return [k]

    def term(self, d, guarded):
        """sub-terms are drawn from a small pool WITH REPETITION (the same sub-term 2-4 times in one grammar, at the same
        level and at different levels): `build(..., pool)` then uses the same Python object for every occurrence"""
        r = self.rng
        pool = self.__dict__.setdefault("pool", [])
        if pool and r.random() < 0.2:
            t, hasref, depth = r.choice(pool)
            if (guarded or not hasref) and depth <= d + 1:
                return json.loads(json.dumps(t))
        t = self._term(d, guarded)
        if len(pool) < 6 and r.random() < 0.5:
            pool.append((t, '"ref"' in json.dumps(t), d))
        return t

    def _term(self, d, guarded):
        """guarded: a Forward reference is allowed here (something was consumed since the rule was entered)"""
        r = self.rng
        if d <= 0 or r.random() < 0.12:
            if guarded and self.nrules and r.random() < 0.3:
                return ["ref", r.randrange(self.nrules)]
            return self.leaf()
        ks = ["seq", "seq", "seq", "cho", "cho", "cho", "many", "many", "until", "opt", "opt", "fb", "nfb", "nfb",
              "kl", "kr", "map", "map", "lift", "wrap", "sepby"]
        if self.tags:
            ks += ["stag", "stag", "etag", "etag", "tagpair"]
        else:
            # Mark objects compare by identity (EndTagName would compare two of them): PosMarker only in tag-free grammars
            ks += ["pm", "pm", "dbg", "named", "wi"]
        k = r.choice(ks)
        if k == "wi" and r.random() < 0.55:
            k = "seq"
        if k == "wi":
            if r.random() < 0.6:         # the shape it is made for:  WithIndent(key + Opt(sep >> HangingString))
                hs = ["hs", "".join(sorted(set("ab" + r.choice(["c", " ", "#", "\\", " #"])))), "", 1]
                return ["wi", ["seq", [self.term(d - 2, guarded), ["opt", ["kr", ["chr", r.choice("=:c")], hs], None]], "list"]]
            return ["wi", self.term(d - 1, guarded)]
        if k == "pm":
            return ["pm", self.term(d - 1, guarded)]
        if k in ("dbg", "named"):
            c = self.term(d - 1, guarded)
            if c[0] in ("const", "any", "eof", "ref"):       # module-level singletons / Forwards are left as they are
                return c
            return ["dbg", c] if k == "dbg" else ["named", c, r.choice(["n", "a name", ""])]
        if k in ("seq", "lift"):
            n = r.choice([0, 1, 2, 2, 3, 3])
            kids, g = [], guarded
            for _ in range(n):
                c = self.term(d - 1, g)
                kids.append(c)
                g = g or consuming(c)
            if k == "seq":
                return ["seq", kids, r.choice(["+", "+", "list"] + LIST_STYLES[1:] if r.random() < 0.6 else ["+", "list"])]
            l = ["lift", r.choice([["pair"], ["pair"], self.fn()]), kids]
            if l[1][0] in ("btif", "raiseif") and r.random() < 0.6:
                # a lifted function sees the LIST of its arguments: aim the trigger at a list of that length
                l[1] = [l[1][0], [r.choice(ALPHA) for _ in kids]]
            return l + [r.choice(SET_STYLES)] if r.random() < 0.2 else l
        if k == "cho":
            return ["cho", [self.term(d - 1, guarded) for _ in range(r.choice([0, 1, 2, 2, 3]))],
                    r.choice(["|", "|", "list"] + LIST_STYLES[1:] if r.random() < 0.6 else ["|", "list"])]
        if k == "many":
            return ["many", self.consuming_term(d - 1, guarded), r.choice([0, 0, 1, 1, 2])]
        if k == "until":
            u = ["until", self.consuming_term(d - 1, guarded), self.term(d - 1, guarded)]
            return u + [r.choice(SET_STYLES)] if r.random() < 0.2 else u
        if k == "opt":
            return ["opt", self.term(d - 1, guarded), r.choice([None, None] + VALS)]
        if k in ("fb", "nfb", "kl", "kr"):
            a = self.term(d - 1, guarded)
            n = [k, a, self.term(d - 1, guarded or consuming(a))]
            return n + [r.choice(SET_STYLES)] if r.random() < 0.2 else n
        if k == "map":
            return ["map", self.fn(), self.term(d - 1, guarded)]
        if k == "wrap":
            return ["wrap", self.term(d - 1, guarded)]
        if k == "sepby":
            # Many(sep >> p) must be consuming
            p = self.term(d - 1, guarded)
            sep = self.consuming_term(d - 2, guarded) if not consuming(p) else self.term(d - 2, guarded)
            return ["sepby", p, sep]
        if k == "stag":
            return ["stag", self.term(d - 1, guarded)]
        if k == "etag":
            return ["etag", self.term(d - 1, guarded), r.random() < 0.3]
        if k == "tagpair":
            name = ["set", "ab"] if r.random() < 0.7 else self.term(d - 2, guarded)
            body = self.term(d - 1, guarded or consuming(name))
            return ["seq", [["stag", name], body, ["etag", ["set", "abAB"] if r.random() < 0.7 else name, r.random() < 0.3]],
                    "list"]
        raise ValueError(k)


def sample_input(rng, t, rules, depth=0):
    """a string the term plausibly accepts"""
    k = t[0]
    if depth > 12:
        return ""
    if k == "any":
        return rng.choice(ALPHA)
    if k == "chr":
        return t[1]
    if k == "set":
        return rng.choice(t[1]) if t[1] else ""
    if k == "str":
        return "".join(rng.choice(t[1]) for _ in range(rng.randint(max(t[3], 1), 3))) if t[1] else ""
    if k == "lit":
        return t[1].upper() if (t[3] and rng.random() < 0.5) else t[1]
    if k == "eof":
        return ""
    if k in ("seq", "lift"):
        return "".join(sample_input(rng, c, rules, depth + 1) for c in (t[1] if k == "seq" else t[2]))
    if k == "cho":
        return sample_input(rng, rng.choice(t[1]), rules, depth + 1) if t[1] else ""
    if k == "many":
        return "".join(sample_input(rng, t[1], rules, depth + 1) for _ in range(rng.randint(t[2], t[2] + 2)))
    if k == "until":
        return "".join(sample_input(rng, t[1], rules, depth + 1) for _ in range(rng.randint(0, 2))) + \
            sample_input(rng, t[2], rules, depth + 1)
    if k == "opt":
        return sample_input(rng, t[1], rules, depth + 1) if rng.random() < 0.6 else ""
    if k in ("fb", "kl", "kr"):
        return sample_input(rng, t[1], rules, depth + 1) + sample_input(rng, t[2], rules, depth + 1)
    if k == "nfb":
        return sample_input(rng, t[1], rules, depth + 1)
    if k == "map":
        return sample_input(rng, t[2], rules, depth + 1)
    if k in ("wrap", "stag", "etag", "pm"):
        return sample_input(rng, t[1], rules, depth + 1)
    if k == "wi":
        return rng.choice(["", "", " ", "  ", "\n "]) + sample_input(rng, t[1], rules, depth + 1)
    if k == "hs":
        def ln():
            return "".join(rng.choice(t[1]) for _ in range(rng.randint(max(t[3], 1), 3))) if t[1] else ""
        out = ln()
        for _ in range(rng.choice([0, 0, 1, 1, 2])):
            out += rng.choice(["\n", "\n", "\r", "\n\n"]) + rng.choice(["", " ", "  ", "   "]) + ln()
        return out + rng.choice(["", "\n", "\n "])
    if k == "ref":
        return sample_input(rng, rules[t[1]], rules, depth + 3) if t[1] < len(rules) else ""
    raise ValueError(k)


def gen_grammar(rng, depth):
    nrules = rng.choice([0, 0, 1, 2])
    g = Gen(rng, nrules, tags=rng.random() < 0.2, raises=rng.random() < 0.15)
    rules = [g.term(depth - 1, False) for _ in range(nrules)]
    out = {"rules": rules, "top": g.term(depth, False)}
    if nrules and rng.random() < 0.4:
        out["fwd_styles"] = [rng.choice(["<="] + SET_STYLES) for _ in range(nrules)]
    if rng.random() < 0.3 and not re.search(r'"(wi|hs)"', json.dumps(out)):
        h = plan_history(rng, out)
        if h is not None:
            g2 = grammar_after(out, h)
            t2, r2 = intended(g2)
            h["inputs"] = gen_inputs(rng, t2, r2, 7)
            out["history"] = h
    return out


def gen_inputs(rng, term, rules, n):
    out = set([""])
    for _ in range(n * 3):
        if len(out) >= n:
            break
        m = rng.random()
        if m < 0.55:
            s = sample_input(rng, term, rules)
            if rng.random() < 0.4 and s:
                i = rng.randrange(len(s))
                s = rng.choice([s[:i] + s[i + 1:], s[:i] + rng.choice(ALPHA) + s[i:], s + rng.choice(ALPHA + "B\\"), s[:i]])
        else:
            s = "".join(rng.choice(ALPHA + "aabB\\") for _ in range(rng.randint(0, 6)))
        if rng.random() < 0.2:
            i = rng.randrange(len(s) + 1)
            s = s[:i] + rng.choice(["\n", "\n", " ", "\n\n", "\r", "1", "'", '"', "#"]) + s[i:]
        out.add(s[:16] if ("\n" in s or " " in s) else s[:10])
    return sorted(out)


# --------------------------------------------------------------------------- one grammar: impl, reference, model lines

def has_tags(t, rules):
    ks = set()
    kinds(t, ks)
    for r in rules:
        kinds(r, ks)
    return bool(ks & {"stag", "etag"})


def intended(g):
    """(term, rules) the grammar spec denotes: a tree of occurrences"""
    return spec_term(g["top"]), [spec_term(r) for r in g["rules"]]


def check_grammar(chk, g, inputs, cases, impl_lines, model_lines):
    """builds the grammar with SHARED sub-parser objects (and, as a control, with a fresh object per occurrence), reads
    the object graph back, runs implementation + reference on every input; queues the model lines.
    The model runs the INTENDED term (one child per operand occurrence), not the read-back."""
    case0 = {"kind": "term", "grammar": g, "input": inputs[0] if inputs else ""}
    term, rules = intended(g)
    try:
        top, fwd = build_grammar(g, share=True)
        hits = build_grammar.hits
        ids = dict((id(f), i) for i, f in enumerate(fwd))
        rb_term = walk(top, ids)
        rb_rules = [forward_body(f, ids, j) for j, f in enumerate(fwd)]
        fresh = build_grammar(g, share=False)[0] if hits else None
    except Shape as e:
        chk.count("structure:bad-shape")
        chk.failure("building the grammar gave an object of the wrong shape: %s; the term is %s" % (e, " ".join(tokens(term))), case0)
        return term, rules
    except Untranslatable:
        raise
    except Hang:
        raise
    except Exception as e:
        chk.failure("building the grammar raised %s: %s" % (type(e).__name__, str(e)[:200]), case0)
        return term, rules
    rtok = " ".join([str(len(rules))] + [x for r in rules for x in tokens(r)])
    ttok = " ".join(tokens(term))
    rb = " ".join([str(len(rb_rules))] + [x for r in rb_rules for x in tokens(r)]) + " // " + " ".join(tokens(rb_term))
    if rb != rtok + " // " + ttok:
        chk.count("structure:differs")
        chk.failure("the built objects read back as  %s  — the grammar is  %s  (one child per operand occurrence%s)" % (
            rb, rtok + " // " + ttok, "; %d operands are objects used before" % hits if hits else ""), case0)
    for m in set(re.findall(r'"((?:gen|iter|tuple|sharedlist:\w+|mutated:\w+|set\w+))"', json.dumps(g))):
        chk.count("route:" + m)
    if hits:
        chk.count("grammar:with-shared-objects")
        chk.count("grammar:shared-occurrences", hits)
    tagged = has_tags(term, rules)
    ks = set()
    kinds(term, ks)
    for r_ in rules:
        kinds(r_, ks)
    for k in ks:
        chk.count("node:" + k)
    # WithIndent / HangingString (the indent stack) are not in the Lean model: such grammars are held to the reference only
    oracle_only = bool(ks & {"wi", "hs"})
    if oracle_only:
        chk.count("grammar:indent-stack(reference only)")
        cases, impl_lines, model_lines = [], [], []
    for n_before, s in enumerate(inputs):
        line, summary, cferr = run_impl(top, s)
        # history: the inputs the SAME objects parsed before this one (a replay re-runs them first)
        case = {"kind": "term", "grammar": g, "input": s, "history": inputs[:n_before]}
        cases.append(case)
        impl_lines.append(line)
        model_lines.append("run\t%s\t%s\t%s\t%s" % (FUEL, rtok, ttok, enc(s)))
        chk.case((ttok, rtok, s), nontrivial=line.startswith("ok"))
        chk.count("result:" + line.split("|")[0].split(" ")[0] + ("/function-error" if cferr else ""))
        if line == "hang":
            chk.failure("the parser did not terminate within 5 s on %r" % s, case)
            cases.pop(), impl_lines.pop(), model_lines.pop()
            raise StopStream()
        if fresh is not None:
            line2 = run_impl(fresh, s)[0]
            if line2 != line:
                chk.failure("the same grammar gives %s on %r when its sub-parsers are shared objects and %s when every "
                            "occurrence is a fresh object" % (line, s, line2), case)
                continue
        want = reference(term, rules, s)
        if want is None:
            chk.count("reference:no-result")
            continue
        if want != summary:
            finding = None
            if reference(term, rules, s, leaky=True, swallow=True) == summary:
                # the two recorded deviations explain the difference; which one?
                if summary.startswith("value") and cferr:
                    finding = "function-error-swallowed"
                elif tagged:
                    finding = "tag-stack-not-restored"
            chk.failure("PEG semantics gives %s, the combinators give %s on input %r" % (want, summary, s), case, finding)
    # repeated evaluation: the second and third evaluation of the same grammar on the same input equal the first
    first = dict((c["input"], l) for c, l in zip(cases[-len(inputs):], impl_lines[-len(inputs):])) if inputs else {}
    for s in inputs[:3]:
        for n in (2, 3):
            again = run_impl(top, s)[0]
            chk.count("re-evaluation:same" if again == first.get(s) else "re-evaluation:DIFFERS")
            if s in first and again != first[s]:
                chk.failure("evaluation #%d of the same grammar object on %r gives %s, the first evaluation gave %s" % (
                    n, s, again, first[s]), {"kind": "term", "grammar": g, "input": s, "history": list(inputs) + [s] * (n - 2)})
                break
    if g.get("history"):
        phase_two(chk, g, g["history"], top, fwd, inputs, cases, impl_lines, model_lines)
    return term, rules


def phase_two(chk, g, h, top, fwd, inputs1, cases, impl_lines, model_lines):
    """BUILD -> EVALUATE (done) -> EXTEND / ADD_CHILD / REPLACE A CHILD / RE-ASSIGN A FORWARD -> EVALUATE: the second
    evaluation means the grammar AS IT IS NOW, in the larger grammar and on the changed combinator directly"""
    g2 = dict(grammar_after(g, h))
    g2.pop("history", None)
    term2, rules2 = intended(g2)
    case0 = {"kind": "term", "grammar": g, "input": (h["inputs"] or [""])[0], "phase": 2, "history": list(inputs1)}
    what = "after %s (%s)" % (h["op"], json.dumps(h.get("target", h.get("rule")))[:120])
    chk.count("history:" + h["op"])
    try:
        pool = build_grammar.pool
        tgt_spec1 = g["rules"][h["rule"]] if h["op"] == "reassign" else h["target"]
        tgt_obj = fwd[h["rule"]] if h["op"] == "reassign" else pool[json.dumps(tgt_spec1, sort_keys=True)]
        for s in inputs1[:2]:
            run_impl(tgt_obj, s)                     # the combinator has also been evaluated DIRECTLY before the step
        node = apply_history(g, h, fwd, pool)
        ids = dict((id(f), i) for i, f in enumerate(fwd))
        rb = " ".join([str(len(fwd))] + [x for j, f in enumerate(fwd) for x in tokens(forward_body(f, ids, j))]) + " // " + \
            " ".join(tokens(walk(top, ids)))
        node_term = walk(node, ids)
        shown = P.text_format(node)
    except Shape as e:
        chk.failure("%s the grammar has the wrong shape: %s" % (what, e), case0)
        return
    except Hang:
        raise
    except Exception as e:
        chk.failure("%s: the step raised %s: %s" % (what, type(e).__name__, str(e)[:200]), case0)
        return
    rtok = " ".join([str(len(rules2))] + [x for r in rules2 for x in tokens(r)])
    ttok = " ".join(tokens(term2))
    if rb != rtok + " // " + ttok:
        chk.failure("%s the built objects read back as  %s  — the grammar is now  %s" % (what, rb, rtok + " // " + ttok), case0)
    if h["op"] in ("extend", "add_child") and not re.search(r"Char\(z\)|InSet\(\['y', 'z'\]\)|Literal'zz'", shown):
        chk.failure("%s the rendering of the combinator (text_format) does not show the added operand:\n%s" % (what, shown[:300]), case0)
    tagged = has_tags(term2, rules2)
    ntok = " ".join(tokens(node_term))
    for n_before, s in enumerate(h["inputs"]):
        for obj, tk, tm in ((top, ttok, term2), (node, ntok, node_term)):
            if obj is node and n_before >= 3:
                continue
            line, summary, cferr = run_impl(obj, s)
            case = {"kind": "term", "grammar": g, "input": s, "phase": 2, "history": list(inputs1)}
            cases.append(case)
            impl_lines.append(line)
            model_lines.append("run\t%s\t%s\t%s\t%s" % (FUEL, rtok, tk, enc(s)))
            chk.case((tk, rtok, s, 2), nontrivial=line.startswith("ok"))
            chk.count("phase2:" + line.split("|")[0].split(" ")[0])
            if line == "hang":
                chk.failure("%s the parser did not terminate within 5 s on %r" % (what, s), case)
                cases.pop(), impl_lines.pop(), model_lines.pop()
                raise StopStream()
            want = reference(tm, rules2, s)
            if want is not None and want != summary:
                finding = None
                if reference(tm, rules2, s, leaky=True, swallow=True) == summary:
                    if summary.startswith("value") and cferr:
                        finding = "function-error-swallowed"
                    elif tagged:
                        finding = "tag-stack-not-restored"
                chk.failure("%s PEG semantics of the grammar as it is now gives %s, the combinators give %s on input %r" % (
                    what, want, summary, s), case, finding)


# --------------------------------------------------------------------------- JSON

def same_json(a, b):
    if type(a) is not type(b):
        return False
    if isinstance(a, dict):
        return list(a.keys()) == list(b.keys()) and all(same_json(a[k], b[k]) for k in a)
    if isinstance(a, list):
        return len(a) == len(b) and all(same_json(x, y) for x, y in zip(a, b))
    if isinstance(a, float):
        return repr(a) == repr(b)
    return a == b


STR_ALPHA = "abzAZ09 _-.:,[]{}#'/!*+"


def gen_json(rng, d, ws_quirks):
    def ws():
        return rng.choice(["", "", "", " ", "  ", "\n", "\t ", "\r\n"])

    def string():
        return '"' + "".join(rng.choice(STR_ALPHA) for _ in range(rng.randint(1, 6))) + '"'

    def number():
        i = rng.choice(["0", str(rng.randint(1, 9)), str(rng.randint(10, 99999)), "1" + "0" * rng.randint(1, 12),
                        # integers no double represents exactly (beyond 2**53) and long digit strings: json.loads keeps them exact
                        str(2 ** 53 + rng.randint(1, 99)), str(rng.randint(10 ** 17, 10 ** 25)),
                        "".join(rng.choice("123456789") for _ in range(rng.randint(16, 30)))])
        s = ("-" if rng.random() < 0.3 else "") + i
        if rng.random() < 0.35:
            s += "." + "".join(rng.choice("0123456789") for _ in range(rng.choice([1, 2, 3, 4, 17, 25])))
        return s

    def value(d):
        k = rng.choice(["num", "num", "str", "str", "true", "false", "null", "arr", "arr", "obj", "obj"] if d > 0 else
                       ["num", "str", "true", "false", "null", "zero"])
        if k == "num":
            return number()
        if k == "zero":
            return rng.choice(["0", "0.0", "-0", '"0"'])
        if k == "str":
            return string()
        if k in ("true", "false", "null"):
            return k
        n = rng.choice([0, 1, 1, 2, 3])
        if k == "arr":
            if n == 0:
                return "[" + (rng.choice([" ", "\n"]) if ws_quirks else "") + "]"
            return "[" + ",".join(ws() + value(d - 1) + ws() for _ in range(n)) + "]"
        if n == 0:
            return "{" + (rng.choice([" ", "\n"]) if ws_quirks else "") + "}"
        keys = [string() for _ in range(n)]
        if n > 1 and rng.random() < 0.1:
            keys[1] = keys[0]
        return "{" + ",".join(ws() + k_ + (rng.choice([" ", "\t"]) if ws_quirks and rng.random() < 0.5 else "") + ":" +
                              ws() + value(d - 1) + ws() for k_ in keys) + "}"
    return ws() + value(d) + ws()


RE_EMPTY_WS = re.compile(r"[\[{]\s+[\]}]")
RE_WS_COLON = re.compile(r'"[ \t\r\n]+:')
RE_LEAD_SEP = re.compile(r"[\[{]\s*,")
RE_LEAD_ZERO = re.compile(r"(?<![\d.])-?0\d")


JSON_HISTORY = []     # the last documents the (one, module-level) JSON grammar object parsed in this process


def json_impl(doc, record=True):
    if record:
        JSON_HISTORY.append(doc)
        del JSON_HISTORY[:-13]
    try:
        return ("ok", json_parser.loads(doc))
    except Exception:
        return ("error", None)


def json_ref(doc):
    try:
        return ("ok", json.loads(doc))
    except ValueError:
        return ("error", None)


def json_case(chk, doc, origin):
    a, b = json_impl(doc), json_ref(doc)
    ok = a[0] == b[0] and (a[0] == "error" or same_json(a[1], b[1]))
    chk.count("json:%s:%s" % (origin, "agree-" + a[0] if ok else "differ"))
    if ok:
        return True
    finding = None
    if b[0] == "ok" and a[0] == "error":
        if RE_EMPTY_WS.search(doc):
            finding = "json-empty-container-whitespace"
        elif RE_WS_COLON.search(doc):
            finding = "json-whitespace-before-colon"
    elif b[0] == "error" and a[0] == "ok":
        if RE_LEAD_SEP.search(doc):
            finding = "json-leading-separator"
        elif RE_LEAD_ZERO.search(doc):
            finding = "json-leading-zero"
    chk.failure("JSON grammar gives %r, json.loads gives %r on %r" % (a, b, doc),
                {"kind": "json", "doc": doc, "history": list(JSON_HISTORY[:-1])}, finding)
    return False


# --------------------------------------------------------------------------- tag expressions

TAGS = ["a", "b", "c1", "net work"]


def gen_expr(rng, d):
    if d <= 0 or rng.random() < 0.25:
        return ("tag", rng.choice(TAGS)) if rng.random() < 0.85 else ("re", rng.choice(["net", "c", "a", "work"]))
    k = rng.choice(["not", "and", "and", "or", "or"])
    if k == "not":
        return ("not", gen_expr(rng, d - 1))
    return (k, gen_expr(rng, d - 1), gen_expr(rng, d - 1))


def render(rng, e, ctx):
    """ctx: 0 = or-level, 1 = and-level, 2 = operand of '!'; parentheses only where the stated precedence needs them"""
    def sp():
        return rng.choice(["", "", " ", "  "])
    k = e[0]
    if k == "tag":
        name = e[1]
        return sp() + (('"%s"' % name) if (" " in name or rng.random() < 0.15) else name) + sp()
    if k == "re":
        return sp() + "/" + e[1] + " " + sp()
    if k == "not":
        inner = e[1]
        if inner[0] == "tag":
            body = render(rng, inner, 2).strip()
            return sp() + "!" + body + sp()
        if inner[0] == "re":
            return sp() + "!/" + inner[1] + " " + sp()
        return sp() + "!(" + render(rng, inner, 0) + ")" + sp()
    if k == "and":
        s = render(rng, e[1], 1) + "&" + render(rng, e[2], 1)
        # the right operand of a left-associative chain needs no parentheses for an associative operator
        return s if ctx <= 1 else "(" + s + ")"
    s = render(rng, e[1], 0) + rng.choice(["|", ","]) + render(rng, e[2], 0)
    if ctx >= 1 or rng.random() < 0.1:
        return sp() + "(" + s + ")" + sp()
    return s


def eval_expr(e, tags):
    k = e[0]
    if k == "tag":
        return e[1] in tags
    if k == "re":
        return any(e[1] in t for t in tags)
    if k == "not":
        return not eval_expr(e[1], tags)
    if k == "and":
        return eval_expr(e[1], tags) and eval_expr(e[2], tags)
    return eval_expr(e[1], tags) or eval_expr(e[2], tags)


def tagsets():
    for n in range(len(TAGS) + 1):
        for c in itertools.combinations(TAGS + ["network"], n):
            yield list(c)


def tag_case(chk, text, e):
    try:
        pred = taglang.parse(text)
    except Exception:
        chk.count("taglang:rejected")
        chk.failure("the tag-expression grammar rejects %r" % text, {"kind": "taglang", "text": text, "expr": e})
        return False
    for ts in tagsets():
        got, want = pred(ts), eval_expr(e, ts)
        if got is not want:
            chk.failure("tag expression %r on %r: grammar gives %r, boolean evaluation gives %r" % (text, ts, got, want),
                        {"kind": "taglang", "text": text, "expr": e, "tags": ts})
            chk.count("taglang:differ")
            return False
    chk.count("taglang:agree")
    return True


# --------------------------------------------------------------------------- operators: every grouping builds the documented term

import ast as _ast

PREC = {"*": 13, "/": 13, "%": 13, "+": 12, "<<": 11, ">>": 11, "&": 10, "|": 8}
AST_BIN = {_ast.Add: "+", _ast.BitOr: "|", _ast.LShift: "<<", _ast.RShift: ">>", _ast.BitAnd: "&", _ast.Div: "/",
           _ast.Mult: "*"}
OP_FNS = [["ident"], ["join"], ["len"], ["const", "k"], ["btif", ["a", "b"]], ["btif", "a"]]


class OpGen(object):
    """random Python EXPRESSIONS over leaf parsers L0…, spelled with the operators and explicit parentheses in every
    association; the grouping is whatever Python's own parser says (ast), not what this generator intended"""

    def __init__(self, rng):
        self.rng = rng
        g = Gen(rng, 0, tags=False, raises=False)
        g.lib = False       # the module-level parsers are shared by the whole process: `Number * x` would extend the library's own Lift
        self.leaves = []
        for _ in range(rng.randint(3, 5)):
            for _ in range(30):
                l = g.leaf()
                if l[0] != "eof" and not (l[0] == "lit" and l[3]):
                    break
            self.leaves.append(l)
        if not any(consuming(l) for l in self.leaves):
            self.leaves.append(["chr", "a"])
        self.cleaves = [i for i, l in enumerate(self.leaves) if consuming(l)]
        # shared SUB-TERM objects S0…: each is built once and then used wherever its name occurs
        self.shared = []            # [name, expression text]
        self.shared_cons = {}
        for i in range(rng.choice([0, 1, 1, 2, 3])):
            cons = rng.random() < 0.5
            text, _ = self.expr(rng.choice([1, 1, 2]), cons)
            self.shared.append(["S%d" % i, text])
            self.shared_cons["S%d" % i] = cons

    def atom(self, cons):
        r = self.rng
        names = [n for n, _ in self.shared if self.shared_cons[n] or not cons]
        if names and r.random() < 0.35:
            return r.choice(names)
        if cons or r.random() < 0.8:
            return "L%d" % (r.choice(self.cleaves) if cons else r.randrange(len(self.leaves)))
        return r.choice(["Opt(L%d)" % r.randrange(len(self.leaves)), "Opt(L%d, %r)" % (r.randrange(len(self.leaves)), r.choice(VALS[1:])),
                         "Many(L%d)" % r.choice(self.cleaves), "EOF"])

    def wrap(self, s, prec, need):
        """parenthesise when Python needs it, and half of the time when it does not"""
        if prec < need or (prec < 20 and self.rng.random() < 0.5):
            return "(" + s + ")"
        return s

    def expr(self, d, cons=False):
        """-> (text, precedence of its top operator); cons: must not succeed without consuming"""
        r = self.rng
        if d <= 0 or r.random() < 0.1:
            return self.atom(cons), 20
        k = r.choice(["+", "+", "+", "+", "|", "|", "|", "<<", ">>", "&", "/", "chain+", "chain|", "rnest+", "rnest|",
                      "map", "sep_by", "until", "Many", "Opt", "Wrapper", "Sequence", "Choice", "Lift", "%"])
        if k in ("chain+", "chain|", "rnest+", "rnest|"):
            op = k[-1]
            n = r.randint(3, 4)
            parts = [self.expr(d - 1, cons and (op == "|" or i == 0)) for i in range(n)]
            if k.startswith("chain"):          # a + b + c  /  (a + b) + c
                s = self.wrap(parts[0][0], parts[0][1], PREC[op])
                for t, pr in parts[1:]:
                    s = s + " " + op + " " + self.wrap(t, pr, PREC[op] + 1)
                    if r.random() < 0.3:
                        s = "(" + s + ")"
                return s, (20 if s.endswith(")") and s.startswith("(") and r.random() < 0 else PREC[op])
            s = self.wrap(parts[-1][0], parts[-1][1], PREC[op] + 1)    # a + (b + (c + d))
            for t, pr in reversed(parts[:-1]):
                s = self.wrap(t, pr, PREC[op]) + " " + op + " (" + s + ")"
            return s, PREC[op]
        if k in PREC and k != "%":
            if k == "|":
                a, b = self.expr(d - 1, cons), self.expr(d - 1, cons)
            else:
                a, b = self.expr(d - 1, cons), self.expr(d - 1, False)
            return self.wrap(a[0], a[1], PREC[k]) + " " + k + " " + self.wrap(b[0], b[1], PREC[k] + 1), PREC[k]
        if k == "%":
            a = self.expr(d - 1, cons)
            return self.wrap(a[0], a[1], 13) + " %% 'n%d'" % r.randrange(9), 13
        if k == "map":
            a = self.expr(d - 1, cons)
            return "(%s).map(F%d)" % (a[0], r.randrange(len(OP_FNS))), 20
        if k == "sep_by" and not cons:
            a, b = self.expr(d - 1, True), self.expr(d - 1, False)
            return "(%s).sep_by(%s)" % (a[0], b[0]), 20
        if k == "until" and not cons:
            a, b = self.expr(d - 1, True), self.expr(d - 1, False)
            return "(%s).until(%s)" % (a[0], b[0]), 20
        if k == "Many":
            a = self.expr(d - 1, True)
            return ("Many(%s, lower=%d)" % (a[0], r.choice([1, 1, 2])) if cons or r.random() < 0.5 else "Many(%s)" % a[0]), 20
        if k == "Opt" and not cons:
            a = self.expr(d - 1, False)
            return "Opt(%s, %r)" % (a[0], r.choice(VALS)), 20
        if k == "Wrapper":
            return "Wrapper(%s)" % self.expr(d - 1, cons)[0], 20
        if k in ("Sequence", "Choice"):
            n = r.randint(1, 3)
            kids = [self.expr(d - 1, cons and (k == "Choice" or i == 0))[0] for i in range(n)]
            form = r.choice(["%s([%s])", "%s([%s])", "%s(iter([%s]))", "%s((%s,))", "%s(c for c in [%s])"])
            return form % (k, ", ".join(kids)), 20
        if k == "Lift":
            n = r.randint(1, 3)
            s = "Lift(G%d)" % r.randrange(len(OP_FNS) + 1)
            for i in range(n):
                a = self.expr(d - 1, cons and i == 0)
                s += " * " + self.wrap(a[0], a[1], 14)
            return s, 13
        return self.atom(cons), 20


def op_spec(node):
    """Python's own parse of the expression -> the operator tree (JSON-able)"""
    if isinstance(node, _ast.Name):
        return ["leaf", node.id]
    if isinstance(node, _ast.BinOp):
        if isinstance(node.op, _ast.Mod):
            return ["%", op_spec(node.left)]
        return ["bin", AST_BIN[type(node.op)], op_spec(node.left), op_spec(node.right)]
    if isinstance(node, _ast.Call):
        f = node.func
        if isinstance(f, _ast.Attribute):
            if f.attr == "map":
                return [".map", node.args[0].id, op_spec(f.value)]
            return ["." + f.attr, op_spec(f.value), op_spec(node.args[0])]
        if f.id == "Many":
            lower = node.keywords[0].value.value if node.keywords else 0
            return ["Many", op_spec(node.args[0]), lower]
        if f.id == "Opt":
            return ["Opt", op_spec(node.args[0]), [_ast.literal_eval(node.args[1])] if len(node.args) > 1 else [None]]
        if f.id == "Wrapper":
            return ["Wrapper", op_spec(node.args[0])]
        if f.id in ("Sequence", "Choice"):
            arg = node.args[0]
            if isinstance(arg, _ast.Call) and getattr(arg.func, "id", None) == "iter":
                arg = arg.args[0]                                  # iter([...])
            if isinstance(arg, _ast.GeneratorExp):
                arg = arg.generators[0].iter                       # c for c in [...]
            return [f.id, [op_spec(e) for e in arg.elts]]        # a list or a tuple display
        if f.id == "Lift":
            return ["Lift", node.args[0].id]
    raise ValueError("expression form outside the generator: %s" % _ast.dump(node))


def spec_kind(sp, shared_specs):
    """which accumulating class the expression's value is: 'seq' / 'cho' / 'lift' / None"""
    k = sp[0]
    if k == "%":
        return spec_kind(sp[1], shared_specs)
    if k == "leaf":
        return spec_kind(shared_specs[sp[1]], shared_specs) if sp[1] in shared_specs else None
    if k == "bin":
        return {"+": "seq", "|": "cho", "*": "lift"}.get(sp[1])
    return {"Sequence": "seq", "Choice": "cho", "Lift": "lift"}.get(k)


def aliases_left(sp, shared_specs):
    """a SHARED Sequence / Choice / Lift object as the LEFT operand of its own accumulating operator: the operator would
    mutate the shared object (the documented caveat of __add__ / __or__: "use a Wrapper") — outside the term semantics"""
    k = sp[0]
    if k == "bin":
        l = sp[2]
        while l[0] == "%":
            l = l[1]
        if l[0] == "leaf" and l[1] in shared_specs and spec_kind(l, shared_specs) == {"+": "seq", "|": "cho", "*": "lift"}.get(sp[1]):
            return True
        return aliases_left(sp[2], shared_specs) or aliases_left(sp[3], shared_specs)
    return any(aliases_left(x, shared_specs) for x in op_children(sp))


def op_children(sp):
    k = sp[0]
    if k in ("%", "Many", "Opt", "Wrapper"):
        return [sp[1]]
    if k == "bin":
        return [sp[2], sp[3]]
    if k == ".map":
        return [sp[2]]
    if k in (".sep_by", ".until"):
        return [sp[1], sp[2]]
    if k in ("Sequence", "Choice"):
        return list(sp[1])
    return []


OP_KINDS = {"leaf", "%", "bin", ".map", ".sep_by", ".until", "Many", "Opt", "Wrapper", "Sequence", "Choice", "Lift"}


def op_env(leaves):
    """fresh objects for one evaluation (Sequence.__add__ / Choice.__or__ / Lift.__mul__ mutate their left operand)"""
    env = {"Many": Many, "Opt": Opt, "Wrapper": Wrapper, "Sequence": Sequence, "Choice": Choice, "Lift": Lift, "EOF": P.EOF,
           "iter": iter}
    for i, l in enumerate(leaves):
        env["L%d" % i] = build(l, [])
    for i, f in enumerate(OP_FNS):
        env["F%d" % i] = fn_map(f)
        env["G%d" % i] = fn_lift(f)
    env["G%d" % len(OP_FNS)] = fn_lift(["pair"])
    return env


def doc_term(sp, env):
    """the term the DOCUMENTATION says the expression builds (parsr/__init__.py docstrings of __add__, __or__, Sequence,
    Choice, Lift): `+` / `|` accumulate onto a Sequence / Choice on the LEFT only; everything else nests"""
    k = sp[0]
    if k == "leaf":
        if sp[1] in env.get("#shared", {}):
            return doc_term(env["#shared"][sp[1]], env)       # every occurrence of a shared object is its own sub-tree
        return walk(env[sp[1]], {})
    if k == "%":
        return doc_term(sp[1], env)
    if k == "bin":
        a, b = doc_term(sp[2], env), doc_term(sp[3], env)
        op = sp[1]
        if op == "+":
            return ["seq", a[1] + [b]] if a[0] == "seq" else ["seq", [a, b]]
        if op == "|":
            return ["cho", a[1] + [b]] if a[0] == "cho" else ["cho", [a, b]]
        if op == "*":
            if a[0] != "lift":
                raise ValueError("* on a non-Lift")
            return ["lift", a[1], a[2] + [b]]
        return [{"<<": "kl", ">>": "kr", "&": "fb", "/": "nfb"}[op], a, b]
    if k == ".map":
        return ["map", fn_tokens(env[sp[1]]), doc_term(sp[2], env)]
    if k == ".sep_by":
        a, b = doc_term(sp[1], env), doc_term(sp[2], env)
        return ["lift", ["accum"], [["opt", a, [NO_MATCH]], ["many", ["kr", b, a], 0]]]
    if k == ".until":
        return ["until", doc_term(sp[1], env), doc_term(sp[2], env)]
    if k == "Many":
        return ["many", doc_term(sp[1], env), sp[2]]
    if k == "Opt":
        return ["opt", doc_term(sp[1], env), [sp[2][0]]]
    if k == "Wrapper":
        return ["wrap", doc_term(sp[1], env)]
    if k == "Sequence":
        return ["seq", [doc_term(x, env) for x in sp[1]]]
    if k == "Choice":
        return ["cho", [doc_term(x, env) for x in sp[1]]]
    if k == "Lift":
        return ["lift", fn_tokens(env[sp[1]]), []]
    raise ValueError(k)


def op_tokens(sp, env):
    """the operator tree for the driver (`ops`): leaves as terms, operators as themselves"""
    k = sp[0]
    if k == "leaf":
        if sp[1] in env.get("#shared", {}):
            return op_tokens(env["#shared"][sp[1]], env)
        return tokens(walk(env[sp[1]], {}))
    if k == "%":
        return ["%"] + op_tokens(sp[1], env)
    if k == "bin":
        return [sp[1]] + op_tokens(sp[2], env) + op_tokens(sp[3], env)
    if k == ".map":
        return [".map"] + fn_tokens(env[sp[1]]) + op_tokens(sp[2], env)
    if k in (".sep_by", ".until"):
        return [k] + op_tokens(sp[1], env) + op_tokens(sp[2], env)
    if k == "Many":
        return ["Many", str(sp[2])] + op_tokens(sp[1], env)
    if k == "Opt":
        return ["Opt"] + val_tokens(sp[2][0]) + op_tokens(sp[1], env)
    if k == "Wrapper":
        return ["Wrapper"] + op_tokens(sp[1], env)
    if k in ("Sequence", "Choice"):
        out = [k, str(len(sp[1]))]
        for x in sp[1]:
            out += op_tokens(x, env)
        return out
    if k == "Lift":
        return ["Lift"] + fn_tokens(env[sp[1]])
    raise ValueError(k)


def construct(t, fns):
    """walker-form term -> real objects through the CLASS CONSTRUCTORS only (no operator, no helper method)"""
    k = t[0]
    if k == "any":
        return P.AnyChar
    if k == "eof":
        return P.EOF
    if k == "chr":
        return Char(t[1])
    if k == "set":
        return InSet(t[1])
    if k == "str":
        return String(t[1], t[2] or None, t[3])
    if k == "lit":
        return Literal(t[1], ignore_case=t[3]) if t[2] is None else Literal(t[1], value=t[2][0], ignore_case=t[3])
    if k == "seq":
        return Sequence([construct(c, fns) for c in t[1]])
    if k == "cho":
        return Choice([construct(c, fns) for c in t[1]])
    if k == "many":
        return Many(construct(t[1], fns), lower=t[2])
    if k == "until":
        return Until(construct(t[1], fns), construct(t[2], fns))
    if k == "opt":
        return Opt(construct(t[1], fns), t[2][0])
    two = {"fb": FollowedBy, "nfb": NotFollowedBy, "kl": KeepLeft, "kr": KeepRight}
    if k in two:
        return two[k](construct(t[1], fns), construct(t[2], fns))
    if k == "map":
        return Map(construct(t[2], fns), fns[("F",) + tuple(t[1])])
    if k == "lift":
        p = Lift(getattr(Parser, "_accumulate") if t[1] == ["accum"] else fns[("G",) + tuple(t[1])])
        p.set_children([construct(c, fns) for c in t[2]])
        return p
    if k == "wrap":
        return Wrapper(construct(t[1], fns))
    raise ValueError(k)


def op_case(chk, expr, leaves, n_inputs, cases, impl_lines, model_lines, rng=None, inputs=None, shared=()):
    """one operator expression: build it with the operators (leaf and shared sub-term OBJECTS used wherever their name
    occurs), build the documented term with the constructors (a fresh object per occurrence), read both object graphs
    back, compare structure and values; queue the model line.  Returns False when the expression is outside the term
    semantics (a shared accumulating object on the left of its own operator)."""
    shared_specs = {}
    for name, text in shared:
        shared_specs[name] = op_spec(_ast.parse(text, mode="eval").body)
    sp = op_spec(_ast.parse(expr, mode="eval").body)
    if aliases_left(sp, shared_specs) or any(aliases_left(x, shared_specs) for x in shared_specs.values()):
        return False
    case = {"kind": "operators", "expr": expr, "leaves": leaves, "shared": [list(x) for x in shared], "input": (inputs or [""])[0]}
    env2 = op_env(leaves)
    env2["#shared"] = shared_specs
    t_doc = doc_term(sp, env2)
    dtok = " ".join(tokens(t_doc))
    where = "%s (leaves %s%s)" % (expr, json.dumps(leaves), "; shared objects " + "; ".join("%s = %s" % tuple(x) for x in shared) if shared else "")
    try:
        env = op_env(leaves)
        scope = {"__builtins__": {}}
        for name, text in shared:
            env[name] = eval(text, scope, env)
        real_op = eval(expr, scope, env)
        t_op = walk(real_op, {})
        fns = {}
        for name, f in env2.items():
            if name[0] in "FG" and name[1:].isdigit():
                fns[(name[0],) + tuple(fn_tokens(f))] = f
        real_ctor = construct(t_doc, fns)
        t_ctor = walk(real_ctor, {})
    except Shape as e:
        chk.count("operators:bad-shape")
        chk.failure("the operator expression %s built an object of the wrong shape: %s; the documented term is  %s" % (where, e, dtok), case)
        return True
    except Untranslatable:
        raise
    except Hang:
        raise
    except Exception as e:
        chk.failure("evaluating the operator expression %s raised %s: %s" % (where, type(e).__name__, str(e)[:200]), case)
        return True
    if tokens(t_ctor) != tokens(t_doc):
        chk.count("operators:constructors-differ")
        chk.failure("the class constructors given the operands of  %s  built  %s  (one child per operand occurrence is documented)" % (
            dtok, " ".join(tokens(t_ctor))), case)
        return True
    same = tokens(t_op) == tokens(t_doc)
    chk.count("operators:structure-" + ("as-documented" if same else "DIFFERS"))
    if shared or len(set(_ast.dump(n) for n in _ast.walk(_ast.parse(expr)) if isinstance(n, _ast.Name) and n.id[0] in "LS")) < \
            sum(1 for n in _ast.walk(_ast.parse(expr)) if isinstance(n, _ast.Name) and n.id[0] in "LS"):
        chk.count("operators:with-repeated-objects")
    ks = set()
    kinds(t_doc, ks)
    for k in ks:
        chk.count("opnode:" + k)
    if inputs is None:
        inputs = gen_inputs(rng, t_doc, [], n_inputs)
    value_diff = None
    otok = " ".join(op_tokens(sp, env2))
    rtok = " ".join(tokens(t_op))
    for n_before, s in enumerate(inputs):
        l_op, sum_op, cferr = run_impl(real_op, s)
        l_ct, sum_ct, _ = run_impl(real_ctor, s)
        c = dict(case, input=s, history=list(inputs[:n_before]))
        cases.append(c)
        impl_lines.append("same=1|" + l_op)
        model_lines.append("ops\t%s\t%s\t%s" % (otok, rtok, enc(s)))
        chk.case(("ops", expr, tuple(map(str, leaves)), tuple(map(str, shared)), s), nontrivial=l_op.startswith("ok"))
        if l_op == "hang" or l_ct == "hang":
            chk.failure("the parser built by %s did not terminate on %r" % (where, s), c)
            cases.pop(), impl_lines.pop(), model_lines.pop()
            raise StopStream()
        want = reference(t_doc, [], s)
        if l_op != l_ct and value_diff is None:
            value_diff = (s, l_op, l_ct)
        elif want is not None and want != sum_op:
            if sum_op.startswith("value") and cferr and reference(t_doc, [], s, leaky=True, swallow=True) == sum_op:
                chk.failure("function error swallowed in %s on %r" % (expr, s), c, "function-error-swallowed")
            elif value_diff is None:
                value_diff = (s, sum_op, want)
    if value_diff is not None:
        chk.failure("the operator expression %s returns %s on input %r; the documented term  %s  (built with a fresh object "
                    "per operand occurrence) returns %s" % (where, value_diff[1], value_diff[0], dtok, value_diff[2]),
                    dict(case, input=value_diff[0], history=list(inputs[:inputs.index(value_diff[0])])))
    elif not same:
        chk.failure("the operator expression %s builds the term  %s  — the documentation says  %s  "
                    "(no value difference on the %d inputs tried)" % (where, " ".join(tokens(t_op)), dtok, len(inputs)),
                    dict(case, input=inputs[0]))
    return True


def operators_stream(chk, n_exprs, n_inputs):
    rng = chk.rng
    cases, impl_lines, model_lines = [], [], []
    corpus = json.load(open(os.path.join(VERIF, "corpus", "C19", "operators.json")))
    try:
        for e in corpus["expressions"]:
            op_case(chk, e["expr"], e["leaves"], n_inputs, cases, impl_lines, model_lines, inputs=e["inputs"],
                    shared=e.get("shared", []))
        for i in range(n_exprs):
            for _ in range(6):
                g = OpGen(rng)
                expr, _ = g.expr(rng.choice([1, 2, 2, 3, 3, 4]))
                if op_case(chk, expr, g.leaves, n_inputs, cases, impl_lines, model_lines, rng=rng, shared=g.shared):
                    break
                chk.count("operators:skipped-shared-accumulator-on-the-left")
            if i in (2, 40):
                chk.sample({"operator-expression": expr, "leaves": g.leaves, "shared": g.shared, "impl": impl_lines[-1], "model-line": model_lines[-1][:300]})
    except StopStream:
        chk.count("operators:stopped-after-hang")
    if model_lines:
        model = run_driver("C19", model_lines)
        bad_wf = sum(1 for m in model if not m.endswith("|wf=1"))
        if bad_wf:
            chk.count("operators:not-WellFormed", bad_wf)
        model = [m.rsplit("|wf=", 1)[0] for m in model]
        chk.compare("operators-vs-model", cases, impl_lines, model)


# --------------------------------------------------------------------------- witnesses

# --------------------------------------------------------------------------- INI documents (insights/parsr/iniparser.py)
# the real user of PosMarker / WithIndent / HangingString / OneLineComment / skip_none: generated documents in a sub-language
# whose meaning needs no grammar (keys start in column 0, continuation lines are indented, comments are whole lines or follow
# ' #'), read line by line by `ini_reference` and by iniparser.parse_doc; compared: sections, keys, values and LINE NUMBERS.

INI_WORDS = ["a", "b1", "key", "name", "x.y", "long_key", "k-2", "Key", "url", "path", "opt 1"]
INI_VALS = ["v", "1", "val one", "/usr/bin", "a=b", "x:y", "10.0.0.1", "p q  r", "[x", "yesterday", "nope", "0", "a;b"]
INI_BOOL = {"yes": True, "no": False, "true": True, "false": False}
# outside the sub-language (suspected defect, not part of C19's statement): a value that BEGINS with a boolean word followed by
# a blank — `key = yes please` is read as key = True plus a directive `please`, since Boolean is (Yes|No|Tru|Fals) & (WSChar | LineEnd)


def gen_ini(rng):
    lines, n_sec = [], rng.randint(1, 4)
    for _ in range(rng.choice([0, 0, 1, 2])):
        lines.append(rng.choice(["# top comment", "; semi", "", "  # indented comment"]))
    for si in range(n_sec):
        name = "DEFAULT" if rng.random() < 0.15 else rng.choice(["main", "sec 2", "s%d" % si, "a.b", "Sec-%d" % si, "x"])
        lines.append(rng.choice(["[%s]", "[%s]", "[ %s ]", "[%s]  ", " [%s]"]) % name)
        for _ in range(rng.choice([0, 1, 2, 2, 3, 4])):
            m = rng.random()
            key = rng.choice(INI_WORDS)
            sep = rng.choice([" = ", "=", ": ", ":", " =  ", "\t=\t"])
            if m < 0.1:
                lines.append(rng.choice(["# note", "; note = 1", ""]))
            elif m < 0.2:
                lines.append(key)                                      # a key without a value
            elif m < 0.3:
                w = rng.choice(sorted(INI_BOOL))
                lines.append(key + sep + rng.choice([w, w.upper(), w.capitalize()]) + rng.choice(["", " ", "\t"]))
            elif m < 0.37:
                lines.append(key + rng.choice([" =", "=", ":"]))      # an empty value (the next line is not indented)
                lines.append(rng.choice(["# after empty", "z = 1"]))
            else:
                lines.append(key + sep + rng.choice(INI_VALS) + rng.choice(["", "", " # inline", "  ", " \\"]))
                for _ in range(rng.choice([0, 0, 0, 1, 2])):
                    lines.append(rng.choice([" ", "  ", "\t", "    "]) + rng.choice(INI_VALS + ["k = v", "# c"]) + rng.choice(["", " \\", " # x"]))
                if rng.random() < 0.15:
                    lines.append("")
    return "\n".join(lines) + rng.choice(["\n", "", "\n\n", "\n  "])


def ini_reference(text, return_defaults=False, return_booleans=True):
    """[(section, line, [(key, [value]|[], line)])], read line by line; None = not in the sub-language"""
    def clean(x):
        return x.split("#", 1)[0].rstrip(" \\")
    secs, cur, last = [], None, None
    for no, raw in enumerate(text.split("\n"), 1):
        ln = raw.strip()
        if not ln:
            last = None if not raw.strip() and cur is None else last
            continue
        if raw[0] in " \t" and last is not None and last[1]:
            last[1][0] = last[1][0] + " " + clean(raw.lstrip())      # a continuation line of the last value
            continue
        if ln[0] in "#;":
            last = None                      # a comment line in column 0 ends the value above it
            continue
        if ln[0] == "[":
            if not ln.endswith("]"):
                return None
            cur = [ln[1:-1].strip(), no, []]
            secs.append(cur)
            last = None
            continue
        if cur is None or raw[0] in " \t":
            return None
        i = min([j for j in (ln.find("="), ln.find(":")) if j >= 0] or [-1])
        if i < 0:
            last = [ln, [], no]
        else:
            val = raw.lstrip()[i + 1:].lstrip()          # trailing tabs stay: only blanks and backslashes are removed
            if return_booleans and val.rstrip(" \t").lower() in INI_BOOL:
                last = [ln[:i].strip(), [INI_BOOL[val.rstrip(" \t").lower()]], no]
                cur[2].append(last)
                last = None
                continue
            last = [ln[:i].strip(), [clean(val)], no]
        cur[2].append(last)
    out = [[n, l, [tuple([k, list(v), kl]) for k, v, kl in ds]] for n, l, ds in secs]
    if any(n == "DEFAULT" for n, _, _ in out):
        dflt = [d for n, _, ds in out if n == "DEFAULT" for d in ds]
        for sec in out:
            if sec[0] != "DEFAULT":
                for d in dflt:
                    if d[0] not in [k for k, _, _ in sec[2]]:
                        sec[2].append(d)
        if not return_defaults:
            out = [sec for sec in out if sec[0] != "DEFAULT"]
    return out


def ini_impl(text, **kw):
    from insights.parsr import iniparser
    try:
        res = iniparser.parse_doc(text, None, **kw)
    except Exception as e:
        return "raised %s" % type(e).__name__
    try:
        return [[sec.name, sec.lineno, [(d.name, list(d.attrs), d.lineno) for d in sec.children]] for sec in res.children]
    except Exception as e:
        return "result of unexpected shape (%s: %s)" % (type(e).__name__, str(e)[:80])


def ini_case(chk, text, kw):
    want = ini_reference(text, **kw)
    if want is None:
        chk.count("ini:outside-sub-language")
        return 0
    got = ini_impl(text, **kw)
    chk.case(("ini", text, tuple(sorted(kw.items()))), bool(want))
    if got != want:
        chk.count("ini:DIFFERS")
        chk.failure("iniparser.parse_doc(%s) gives %s, the document read line by line is %s" % (
            ", ".join("%s=%r" % kv for kv in sorted(kw.items())) or "defaults", str(got)[:400], str(want)[:400]),
            {"kind": "ini", "text": text, "kw": kw})
        return 0
    chk.count("ini:agree")
    return 1


def ini_stream(chk, n):
    rng = chk.rng
    ok = 0
    fixed = ["", "\n", "# only a comment\n", "[s]", "[s]\nk = v", "[s]\nk = v\n  more\n\n  tail\nj = 2\n",
             "[a]\nflag = yes\nword = yesterday\n", "[DEFAULT]\nd = 1\n[a]\nd = 2\n[b]\n", "[a]\nk = v \\\n  w\n"]
    for i in range(n + len(fixed)):
        text = fixed[i] if i < len(fixed) else gen_ini(rng)
        kw = rng.choice([{}, {}, {}, {"return_defaults": True}, {"return_booleans": False},
                         {"return_defaults": True, "return_booleans": False}])
        ok += ini_case(chk, text, kw)
        if i == len(fixed) + 2:
            chk.sample({"ini": text, "options": kw, "parse_doc": str(ini_impl(text, **kw))[:300]})
        if rng.random() < 0.08:
            # a key before the first section is not a document
            bad = "k = v\n" + text
            got = ini_impl(bad)
            chk.count("ini:rejects-key-before-section" if isinstance(got, str) and got.startswith("raised") else "ini:ACCEPTS-key-before-section")
            if not (isinstance(got, str) and got.startswith("raised")):
                chk.failure("iniparser.parse_doc accepts a key before the first section header: %s" % str(got)[:200],
                            {"kind": "ini", "text": bad, "kw": {}, "expect": "error"})
    chk.stream("ini-vs-line-reference", ok, 0)


TAG_WITNESS = {"rules": [], "top": ["seq", [["stag", ["chr", "b"]],
                                           ["opt", ["seq", [["stag", ["chr", "a"]], ["chr", "x"]], "list"], None],
                                           ["chr", "a"], ["etag", ["chr", "b"], False]], "list"]}
TAG_CONTROL = {"rules": [], "top": ["seq", [["stag", ["chr", "b"]], ["chr", "a"], ["etag", ["chr", "b"], False]], "list"]}
FERR_WITNESS = {"rules": [], "top": ["many", ["map", ["raiseif", "a"], ["chr", "a"]], 0]}


def witnesses(chk):
    # fixed defects: must pass now
    path = os.path.join(VERIF, "corpus", "C19", "sep_by_falsy.json")
    for doc in json.load(open(path))["docs"]:
        chk.case(("corpus-json", doc), True)
        json_case(chk, doc, "corpus")
    # known findings: reproduce on the implementation
    for fid, docs in (("json-leading-separator", ["[,1]", '{,"a":1}']), ("json-leading-zero", ["01", "[007]"])):
        hit = all(json_impl(d)[0] != json_ref(d)[0] for d in docs)
        chk.witnesses.append({"finding": fid, "inputs": docs, "reproduced": hit})
        if hit:
            chk.finding_reproduced(fid)
    # json-deep-nesting: a document of the documented subset (arrays of integers) nested 100 deep is accepted by json.loads and
    # by the translated grammar in the model (Props.C19.json_deep_nesting_witness), and rejected by the real grammar: the
    # recursion limit is hit inside the combinators and the RecursionError is swallowed as if it were a failed alternative
    try:
        deep = json.load(open(os.path.join(VERIF, "corpus", "C19", "json_deep_nesting.json")))["doc"]
        a_, b_ = json_impl(deep, record=False), json_ref(deep)
        m_ = run_driver("C19", ["json\t" + enc(deep)])[0]
        hit = a_[0] == "error" and b_[0] == "ok" and m_.startswith("value")
        chk.witnesses.append({"finding": "json-deep-nesting", "input": "'['*100 + '1' + ']'*100", "grammar": a_[0],
                              "json.loads": b_[0], "model": m_[:12], "reproduced": hit})
        if hit:
            chk.finding_reproduced("json-deep-nesting")
        elif not (a_[0] == "ok" and b_[0] == "ok" and same_json(a_[1], b_[1]) and m_.startswith("value")):
            chk.failure("the deeply nested document: grammar %s, json.loads %s, model %s" % (a_[0], b_[0], m_[:40]),
                        {"kind": "json", "doc": deep})
    except RecursionError:
        chk.failure("the JSON grammar let a RecursionError escape on the deeply nested document", {"kind": "json", "doc": "[" * 100 + "1" + "]" * 100})
    # the module's own entry points: loads / load
    import io
    for doc in ['{"a": [1, 2.5, "x"], "b": {"c": null}}', "[true, false]", " 7 "]:
        try:
            want = json.loads(doc)
            got1, got2 = json_parser.loads(doc), json_parser.load(io.StringIO(doc))
            if not (same_json(got1, want) and same_json(got2, want)):
                chk.failure("json_parser.loads / load give %r / %r, json.loads gives %r" % (got1, got2, want), {"kind": "json", "doc": doc})
        except Exception as e:
            chk.failure("json_parser.loads / load raised %s: %s" % (type(e).__name__, str(e)[:120]), {"kind": "json", "doc": doc})
    try:
        p1, _ = build_grammar(TAG_WITNESS)
        p2, _ = build_grammar(TAG_CONTROL)
        hit = run_impl(p1, "bab")[1] == "perr" and run_impl(p2, "bab")[1].startswith("value")
        chk.witnesses.append({"finding": "tag-stack-not-restored", "input": "bab", "reproduced": hit})
        if hit:
            chk.finding_reproduced("tag-stack-not-restored")
        p3, _ = build_grammar(FERR_WITNESS)
        line, summary, cferr = run_impl(p3, "a")
        hit = summary.startswith("value") and cferr
        chk.witnesses.append({"finding": "function-error-swallowed", "input": "a", "impl": line, "reproduced": hit})
        if hit:
            chk.finding_reproduced("function-error-swallowed")
    except Hang:
        raise
    except Exception as e:
        # a changed implementation may not even build the witness grammars: that is a finding of the run, not a crash
        chk.failure("building / running the witness grammars raised %s: %s" % (type(e).__name__, str(e)[:200]),
                    {"kind": "term", "grammar": TAG_WITNESS, "input": "bab"})


# --------------------------------------------------------------------------- run

def run(chk):
    rng = chk.rng
    quick = chk.tier == "quick"
    n_grammars = 3400 if quick else 34000
    n_inputs = 14 if quick else 30
    n_json = 3000 if quick else 60000
    n_tag = 1500 if quick else 20000
    chk.rule = ("grammar terms of depth <= 4-5 over the combinators (alphabet abc + 'B' and '\\\\', repetition only over "
                "syntactically consuming sub-terms, Forward references only after consumption, 20%% of grammars with "
                "Start/EndTagName, 15%% with raising actions), built as real parsr objects; per grammar ~%d inputs: "
                "sampled derivations of the term, their one-edit neighbours, and random strings up to length 6; "
                "non-trivial = process() succeeded, distinct = (term, rules, input) not seen before" % n_inputs)
    chk.assumptions = [
        "history: 30% of the generated grammars are evaluated, then a Sequence / Choice / Lift inside them is extended (| + * "
        "or add_child), or a child of a Sequence / Choice / Until / FollowedBy / NotFollowedBy / KeepLeft / KeepRight is replaced "
        "through set_children, or a Forward is re-assigned with <=, and evaluated again — in the larger grammar and on the "
        "changed combinator directly; the model grammar of each evaluation is the term as it is at that evaluation, and the "
        "read-back structure and the rendering (text_format) must show the change",
        "a combinator OWNS its operand list: Sequence / Choice are also constructed from a generator expression, a one-shot "
        "iterator, a tuple, from ONE list object handed to two combinators one of which is then extended with | or +, and from "
        "a list the caller mutates after construction; Until / FollowedBy / NotFollowedBy / KeepLeft / KeepRight / Lift / "
        "Forward also get their operands through the public set_children from such collections; the model grammar is the one "
        "denoted at construction time, and every grammar is evaluated more than once (all inputs in turn, the first three "
        "inputs three times: later evaluations must equal the first)",
        "object sharing is invisible to the semantics: a model term is a TREE OF OCCURRENCES (no sharing), the identity of the "
        "Python parser objects does not matter; this is tied, not assumed — both the combinators and the operators stream draw "
        "leaf and sub-term OBJECTS from a small pool with repetition (same object 2-4 times, same and different levels), read "
        "back one child per operand occurrence, and compare values with a fresh-object spelling of the same term and the model",
        "mapped functions are entries of a fixed table (identity, join, len, constant, backtrack-if, raise-if, "
        "sep_by's _accumulate); the theorems hold for every table",
        "str.lower() is modelled on ASCII only (Literal ignore_case / EndTagName ignore_case); inputs are ASCII",
        "ctx.pos/errors/parser_stack (the error text, the farthest-failure heuristic) are not modelled; PosMarker and Context.line/col "
        "ARE (Term.mark, lineOf/colOf; generated only in grammars without Start/EndTagName because Mark objects compare by identity); "
        "WithIndent/HangingString (indent stack) are not in the Lean model: grammars containing them (about 8%) are held to the "
        "reference evaluator only, whose account of WHERE HangingString stops reading restates the code; HangingString(min_length=0) "
        "is not generated (it loops at the end of the input: a repetition over a non-consuming body)",
        "the ready-made parsers of the library (28 module-level objects, EnclosedComment, OneLineComment, EmptyQuotedString) are leaves "
        "of the random grammars; their documented meaning is the table CONST_TERMS / spec_term written from the `string` module, "
        "and the live objects must read back as exactly these terms",
        "INI documents: a sub-language that can be read line by line (keys in column 0, indented continuation lines, values not "
        "starting with a boolean word followed by a blank); iniparser.parse_doc must agree with the line-by-line reading in sections, "
        "keys, values and line numbers",
        "termination: every generated grammar is checked WellFormed by the model (driver field wf=1) and every model run "
        "uses the fuel `bound rules term |input|` that Props.C19.no_divergence proves sufficient; a fuel-exhausted answer "
        "would show up as model:fuel-exhausted and as a correspondence mismatch",
        "the shipped JSON and tag-expression grammars are translated from their live object graphs into model terms "
        "(translate/grammars.py -> IV/Gen/Grammars.lean, trusted for the shape of the walk; functions identified by identity) "
        "and tied three-way: real grammar / translated grammar in the model / json.loads resp. boolean evaluation",
        "float(text) is not modelled: the model's number is the text and the harness applies float() to it before comparing; "
        "re.search in taglang.Regex is modelled as substring search (the generated patterns have no metacharacters)",
    ]
    # ---- 0. the shipped grammars, re-translated from the live objects
    try:
        from translate import grammars as tg
        text, _ = tg.generate(REPO)
        changed = tg.write_if_changed(text)
        chk.extra["translator"] = {"source": "live objects json_parser.Top, taglang.parse under " + REPO,
                                   "generated": "lean/IV/Gen/Grammars.lean", "rewrote_generated_file": changed}
    except Exception as e:
        chk.tie_broken("translator", "%s: %s" % (type(e).__name__, e), None)
    chk.lean(extra_targets=["IV.Gen.Grammars"])
    os.makedirs(os.path.join(VERIF, "corpus", "C19"), exist_ok=True)
    witnesses(chk)

    # ---- stream 1: corpus grammars, then random grammars (one driver call per batch)
    cases, impl_lines, model_lines = [], [], []

    def flush():
        if not model_lines:
            return
        model = run_driver("C19", model_lines)
        # last field: the model's WellFormed (the hypothesis of no_divergence) on the generated grammar
        bad_wf = [c for c, m in zip(cases, model) if not m.endswith("|wf=1")]
        chk.count("grammar:WellFormed", len(model) - len(bad_wf))
        if bad_wf:
            chk.tie_broken("generator-discipline", "%d generated grammars are not WellFormed in the model" % len(bad_wf),
                           {"kind": "term", "grammar": bad_wf[0]["grammar"], "input": bad_wf[0]["input"]})
        model = [defloat(m) if "F" in m else m for m in (m.rsplit("|wf=", 1)[0] for m in model)]
        n_div = sum(1 for m in model if m.startswith("diverge"))
        if n_div:
            chk.count("model:fuel-exhausted", n_div)
        chk.compare("combinators-vs-model", list(cases), impl_lines, model,
                    show=lambda c: {"kind": "term", "grammar": c["grammar"], "input": c["input"], "history": c.get("history", [])})
        del cases[:], impl_lines[:], model_lines[:]

    corpus = json.load(open(os.path.join(VERIF, "corpus", "C19", "grammars.json")))
    try:
        for entry in corpus["grammars"]:
            try:
                check_grammar(chk, entry["grammar"], entry["inputs"], cases, impl_lines, model_lines)
            except Untranslatable as e:
                chk.tie_broken("translation", "object graph not translatable: %s" % e, {"grammar": entry["grammar"]})
        for i in range(n_grammars):
            g = gen_grammar(rng, rng.choice([2, 3, 3, 4, 4, 5]))
            term, rules = intended(g)
            inputs = gen_inputs(rng, term, rules, n_inputs)
            try:
                check_grammar(chk, g, inputs, cases, impl_lines, model_lines)
            except Untranslatable as e:
                chk.tie_broken("translation", "object graph not translatable: %s" % e, {"grammar": g})
                continue
            if i in (3, 500):
                chk.sample({"grammar": g, "term": " ".join(tokens(term)), "inputs": inputs[:4],
                            "impl": impl_lines[-len(inputs):][:4]})
            if len(model_lines) >= 60000:
                flush()
    except StopStream:
        chk.count("stream1:stopped-after-hang")
    flush()

    # ---- stream 1b: the grammar-building operators, every grouping (Props.C19 plus_* / alt_* theorems)
    operators_stream(chk, 1000 if quick else 15000, 6 if quick else 10)

    # ---- stream 1c: the INI grammar (PosMarker / WithIndent / HangingString / OneLineComment / skip_none in their real user)
    ini_stream(chk, 500 if quick else 8000)

    # ---- stream 2: JSON grammar vs json.loads on the documented subset  (+ the TRANSLATED grammar in the model)
    jdocs = []
    for i in range(n_json):
        quirks = rng.random() < 0.04
        doc = gen_json(rng, rng.choice([0, 1, 2, 2, 3, 3]), quirks)
        chk.case(("json", doc), True)
        json_case(chk, doc, "subset")
        jdocs.append(doc)
        if i == 7:
            chk.sample({"json": doc, "impl": repr(json_impl(doc))})
        # near misses: one structural character inserted or deleted; over-acceptance is a failure too
        if rng.random() < 0.3 and doc.strip():
            j = rng.randrange(len(doc))
            mut = rng.choice([doc[:j] + rng.choice(",0[]{}:") + doc[j:], doc[:j] + doc[j + 1:]])
            jdocs.append(mut)
            if "'" not in mut and "\\" not in mut and '""' not in mut and not RE_CTRL_IN_STRING(mut):
                chk.case(("json-mut", mut), json_ref(mut)[0] == "ok")
                json_case(chk, mut, "near-miss")
    chk.stream("json-vs-json.loads", chk.dist.get("json:subset:agree-ok", 0) + chk.dist.get("json:near-miss:agree-ok", 0) +
               chk.dist.get("json:near-miss:agree-error", 0), 0)
    jdocs += JSON_EXTRA
    real = [call_canon(json_parser.Top, d) for d in jdocs]
    model = [defloat(m) for m in run_driver("C19", ["json\t" + enc(d) for d in jdocs])]
    for r in real:
        chk.count("json-translated:" + r.split(" ")[0])
    chk.compare("json-translated-vs-real", [{"kind": "json", "doc": d} for d in jdocs], real, model)

    # ---- stream 3: tag expressions vs boolean evaluation  (+ the TRANSLATED grammar in the model)
    texts = []
    for i in range(n_tag):
        e = gen_expr(rng, rng.choice([1, 2, 3, 3, 4]))
        text = render(rng, e, 0)
        chk.case(("tag", text), True)
        tag_case(chk, text, e)
        texts.append((text, e))
        if rng.random() < 0.15 and text:
            j = rng.randrange(len(text))
            mut = rng.choice([text[:j] + text[j + 1:], text[:j] + rng.choice("!&|,() a") + text[j:]])
            # re.compile / re.search are not modelled beyond patterns without metacharacters
            if all(m.group(1) == "" or m.group(1).isalnum() for m in re.finditer(r"/(\S*)", mut)):
                texts.append((mut, None))
        if i == 5:
            chk.sample({"tag-expression": text, "ast": e})
    chk.stream("taglang-vs-boolean", chk.dist.get("taglang:agree", 0), 0)
    sets = list(tagsets())
    sets_field = ",".join("+".join(enc(t) for t in ts) if ts else "_" for ts in sets)
    real = [tag_bits(t, sets) for t, _ in texts]
    model = run_driver("C19", ["tag\t%s\t%s" % (enc(t), sets_field) for t, _ in texts])
    for r in real:
        chk.count("taglang-translated:" + ("bits" if r[0] in "01" else r))
    chk.compare("taglang-translated-vs-real", [{"kind": "taglang-text", "text": t} for t, _ in texts], real, model)

    # ---- the module-level parsers were shared by everything above (every grammar that used them, the JSON and the INI
    # grammar): after all that they must still denote their documented terms (nothing accumulated onto them)
    for name in CONST_NAMES:
        rb, want = const_readback(name)
        chk.count("library-constant:" + ("unchanged" if rb == want else "CHANGED"))
        if rb != want:
            chk.failure("after the run insights.parsr.%s reads back as  %s  — documented:  %s" % (name, rb, want),
                        {"kind": "const", "name": name})


def const_readback(name):
    want = " ".join(tokens(CONST_TERMS[name]))
    try:
        return " ".join(tokens(walk(getattr(P, name), {}))), want
    except Exception as e:
        return "unreadable (%s: %s)" % (type(e).__name__, str(e)[:120]), want


JSON_EXTRA = ["[0, 1]", "[null]", "[false]", "[,1]", '{,"a":1}', "01", "[007]", "[ ]", "{ }", '{"a" :1}', '""', "'a b'",
              '"a\\"b"', "-", "1.", "[1,]", '{"a":1,"a":2}', "", "  ", "[[[[[[1]]]]]]", "tru", "nul l", "-0", "1.5.2"]


def call_canon(parser, text):
    """what Parser.__call__ reports, canonically"""
    RecCtx.last = None
    try:
        return "value " + canon(parser(text, Ctx=RecCtx))
    except Exception:
        c = RecCtx.last
        return "ferr" if (c is not None and c.function_error is not None) else "perr"


RE_FLOAT = re.compile(r"F([0-9a-f.]+)")


def defloat(line):
    """the model's float is the text handed to float(): apply the (unmodelled) conversion here"""
    return RE_FLOAT.sub(lambda m: "F" + repr(float(dec(m.group(1)))), line)


def tag_bits(text, sets):
    RecCtx.last = None
    try:
        pred = taglang.parse(text, Ctx=RecCtx)
    except Exception:
        c = RecCtx.last
        return "ferr" if (c is not None and c.function_error is not None) else "perr"
    out = []
    for ts in sets:
        try:
            out.append("1" if pred(ts) else "0")
        except Exception:
            out.append("?")
    return "".join(out)


def RE_CTRL_IN_STRING(doc):
    """a near-miss that moved a raw newline/tab inside a string literal is outside the subset"""
    inside = False
    for ch in doc:
        if ch == '"':
            inside = not inside
        elif inside and ch in "\n\r\t":
            return True
    return False


# --------------------------------------------------------------------------- replay

def replay(data):
    c = data.get("case") or {}
    if data.get("kind") == "broken-tie":
        first = (data.get("broken") or [{}])[0]
        c = first.get("case") or {}
        c = c.get("case", c)
    print("replaying", json.dumps(c, ensure_ascii=False)[:2000])
    kind = c.get("kind")
    bad = False
    if kind == "term":
        g, s = c["grammar"], c["input"]
        cc = _Rec()
        cs, il, ml = [], [], []
        term, rules = check_grammar(cc, g, list(c.get("history", [])) + [s], cs, il, ml)
        print("term          :", " ".join(tokens(term)), " rules:", [" ".join(tokens(r)) for r in rules])
        if ml:
            for cse, i_line, m in zip(cs, il, run_driver("C19", ml)):
                m = m.rsplit("|wf=", 1)[0]
                m = defloat(m) if "F" in m else m
                print("input %r" % cse["input"])
                print("  implementation:", i_line)
                print("  model         :", m, "" if m == i_line else "  <-- DISAGREE")
                bad = bad or m != i_line
        for d in cc.failures:
            print(d)
        bad = bad or bool(cc.failures)
    elif kind == "operators":
        cc = _Rec()
        cs, il, ml = [], [], []
        op_case(cc, c["expr"], c["leaves"], 0, cs, il, ml, inputs=list(c.get("history", [])) + [c["input"]], shared=c.get("shared", []))
        if ml:
            for cse, i_line, m in zip(cs, il, run_driver("C19", ml)):
                m = m.rsplit("|wf=", 1)[0]
                print("input %r" % cse["input"])
                print("  operator-built object:", i_line)
                print("  model (plus/alt/mul) :", m, "" if m == i_line else "  <-- DISAGREE (same=0: the built structure is not the model's term)")
        for d in cc.failures:
            print(d)
        bad = bool(cc.failures)
    elif kind == "json":
        for h in c.get("history", []):          # what the same grammar object parsed before
            json_impl(h)
        a, b = json_impl(c["doc"]), json_ref(c["doc"])
        print("json grammar:", a, " json.loads:", b)
        real = call_canon(json_parser.Top, c["doc"])
        model = defloat(run_driver("C19", ["json\t" + enc(c["doc"])])[0])
        print("real grammar (canonical):", real)
        print("translated grammar in the model:", model, "" if real == model else "  <-- DISAGREE")
        in_subset = "'" not in c["doc"] and "\\" not in c["doc"] and '""' not in c["doc"] and not RE_CTRL_IN_STRING(c["doc"])
        bad = in_subset and not (a[0] == b[0] and (a[0] == "error" or same_json(a[1], b[1])))
    elif kind == "const":
        rb, want = const_readback(c["name"])
        print("insights.parsr.%s reads back as: %s" % (c["name"], rb))
        print("documented                    : %s" % want)
        bad = rb != want
    elif kind == "ini":
        kw = c.get("kw") or {}
        got = ini_impl(c["text"], **kw)
        want = "an error" if c.get("expect") == "error" else ini_reference(c["text"], **kw)
        print("iniparser.parse_doc:", got)
        print("line by line       :", want)
        bad = (not (isinstance(got, str) and got.startswith("raised"))) if c.get("expect") == "error" else got != want
    elif kind == "taglang-text":
        sets = list(tagsets())
        sets_field = ",".join("+".join(enc(t) for t in ts) if ts else "_" for ts in sets)
        real = tag_bits(c["text"], sets)
        model = run_driver("C19", ["tag\t%s\t%s" % (enc(c["text"]), sets_field)])[0]
        print("real grammar    :", real)
        print("translated/model:", model, "" if real == model else "  <-- DISAGREE")
    elif kind == "taglang":
        e = _tuplify(c["expr"])
        try:
            pred = taglang.parse(c["text"])
            for ts in ([c["tags"]] if "tags" in c else list(tagsets())):
                got, want = pred(ts), eval_expr(e, ts)
                if got is not want:
                    print("tags %r: grammar %r, boolean evaluation %r" % (ts, got, want))
                    bad = True
        except Exception as ex:
            print("rejected:", str(ex)[:200])
            bad = True
    else:
        print("nothing to replay in this file (kind=%r)" % data.get("kind"))
    print("property violated on this input" if bad else "property holds on this input")
    return 1 if bad else 0


class _Rec(object):
    """a Check stand-in for replays: records what the oracle says"""

    def __init__(self):
        self.failures, self.dist = [], {}

    def count(self, *a, **k):
        pass

    def case(self, *a, **k):
        pass

    def failure(self, desc, case, finding=None):
        self.failures.append(desc + (" [known finding %s]" % finding if finding else ""))


def _tuplify(x):
    return tuple(_tuplify(y) for y in x) if isinstance(x, list) else x
