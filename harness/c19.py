"""
C19 — parser combinators implement ordered-choice PEG semantics.

Tie      random grammar terms are built as REAL insights.parsr combinator objects through the public
         constructors / operators (+ | << >> & / .map .sep_by .until Lift*…), the built object graph is
         walked back into a term (class, attributes, children, Forward -> rule table) and that term is
         run by the Lean model (Drivers/C19.lean: IV.Peg.run / call).  Compared per (term, input):
         position + value or failure of `process(0, data, ctx)`, whether ctx.function_error is set, the
         tag stack left in ctx.tags, and what `Parser.__call__` reports (value / parse error / function error).
         Operators: random Python EXPRESSIONS over leaf parsers (`a + (b + c)`, `(a | b) | c`, `a + (b | c) + d`, mixes with
         << >> & / * % .map .sep_by .until Many Opt Wrapper Sequence([..]) Choice([..]), explicit parentheses in every
         association; grouping taken from Python's own `ast`) are evaluated with the real operators; the built object
         graph is read back and compared (a) with the documented term (left operand accumulates, anything else nests)
         built through the class constructors, structure and VALUES, (b) with the model's smart constructors
         `plus`/`alt`/`mul` (driver op `ops`: same structure, same value).
         The driver's fuel is `IV.Peg.bound rules term |input|` (Props.C19.no_divergence) and it reports the model's
         `WellFormed` for every generated grammar (must be 1: the generator's discipline is the theorem's hypothesis).
Shipped  translate/grammars.py walks the live objects json_parser.Top and taglang.parse into IV/Gen/Grammars.lean at the
         start of every run; the TRANSLATED grammars are run in the driver on the same documents / expressions as the
         real ones (streams json-translated-vs-real, taglang-translated-vs-real: value or error class of __call__,
         resp. Predicate.test on 32 tag sets).
Oracle   `Ref` below: an independent recursive-descent evaluator written from the textbook PEG rules
         (functional state: a failed alternative leaves no trace; a raising action aborts the parse),
         evaluated on the same terms.  Shipped grammars: insights.parsr.examples.json_parser against
         json.loads on the documented subset, insights.core.taglang.parse against boolean evaluation
         with precedence ! > & > | ,  on every tag set.
"""
import itertools
import json
import os
import re
import signal

from harness.common import VERIF, REPO, enc, dec, run_driver

import insights.parsr as P
from insights.parsr import (Backtrack, Char, Choice, Context, EndTagName, FollowedBy, Forward, InSet, KeepLeft,
                            KeepRight, Lift, Literal, Many, Map, NotFollowedBy, Opt, Parser, Sequence,
                            StartTagName, String, Until, Wrapper)
from insights.parsr.examples import json_parser
from insights.core import taglang

FUEL = "auto"     # the driver computes IV.Peg.bound rules term |input| (Props.C19.no_divergence)
# the private sentinel of sep_by (absent in trees without fix 8179445: then nothing is ever equal to it)
NO_MATCH = getattr(Parser, "_NO_MATCH", object())
AnyCharCls = type(P.AnyChar)
EOFCls = type(P.EOF)


# --------------------------------------------------------------------------- values

def canon(v):
    if v is None:
        return "N"
    if v is NO_MATCH:
        return "X"
    if isinstance(v, bool):
        return "B%d" % v
    if isinstance(v, int):
        return "I%d" % v
    if isinstance(v, float):
        return "F" + repr(v)
    if isinstance(v, str):
        return "S" + enc(v)
    if isinstance(v, list):
        return "[" + ";".join(canon(x) for x in v) + "]"
    if isinstance(v, dict):
        return "{" + ";".join(canon(k) + ":" + canon(x) for k, x in v.items()) + "}"
    return "?" + type(v).__name__


def val_tokens(v):
    if v is None:
        return ["N"]
    if v is NO_MATCH:
        return ["X"]
    if isinstance(v, bool):
        return ["B", "1" if v else "0"]
    if isinstance(v, int):
        return ["I", str(v)]
    if isinstance(v, str):
        return ["S", enc(v)]
    if isinstance(v, list):
        out = ["L", str(len(v))]
        for x in v:
            out += val_tokens(x)
        return out
    raise Untranslatable("value of type %s" % type(v).__name__)


# --------------------------------------------------------------------------- mapped functions (the table of IV.Peg.Fn)

def _tag(f, *tok):
    f._c19 = tok
    return f


def fn_map(spec):
    """a function for Map: one argument"""
    k = spec[0]
    if k == "ident":
        return _tag(lambda x: x, "ident")
    if k == "join":
        return _tag(lambda x: "".join(x), "join")
    if k == "len":
        return _tag(lambda x: len(x), "len")
    if k == "const":
        v = spec[1]
        return _tag(lambda x: v, "const", v)
    if k == "btif":
        v = spec[1]

        def f(x):
            if x == v:
                raise Backtrack("mapped function backtracks")
            return x
        return _tag(f, "btif", v)
    if k == "raiseif":
        v = spec[1]

        def g(x):
            if x == v:
                raise ValueError("mapped function raises")
            return x
        return _tag(g, "raiseif", v)
    raise ValueError(k)


def fn_lift(spec):
    """a function for Lift: *args; the model applies the same table entry to the list of arguments"""
    if spec[0] == "pair":
        return _tag(lambda *a: list(a), "pair")
    inner = fn_map(spec)
    return _tag(lambda *a: inner(list(a)), *inner._c19)


def fn_tokens(func):
    if func is getattr(Parser, "_accumulate", None):
        return ["accum"]
    tok = getattr(func, "_c19", None)
    if tok is None:
        # the functions of the shipped grammars (identified by identity with the live objects)
        from translate import grammars as tg
        try:
            shipped = tg.shipped_fn_tokens(func)
        except tg.Unsupported as e:
            raise Untranslatable(str(e))
        if shipped is not None:
            return shipped
        raise Untranslatable("mapped function %r" % getattr(func, "__name__", func))
    if len(tok) == 1:
        return [tok[0]]
    return [tok[0]] + val_tokens(tok[1])


# --------------------------------------------------------------------------- spec -> real combinators

def build(spec, fwd):
    """spec (JSON-able nested lists) -> real parser objects, through the public API"""
    k = spec[0]
    if k == "any":
        return P.AnyChar
    if k == "eof":
        return P.EOF
    if k == "chr":
        return Char(spec[1])
    if k == "set":
        return InSet(spec[1])
    if k == "str":
        return String(spec[1], spec[2] or None, spec[3])
    if k == "lit":
        if spec[2] is None:
            return Literal(spec[1], ignore_case=spec[3])
        return Literal(spec[1], value=spec[2][0], ignore_case=spec[3])
    if k == "seq":
        kids = [build(s, fwd) for s in spec[1]]
        if spec[2] == "+" and len(kids) >= 2 and not isinstance(kids[0], Sequence):
            p = kids[0] + kids[1]
            for c in kids[2:]:
                p = p + c
            return p
        return Sequence(kids)
    if k == "cho":
        kids = [build(s, fwd) for s in spec[1]]
        if spec[2] == "|" and len(kids) >= 2 and not isinstance(kids[0], Choice):
            p = kids[0] | kids[1]
            for c in kids[2:]:
                p = p | c
            return p
        return Choice(kids)
    if k == "many":
        return Many(build(spec[1], fwd), lower=spec[2])
    if k == "until":
        return build(spec[1], fwd).until(build(spec[2], fwd))
    if k == "opt":
        return Opt(build(spec[1], fwd), spec[2]) if spec[2] is not None else Opt(build(spec[1], fwd))
    if k == "fb":
        return build(spec[1], fwd) & build(spec[2], fwd)
    if k == "nfb":
        return build(spec[1], fwd) / build(spec[2], fwd)
    if k == "kl":
        return build(spec[1], fwd) << build(spec[2], fwd)
    if k == "kr":
        return build(spec[1], fwd) >> build(spec[2], fwd)
    if k == "map":
        return build(spec[2], fwd).map(fn_map(spec[1]))
    if k == "lift":
        p = Lift(fn_lift(spec[1]))
        for s in spec[2]:
            p = p * build(s, fwd)
        return p
    if k == "sepby":
        return build(spec[1], fwd).sep_by(build(spec[2], fwd))
    if k == "wrap":
        return Wrapper(build(spec[1], fwd))
    if k == "ref":
        return fwd[spec[1]]
    if k == "stag":
        return StartTagName(build(spec[1], fwd))
    if k == "etag":
        return EndTagName(build(spec[1], fwd), ignore_case=spec[2])
    raise ValueError(k)


def build_grammar(g):
    """g = {"rules": [spec…], "top": spec} -> (top parser, [Forward…])"""
    fwd = [Forward() for _ in g["rules"]]
    for f, s in zip(fwd, g["rules"]):
        f <= build(s, fwd)
    return build(g["top"], fwd), fwd


# --------------------------------------------------------------------------- real object graph -> term

class Untranslatable(Exception):
    pass


def walk(p, fwd_ids):
    """the term the built object graph denotes (what the model and the reference evaluator run)"""
    t = type(p)
    kids = p.children
    if t is AnyCharCls:
        return ["any"]
    if t is EOFCls:
        return ["eof"]
    if t is Char:
        if not (isinstance(p.char, str) and len(p.char) == 1):
            raise Untranslatable("Char(%r)" % (p.char,))
        return ["chr", p.char]
    if t is InSet:
        return ["set", "".join(sorted(p.values))]
    if t is String:
        return ["str", "".join(sorted(p.chars)), "".join(sorted(p.echars)), p.min_length]
    if t is Literal:
        return ["lit", p.chars, None if p.value is Literal._NULL else [p.value], bool(p.ignore_case)]
    if t is Sequence:
        return ["seq", [walk(c, fwd_ids) for c in kids]]
    if t is Choice:
        return ["cho", [walk(c, fwd_ids) for c in kids]]
    if t is Many:
        return ["many", walk(kids[0], fwd_ids), p.lower]
    if t is Until:
        return ["until", walk(kids[0], fwd_ids), walk(kids[1], fwd_ids)]
    if t is Opt:
        return ["opt", walk(kids[0], fwd_ids), [p.default]]
    if t is FollowedBy:
        return ["fb", walk(kids[0], fwd_ids), walk(kids[1], fwd_ids)]
    if t is NotFollowedBy:
        return ["nfb", walk(kids[0], fwd_ids), walk(kids[1], fwd_ids)]
    if t is KeepLeft:
        return ["kl", walk(kids[0], fwd_ids), walk(kids[1], fwd_ids)]
    if t is KeepRight:
        return ["kr", walk(kids[0], fwd_ids), walk(kids[1], fwd_ids)]
    if t is Map:
        return ["map", fn_tokens(p.func), walk(kids[0], fwd_ids)]
    if t is Lift:
        return ["lift", fn_tokens(p.func), [walk(c, fwd_ids) for c in kids]]
    if t is Wrapper:
        return ["wrap", walk(kids[0], fwd_ids)]
    if t is Forward:
        if id(p) not in fwd_ids:
            raise Untranslatable("unknown Forward")
        return ["ref", fwd_ids[id(p)]]
    if t is StartTagName:
        return ["stag", walk(kids[0], fwd_ids)]
    if t is EndTagName:
        return ["etag", walk(kids[0], fwd_ids), bool(p.ignore_case)]
    raise Untranslatable("parser class %s" % t.__name__)


def tokens(t):
    k = t[0]
    if k in ("any", "eof"):
        return [k]
    if k == "chr":
        return ["chr", enc(t[1])]
    if k == "set":
        return ["set", enc(t[1])]
    if k == "str":
        return ["str", enc(t[1]), enc(t[2]), str(t[3])]
    if k == "lit":
        return ["lit", enc(t[1])] + (["_"] if t[2] is None else ["V"] + val_tokens(t[2][0])) + ["1" if t[3] else "0"]
    if k in ("seq", "cho"):
        out = [k, str(len(t[1]))]
        for c in t[1]:
            out += tokens(c)
        return out
    if k == "many":
        return ["many", str(t[2])] + tokens(t[1])
    if k == "opt":
        return ["opt"] + val_tokens(t[2][0]) + tokens(t[1])
    if k in ("until", "fb", "nfb", "kl", "kr"):
        return [k] + tokens(t[1]) + tokens(t[2])
    if k == "map":
        return ["map"] + t[1] + tokens(t[2])
    if k == "lift":
        out = ["lift"] + t[1] + [str(len(t[2]))]
        for c in t[2]:
            out += tokens(c)
        return out
    if k in ("wrap", "stag"):
        return [k] + tokens(t[1])
    if k == "ref":
        return ["ref", str(t[1])]
    if k == "etag":
        return ["etag", "1" if t[2] else "0"] + tokens(t[1])
    raise ValueError(k)


def kinds(t, acc):
    acc.add(t[0])
    for x in t[1:]:
        if isinstance(x, list) and x and isinstance(x[0], str) and x[0] in KINDS:
            kinds(x, acc)
        elif isinstance(x, list):
            for y in x:
                if isinstance(y, list) and y and isinstance(y[0], str) and y[0] in KINDS:
                    kinds(y, acc)
    return acc


KINDS = {"any", "eof", "chr", "set", "str", "lit", "seq", "cho", "many", "until", "opt", "fb", "nfb", "kl", "kr",
         "map", "lift", "wrap", "ref", "stag", "etag"}


# --------------------------------------------------------------------------- the reference: textbook PEG with values

class Abort(Exception):
    """a semantic action raised: the parse as a whole is an error"""


FAIL = None


def apply_fn(tok, v):
    """the meaning of a function-table entry on a Python value; returns ('ok', w) | 'back' | 'raise'"""
    k = tok[0]
    arg = _untok(tok[1:]) if len(tok) > 1 else None
    if k in ("ident", "pair"):
        return ("ok", v)
    if k == "join":
        if isinstance(v, str):
            return ("ok", v)
        if isinstance(v, list) and all(isinstance(x, str) for x in v):
            return ("ok", "".join(v))
        return "raise"
    if k == "len":
        return ("ok", len(v)) if isinstance(v, (str, list)) else "raise"
    if k == "const":
        return ("ok", arg)
    if k == "btif":
        return "back" if canon(v) == canon(arg) else ("ok", v)
    if k == "raiseif":
        return "raise" if canon(v) == canon(arg) else ("ok", v)
    if k == "accum":
        if isinstance(v, list) and len(v) == 2 and isinstance(v[1], list):
            return ("ok", ([] if v[0] is NO_MATCH else [v[0]]) + v[1])
        return "raise"
    raise ValueError(k)


def _untok(tok):
    def go(i):
        k = tok[i]
        if k == "N":
            return None, i + 1
        if k == "X":
            return NO_MATCH, i + 1
        if k == "I":
            return int(tok[i + 1]), i + 2
        if k == "S":
            from harness.common import dec
            return dec(tok[i + 1]), i + 2
        if k == "L":
            n, j, out = int(tok[i + 1]), i + 2, []
            for _ in range(n):
                v, j = go(j)
                out.append(v)
            return out, j
        raise ValueError(k)
    return go(0)[0]


class Ref(object):
    """
    e ::= . | 'c' | [set] | e1 e2 | e1 / e2 | e* | e? | &e | !e | A     (Ford 2004), with semantic values.
    State is passed functionally: `tags` (a tuple) goes in and comes out only on success, so a failed
    alternative leaves no trace.  leaky=True makes the tag stack one global mutable list instead (used only
    to decide whether a disagreement is an instance of the known finding tag-stack-not-restored).
    A raising action aborts the parse (Abort propagates through every combinator).
    """

    def __init__(self, rules, s, leaky=False, swallow=False):
        self.rules, self.s, self.leaky, self.swallow = rules, s, leaky, swallow
        self.global_tags = []
        self.ferr = False

    def ev(self, t, i, tags):
        """-> (j, value, tags') or FAIL"""
        s, k = self.s, t[0]
        if self.ferr:
            return FAIL
        if k == "any":
            return (i + 1, s[i], tags) if i < len(s) else FAIL
        if k == "chr":
            return (i + 1, s[i], tags) if i < len(s) and s[i] == t[1] else FAIL
        if k == "set":
            return (i + 1, s[i], tags) if i < len(s) and s[i] in t[1] else FAIL
        if k == "eof":
            return (i, None, tags) if i == len(s) else FAIL
        if k == "str":
            out, j = [], i
            while j < len(s):
                if s[j] == "\\" and j + 1 < len(s) and s[j + 1] in t[2]:
                    out.append(s[j + 1])
                    j += 2
                elif s[j] in t[1]:
                    out.append(s[j])
                    j += 1
                else:
                    break
            return (j, "".join(out), tags) if len(out) >= t[3] else FAIL
        if k == "lit":
            n = len(t[1])
            seg = s[i:i + n]
            hit = len(seg) == n and ((seg.lower() if t[3] else seg) == t[1])
            if not hit:
                return FAIL
            return (i + n, seg if t[2] is None else t[2][0], tags)
        if k in ("seq", "lift"):
            kids = t[1] if k == "seq" else t[2]
            vals, j = [], i
            for c in kids:
                r = self.ev(c, j, tags)
                if r is FAIL:
                    return FAIL
                j, v, tags = r
                vals.append(v)
            if k == "seq":
                return (j, vals, tags)
            return self.act(t[1], vals, j, tags)
        if k == "cho":
            for c in t[1]:
                r = self.ev(c, i, tags)
                if r is not FAIL:
                    return r
            return FAIL
        if k == "many":
            vals, j = [], i
            while True:
                r = self.ev(t[1], j, tags)
                if r is FAIL:
                    break
                if r[0] == j and r[2] == tags:
                    raise Unproductive()
                j, v, tags = r
                vals.append(v)
            return (j, vals, tags) if len(vals) >= t[2] else FAIL
        if k == "until":                       # (!q p)*
            vals, j = [], i
            while True:
                if self.ev(t[2], j, tags) is not FAIL:
                    break
                r = self.ev(t[1], j, tags)
                if r is FAIL:
                    break
                if r[0] == j and r[2] == tags:
                    raise Unproductive()
                j, v, tags = r
                vals.append(v)
            return (j, vals, tags)
        if k == "opt":
            r = self.ev(t[1], i, tags)
            return r if r is not FAIL else (i, t[2][0], tags)
        if k == "fb":
            r = self.ev(t[1], i, tags)
            if r is FAIL:
                return FAIL
            q = self.ev(t[2], r[0], r[2])
            return FAIL if q is FAIL else (r[0], r[1], q[2])
        if k == "nfb":
            r = self.ev(t[1], i, tags)
            if r is FAIL:
                return FAIL
            return r if self.ev(t[2], r[0], r[2]) is FAIL else FAIL
        if k in ("kl", "kr"):
            r = self.ev(t[1], i, tags)
            if r is FAIL:
                return FAIL
            q = self.ev(t[2], r[0], r[2])
            if q is FAIL:
                return FAIL
            return (q[0], r[1] if k == "kl" else q[1], q[2])
        if k == "map":
            r = self.ev(t[2], i, tags)
            if r is FAIL:
                return FAIL
            return self.act(t[1], r[1], r[0], r[2])
        if k == "wrap":
            return self.ev(t[1], i, tags)
        if k == "ref":
            return self.ev(self.rules[t[1]], i, tags) if t[1] < len(self.rules) else FAIL
        if k == "stag":
            r = self.ev(t[1], i, tags)
            if r is FAIL:
                return FAIL
            if self.leaky:
                self.global_tags.append(r[1])
                return r
            return (r[0], r[1], r[2] + (r[1],))
        if k == "etag":
            r = self.ev(t[1], i, tags)
            if r is FAIL:
                return FAIL
            if self.leaky:
                if not self.global_tags:
                    return FAIL
                expect, rest = self.global_tags.pop(), r[2]
            else:
                if not r[2]:
                    return FAIL
                expect, rest = r[2][-1], r[2][:-1]
            if t[2]:
                same = isinstance(r[1], str) and isinstance(expect, str) and r[1].lower() == expect.lower()
            else:
                same = canon(r[1]) == canon(expect)
            return (r[0], r[1], rest) if same else FAIL
        raise ValueError(k)

    def act(self, fn, v, j, tags):
        r = apply_fn(fn, v)
        if r == "raise":
            if self.swallow:
                self.ferr = True
                return FAIL
            raise Abort()
        if r == "back":
            return FAIL
        return (j, r[1], tags)


class Unproductive(Exception):
    """a repetition body succeeded without consuming: the textbook semantics has no result"""


def reference(term, rules, s, leaky=False, swallow=False):
    """what the parse as a whole must report: 'value <v> <pos>' | 'perr' | 'ferr' | None (no result)"""
    ref = Ref(rules, s, leaky, swallow)
    try:
        r = ref.ev(term, 0, ())
    except Abort:
        return "ferr"
    except (Unproductive, RecursionError):
        return None
    if r is FAIL:
        return "ferr" if ref.ferr else "perr"
    return "value %s %d" % (canon(r[1]), r[0])


# --------------------------------------------------------------------------- running the implementation

class Hang(BaseException):
    pass


class StopStream(Exception):
    """the implementation hung once: do not spend 5 s on every further case"""


def _alarm(signum, frame):
    raise Hang()


signal.signal(signal.SIGALRM, _alarm)


class RecCtx(Context):
    last = None

    def __init__(self, lines, src=None):
        super(RecCtx, self).__init__(lines, src=src)
        RecCtx.last = self


def run_impl(p, s):
    """-> (line compared with the model, summary compared with the reference)"""
    signal.setitimer(signal.ITIMER_REAL, 5.0, 0.05)      # re-fires: Choice's bare except may eat one
    try:
        data = list(s)
        data.append(None)
        ctx = Context(data)
        try:
            pos, val = p.process(0, data, ctx)
            res = "ok %d %s" % (pos, canon(val))
        except Exception:
            pos, res = None, "fail"
        ferr = ctx.function_error is not None
        tags = ",".join(canon(x) for x in reversed(ctx.tags))
        RecCtx.last = None
        try:
            v = p(s, Ctx=RecCtx)
            call = "value " + canon(v)
        except Exception:
            c = RecCtx.last
            call = "ferr" if (c is not None and c.function_error is not None) else "perr"
        cferr = RecCtx.last is not None and RecCtx.last.function_error is not None
    except Hang:
        return "hang", "hang", False
    finally:
        signal.setitimer(signal.ITIMER_REAL, 0, 0)
    line = "%s|%d|%s|%s" % (res, 1 if ferr else 0, tags, call)
    summary = (call + (" %d" % pos if call.startswith("value") and pos is not None else ""))
    return line, summary, cferr


# --------------------------------------------------------------------------- generator of grammars

ALPHA = "abc"
VALS = [None, 0, 1, "", "a", "ab", [], ["a"]]
HITS = ["a", "b", "ab", ["a"], ["a", "b"], [], None, "", 1, 2, ["a", "a"]]


def consuming(s, rules=None):
    """syntactic: the term cannot succeed without consuming input (refs count as non-consuming)"""
    k = s[0]
    if k in ("any", "chr", "set"):
        return True
    if k == "str":
        return s[3] >= 1
    if k == "lit":
        return len(s[1]) >= 1
    if k in ("eof", "until", "opt", "ref", "sepby"):
        return False
    if k in ("seq",):
        return any(consuming(c) for c in s[1])
    if k == "lift":
        return any(consuming(c) for c in s[2])
    if k == "cho":
        return all(consuming(c) for c in s[1])
    if k == "many":
        return s[2] >= 1 and consuming(s[1])
    if k in ("fb", "nfb"):
        return consuming(s[1])
    if k in ("kl", "kr"):
        return consuming(s[1]) or consuming(s[2])
    if k == "map":
        return consuming(s[2])
    if k in ("wrap", "stag", "etag"):
        return consuming(s[1])
    raise ValueError(k)


class Gen(object):
    def __init__(self, rng, nrules, tags, raises):
        self.rng, self.nrules, self.tags, self.raises = rng, nrules, tags, raises

    def leaf(self):
        r = self.rng
        k = r.choice(["chr", "chr", "chr", "set", "any", "str", "lit", "lit", "eof"])
        if k == "chr":
            return ["chr", r.choice(ALPHA)]
        if k == "set":
            return ["set", "".join(sorted(set(r.choice(ALPHA) for _ in range(r.randint(1, 2)))))]
        if k == "str":
            cs = "".join(sorted(set(r.choice(ALPHA + "\\") for _ in range(r.randint(1, 2)))))
            es = r.choice(["", "", "a", "b\\"])
            return ["str", cs, es, r.choice([0, 1, 1, 2])]
        if k == "lit":
            chars = "".join(r.choice(ALPHA + "B") for _ in range(r.randint(0, 2) or 1))
            return ["lit", chars, r.choice([None, None, [r.choice(VALS)]]), r.random() < 0.3]
        return [k]

    def consuming_term(self, d, guarded):
        for _ in range(20):
            t = self.term(d, guarded)
            if consuming(t):
                return t
        return ["chr", self.rng.choice(ALPHA)]

    def fn(self):
        r = self.rng
        k = r.choice(["ident", "join", "join", "len", "const", "btif", "btif"] + (["raiseif"] if self.raises else []))
        if k == "const":
            return ["const", r.choice(VALS)]
        if k in ("btif", "raiseif"):
            return [k, r.choice(HITS)]
        return [k]

    def term(self, d, guarded):
        """guarded: a Forward reference is allowed here (something was consumed since the rule was entered)"""
        r = self.rng
        if d <= 0 or r.random() < 0.12:
            if guarded and self.nrules and r.random() < 0.3:
                return ["ref", r.randrange(self.nrules)]
            return self.leaf()
        ks = ["seq", "seq", "seq", "cho", "cho", "cho", "many", "many", "until", "opt", "opt", "fb", "nfb", "nfb",
              "kl", "kr", "map", "map", "lift", "wrap", "sepby"]
        if self.tags:
            ks += ["stag", "stag", "etag", "etag", "tagpair"]
        k = r.choice(ks)
        if k in ("seq", "lift"):
            n = r.choice([0, 1, 2, 2, 3, 3])
            kids, g = [], guarded
            for _ in range(n):
                c = self.term(d - 1, g)
                kids.append(c)
                g = g or consuming(c)
            if k == "seq":
                return ["seq", kids, r.choice(["+", "list"])]
            return ["lift", r.choice([["pair"], ["pair"], self.fn()]), kids]
        if k == "cho":
            return ["cho", [self.term(d - 1, guarded) for _ in range(r.choice([0, 1, 2, 2, 3]))], r.choice(["|", "list"])]
        if k == "many":
            return ["many", self.consuming_term(d - 1, guarded), r.choice([0, 0, 1, 1, 2])]
        if k == "until":
            return ["until", self.consuming_term(d - 1, guarded), self.term(d - 1, guarded)]
        if k == "opt":
            return ["opt", self.term(d - 1, guarded), r.choice([None, None] + VALS)]
        if k in ("fb", "nfb", "kl", "kr"):
            a = self.term(d - 1, guarded)
            return [k, a, self.term(d - 1, guarded or consuming(a))]
        if k == "map":
            return ["map", self.fn(), self.term(d - 1, guarded)]
        if k == "wrap":
            return ["wrap", self.term(d - 1, guarded)]
        if k == "sepby":
            # Many(sep >> p) must be consuming
            p = self.term(d - 1, guarded)
            sep = self.consuming_term(d - 2, guarded) if not consuming(p) else self.term(d - 2, guarded)
            return ["sepby", p, sep]
        if k == "stag":
            return ["stag", self.term(d - 1, guarded)]
        if k == "etag":
            return ["etag", self.term(d - 1, guarded), r.random() < 0.3]
        if k == "tagpair":
            name = ["set", "ab"] if r.random() < 0.7 else self.term(d - 2, guarded)
            body = self.term(d - 1, guarded or consuming(name))
            return ["seq", [["stag", name], body, ["etag", ["set", "abAB"] if r.random() < 0.7 else name, r.random() < 0.3]],
                    "list"]
        raise ValueError(k)


def sample_input(rng, t, rules, depth=0):
    """a string the term plausibly accepts"""
    k = t[0]
    if depth > 12:
        return ""
    if k == "any":
        return rng.choice(ALPHA)
    if k == "chr":
        return t[1]
    if k == "set":
        return rng.choice(t[1]) if t[1] else ""
    if k == "str":
        return "".join(rng.choice(t[1]) for _ in range(rng.randint(max(t[3], 1), 3))) if t[1] else ""
    if k == "lit":
        return t[1].upper() if (t[3] and rng.random() < 0.5) else t[1]
    if k == "eof":
        return ""
    if k in ("seq", "lift"):
        return "".join(sample_input(rng, c, rules, depth + 1) for c in (t[1] if k == "seq" else t[2]))
    if k == "cho":
        return sample_input(rng, rng.choice(t[1]), rules, depth + 1) if t[1] else ""
    if k == "many":
        return "".join(sample_input(rng, t[1], rules, depth + 1) for _ in range(rng.randint(t[2], t[2] + 2)))
    if k == "until":
        return "".join(sample_input(rng, t[1], rules, depth + 1) for _ in range(rng.randint(0, 2))) + \
            sample_input(rng, t[2], rules, depth + 1)
    if k == "opt":
        return sample_input(rng, t[1], rules, depth + 1) if rng.random() < 0.6 else ""
    if k in ("fb", "kl", "kr"):
        return sample_input(rng, t[1], rules, depth + 1) + sample_input(rng, t[2], rules, depth + 1)
    if k == "nfb":
        return sample_input(rng, t[1], rules, depth + 1)
    if k == "map":
        return sample_input(rng, t[2], rules, depth + 1)
    if k in ("wrap", "stag", "etag"):
        return sample_input(rng, t[1], rules, depth + 1)
    if k == "ref":
        return sample_input(rng, rules[t[1]], rules, depth + 3) if t[1] < len(rules) else ""
    raise ValueError(k)


def gen_grammar(rng, depth):
    nrules = rng.choice([0, 0, 1, 2])
    g = Gen(rng, nrules, tags=rng.random() < 0.2, raises=rng.random() < 0.15)
    rules = [g.term(depth - 1, False) for _ in range(nrules)]
    return {"rules": rules, "top": g.term(depth, False)}


def gen_inputs(rng, term, rules, n):
    out = set([""])
    for _ in range(n * 3):
        if len(out) >= n:
            break
        m = rng.random()
        if m < 0.55:
            s = sample_input(rng, term, rules)
            if rng.random() < 0.4 and s:
                i = rng.randrange(len(s))
                s = rng.choice([s[:i] + s[i + 1:], s[:i] + rng.choice(ALPHA) + s[i:], s + rng.choice(ALPHA + "B\\"), s[:i]])
        else:
            s = "".join(rng.choice(ALPHA + "aabB\\") for _ in range(rng.randint(0, 6)))
        out.add(s[:10])
    return sorted(out)


# --------------------------------------------------------------------------- one grammar: impl, reference, model lines

def has_tags(t, rules):
    ks = set()
    kinds(t, ks)
    for r in rules:
        kinds(r, ks)
    return bool(ks & {"stag", "etag"})


def check_grammar(chk, g, inputs, cases, impl_lines, model_lines):
    """runs implementation + reference on every input; queues the model lines"""
    top, fwd = build_grammar(g)
    ids = dict((id(f), i) for i, f in enumerate(fwd))
    term = walk(top, ids)
    rules = [walk(f.children[0], ids) for f in fwd]
    tagged = has_tags(term, rules)
    rtok = " ".join([str(len(rules))] + [x for r in rules for x in tokens(r)])
    ttok = " ".join(tokens(term))
    ks = set()
    kinds(term, ks)
    for k in ks:
        chk.count("node:" + k)
    for s in inputs:
        line, summary, cferr = run_impl(top, s)
        case = {"kind": "term", "grammar": g, "input": s}
        cases.append(case)
        impl_lines.append(line)
        model_lines.append("run\t%s\t%s\t%s\t%s" % (FUEL, rtok, ttok, enc(s)))
        chk.case((ttok, rtok, s), nontrivial=line.startswith("ok"))
        chk.count("result:" + line.split("|")[0].split(" ")[0] + ("/function-error" if cferr else ""))
        if line == "hang":
            chk.failure("the parser did not terminate within 5 s on %r" % s, case)
            cases.pop(), impl_lines.pop(), model_lines.pop()
            raise StopStream()
        want = reference(term, rules, s)
        if want is None:
            chk.count("reference:no-result")
            continue
        if want != summary:
            finding = None
            if reference(term, rules, s, leaky=True, swallow=True) == summary:
                # the two recorded deviations explain the difference; which one?
                if summary.startswith("value") and cferr:
                    finding = "function-error-swallowed"
                elif tagged:
                    finding = "tag-stack-not-restored"
            chk.failure("PEG semantics gives %s, the combinators give %s on input %r" % (want, summary, s), case, finding)
    return term, rules


# --------------------------------------------------------------------------- JSON

def same_json(a, b):
    if type(a) is not type(b):
        return False
    if isinstance(a, dict):
        return list(a.keys()) == list(b.keys()) and all(same_json(a[k], b[k]) for k in a)
    if isinstance(a, list):
        return len(a) == len(b) and all(same_json(x, y) for x, y in zip(a, b))
    if isinstance(a, float):
        return repr(a) == repr(b)
    return a == b


STR_ALPHA = "abzAZ09 _-.:,[]{}#'/!*+"


def gen_json(rng, d, ws_quirks):
    def ws():
        return rng.choice(["", "", "", " ", "  ", "\n", "\t ", "\r\n"])

    def string():
        return '"' + "".join(rng.choice(STR_ALPHA) for _ in range(rng.randint(1, 6))) + '"'

    def number():
        i = rng.choice(["0", str(rng.randint(1, 9)), str(rng.randint(10, 99999)), "1" + "0" * rng.randint(1, 12),
                        # integers no double represents exactly (beyond 2**53) and long digit strings: json.loads keeps them exact
                        str(2 ** 53 + rng.randint(1, 99)), str(rng.randint(10 ** 17, 10 ** 25)),
                        "".join(rng.choice("123456789") for _ in range(rng.randint(16, 30)))])
        s = ("-" if rng.random() < 0.3 else "") + i
        if rng.random() < 0.35:
            s += "." + "".join(rng.choice("0123456789") for _ in range(rng.choice([1, 2, 3, 4, 17, 25])))
        return s

    def value(d):
        k = rng.choice(["num", "num", "str", "str", "true", "false", "null", "arr", "arr", "obj", "obj"] if d > 0 else
                       ["num", "str", "true", "false", "null", "zero"])
        if k == "num":
            return number()
        if k == "zero":
            return rng.choice(["0", "0.0", "-0", '"0"'])
        if k == "str":
            return string()
        if k in ("true", "false", "null"):
            return k
        n = rng.choice([0, 1, 1, 2, 3])
        if k == "arr":
            if n == 0:
                return "[" + (rng.choice([" ", "\n"]) if ws_quirks else "") + "]"
            return "[" + ",".join(ws() + value(d - 1) + ws() for _ in range(n)) + "]"
        if n == 0:
            return "{" + (rng.choice([" ", "\n"]) if ws_quirks else "") + "}"
        keys = [string() for _ in range(n)]
        if n > 1 and rng.random() < 0.1:
            keys[1] = keys[0]
        return "{" + ",".join(ws() + k_ + (rng.choice([" ", "\t"]) if ws_quirks and rng.random() < 0.5 else "") + ":" +
                              ws() + value(d - 1) + ws() for k_ in keys) + "}"
    return ws() + value(d) + ws()


RE_EMPTY_WS = re.compile(r"[\[{]\s+[\]}]")
RE_WS_COLON = re.compile(r'"[ \t\r\n]+:')
RE_LEAD_SEP = re.compile(r"[\[{]\s*,")
RE_LEAD_ZERO = re.compile(r"(?<![\d.])-?0\d")


def json_impl(doc):
    try:
        return ("ok", json_parser.loads(doc))
    except Exception:
        return ("error", None)


def json_ref(doc):
    try:
        return ("ok", json.loads(doc))
    except ValueError:
        return ("error", None)


def json_case(chk, doc, origin):
    a, b = json_impl(doc), json_ref(doc)
    ok = a[0] == b[0] and (a[0] == "error" or same_json(a[1], b[1]))
    chk.count("json:%s:%s" % (origin, "agree-" + a[0] if ok else "differ"))
    if ok:
        return True
    finding = None
    if b[0] == "ok" and a[0] == "error":
        if RE_EMPTY_WS.search(doc):
            finding = "json-empty-container-whitespace"
        elif RE_WS_COLON.search(doc):
            finding = "json-whitespace-before-colon"
    elif b[0] == "error" and a[0] == "ok":
        if RE_LEAD_SEP.search(doc):
            finding = "json-leading-separator"
        elif RE_LEAD_ZERO.search(doc):
            finding = "json-leading-zero"
    chk.failure("JSON grammar gives %r, json.loads gives %r on %r" % (a, b, doc), {"kind": "json", "doc": doc}, finding)
    return False


# --------------------------------------------------------------------------- tag expressions

TAGS = ["a", "b", "c1", "net work"]


def gen_expr(rng, d):
    if d <= 0 or rng.random() < 0.25:
        return ("tag", rng.choice(TAGS)) if rng.random() < 0.85 else ("re", rng.choice(["net", "c", "a", "work"]))
    k = rng.choice(["not", "and", "and", "or", "or"])
    if k == "not":
        return ("not", gen_expr(rng, d - 1))
    return (k, gen_expr(rng, d - 1), gen_expr(rng, d - 1))


def render(rng, e, ctx):
    """ctx: 0 = or-level, 1 = and-level, 2 = operand of '!'; parentheses only where the stated precedence needs them"""
    def sp():
        return rng.choice(["", "", " ", "  "])
    k = e[0]
    if k == "tag":
        name = e[1]
        return sp() + (('"%s"' % name) if (" " in name or rng.random() < 0.15) else name) + sp()
    if k == "re":
        return sp() + "/" + e[1] + " " + sp()
    if k == "not":
        inner = e[1]
        if inner[0] == "tag":
            body = render(rng, inner, 2).strip()
            return sp() + "!" + body + sp()
        if inner[0] == "re":
            return sp() + "!/" + inner[1] + " " + sp()
        return sp() + "!(" + render(rng, inner, 0) + ")" + sp()
    if k == "and":
        s = render(rng, e[1], 1) + "&" + render(rng, e[2], 1)
        # the right operand of a left-associative chain needs no parentheses for an associative operator
        return s if ctx <= 1 else "(" + s + ")"
    s = render(rng, e[1], 0) + rng.choice(["|", ","]) + render(rng, e[2], 0)
    if ctx >= 1 or rng.random() < 0.1:
        return sp() + "(" + s + ")" + sp()
    return s


def eval_expr(e, tags):
    k = e[0]
    if k == "tag":
        return e[1] in tags
    if k == "re":
        return any(e[1] in t for t in tags)
    if k == "not":
        return not eval_expr(e[1], tags)
    if k == "and":
        return eval_expr(e[1], tags) and eval_expr(e[2], tags)
    return eval_expr(e[1], tags) or eval_expr(e[2], tags)


def tagsets():
    for n in range(len(TAGS) + 1):
        for c in itertools.combinations(TAGS + ["network"], n):
            yield list(c)


def tag_case(chk, text, e):
    try:
        pred = taglang.parse(text)
    except Exception:
        chk.count("taglang:rejected")
        chk.failure("the tag-expression grammar rejects %r" % text, {"kind": "taglang", "text": text, "expr": e})
        return False
    for ts in tagsets():
        got, want = pred(ts), eval_expr(e, ts)
        if got is not want:
            chk.failure("tag expression %r on %r: grammar gives %r, boolean evaluation gives %r" % (text, ts, got, want),
                        {"kind": "taglang", "text": text, "expr": e, "tags": ts})
            chk.count("taglang:differ")
            return False
    chk.count("taglang:agree")
    return True


# --------------------------------------------------------------------------- operators: every grouping builds the documented term

import ast as _ast

PREC = {"*": 13, "/": 13, "%": 13, "+": 12, "<<": 11, ">>": 11, "&": 10, "|": 8}
AST_BIN = {_ast.Add: "+", _ast.BitOr: "|", _ast.LShift: "<<", _ast.RShift: ">>", _ast.BitAnd: "&", _ast.Div: "/",
           _ast.Mult: "*"}
OP_FNS = [["ident"], ["join"], ["len"], ["const", "k"], ["btif", ["a", "b"]], ["btif", "a"]]


class OpGen(object):
    """random Python EXPRESSIONS over leaf parsers L0…, spelled with the operators and explicit parentheses in every
    association; the grouping is whatever Python's own parser says (ast), not what this generator intended"""

    def __init__(self, rng):
        self.rng = rng
        g = Gen(rng, 0, tags=False, raises=False)
        self.leaves = []
        for _ in range(rng.randint(3, 5)):
            for _ in range(30):
                l = g.leaf()
                if l[0] != "eof" and not (l[0] == "lit" and l[3]):
                    break
            self.leaves.append(l)
        if not any(consuming(l) for l in self.leaves):
            self.leaves.append(["chr", "a"])
        self.cleaves = [i for i, l in enumerate(self.leaves) if consuming(l)]

    def atom(self, cons):
        r = self.rng
        if cons or r.random() < 0.8:
            return "L%d" % (r.choice(self.cleaves) if cons else r.randrange(len(self.leaves)))
        return r.choice(["Opt(L%d)" % r.randrange(len(self.leaves)), "Opt(L%d, %r)" % (r.randrange(len(self.leaves)), r.choice(VALS[1:])),
                         "Many(L%d)" % r.choice(self.cleaves), "EOF"])

    def wrap(self, s, prec, need):
        """parenthesise when Python needs it, and half of the time when it does not"""
        if prec < need or (prec < 20 and self.rng.random() < 0.5):
            return "(" + s + ")"
        return s

    def expr(self, d, cons=False):
        """-> (text, precedence of its top operator); cons: must not succeed without consuming"""
        r = self.rng
        if d <= 0 or r.random() < 0.1:
            return self.atom(cons), 20
        k = r.choice(["+", "+", "+", "+", "|", "|", "|", "<<", ">>", "&", "/", "chain+", "chain|", "rnest+", "rnest|",
                      "map", "sep_by", "until", "Many", "Opt", "Wrapper", "Sequence", "Choice", "Lift", "%"])
        if k in ("chain+", "chain|", "rnest+", "rnest|"):
            op = k[-1]
            n = r.randint(3, 4)
            parts = [self.expr(d - 1, cons and (op == "|" or i == 0)) for i in range(n)]
            if k.startswith("chain"):          # a + b + c  /  (a + b) + c
                s = self.wrap(parts[0][0], parts[0][1], PREC[op])
                for t, pr in parts[1:]:
                    s = s + " " + op + " " + self.wrap(t, pr, PREC[op] + 1)
                    if r.random() < 0.3:
                        s = "(" + s + ")"
                return s, (20 if s.endswith(")") and s.startswith("(") and r.random() < 0 else PREC[op])
            s = self.wrap(parts[-1][0], parts[-1][1], PREC[op] + 1)    # a + (b + (c + d))
            for t, pr in reversed(parts[:-1]):
                s = self.wrap(t, pr, PREC[op]) + " " + op + " (" + s + ")"
            return s, PREC[op]
        if k in PREC and k != "%":
            if k == "|":
                a, b = self.expr(d - 1, cons), self.expr(d - 1, cons)
            else:
                a, b = self.expr(d - 1, cons), self.expr(d - 1, False)
            return self.wrap(a[0], a[1], PREC[k]) + " " + k + " " + self.wrap(b[0], b[1], PREC[k] + 1), PREC[k]
        if k == "%":
            a = self.expr(d - 1, cons)
            return self.wrap(a[0], a[1], 13) + " %% 'n%d'" % r.randrange(9), 13
        if k == "map":
            a = self.expr(d - 1, cons)
            return "(%s).map(F%d)" % (a[0], r.randrange(len(OP_FNS))), 20
        if k == "sep_by" and not cons:
            a, b = self.expr(d - 1, True), self.expr(d - 1, False)
            return "(%s).sep_by(%s)" % (a[0], b[0]), 20
        if k == "until" and not cons:
            a, b = self.expr(d - 1, True), self.expr(d - 1, False)
            return "(%s).until(%s)" % (a[0], b[0]), 20
        if k == "Many":
            a = self.expr(d - 1, True)
            return ("Many(%s, lower=%d)" % (a[0], r.choice([1, 1, 2])) if cons or r.random() < 0.5 else "Many(%s)" % a[0]), 20
        if k == "Opt" and not cons:
            a = self.expr(d - 1, False)
            return "Opt(%s, %r)" % (a[0], r.choice(VALS)), 20
        if k == "Wrapper":
            return "Wrapper(%s)" % self.expr(d - 1, cons)[0], 20
        if k in ("Sequence", "Choice"):
            n = r.randint(1, 3)
            kids = [self.expr(d - 1, cons and (k == "Choice" or i == 0))[0] for i in range(n)]
            return "%s([%s])" % (k, ", ".join(kids)), 20
        if k == "Lift":
            n = r.randint(1, 3)
            s = "Lift(G%d)" % r.randrange(len(OP_FNS) + 1)
            for i in range(n):
                a = self.expr(d - 1, cons and i == 0)
                s += " * " + self.wrap(a[0], a[1], 14)
            return s, 13
        return self.atom(cons), 20


def op_spec(node):
    """Python's own parse of the expression -> the operator tree (JSON-able)"""
    if isinstance(node, _ast.Name):
        return ["leaf", node.id]
    if isinstance(node, _ast.BinOp):
        if isinstance(node.op, _ast.Mod):
            return ["%", op_spec(node.left)]
        return ["bin", AST_BIN[type(node.op)], op_spec(node.left), op_spec(node.right)]
    if isinstance(node, _ast.Call):
        f = node.func
        if isinstance(f, _ast.Attribute):
            if f.attr == "map":
                return [".map", node.args[0].id, op_spec(f.value)]
            return ["." + f.attr, op_spec(f.value), op_spec(node.args[0])]
        if f.id == "Many":
            lower = node.keywords[0].value.value if node.keywords else 0
            return ["Many", op_spec(node.args[0]), lower]
        if f.id == "Opt":
            return ["Opt", op_spec(node.args[0]), [_ast.literal_eval(node.args[1])] if len(node.args) > 1 else [None]]
        if f.id == "Wrapper":
            return ["Wrapper", op_spec(node.args[0])]
        if f.id in ("Sequence", "Choice"):
            return [f.id, [op_spec(e) for e in node.args[0].elts]]
        if f.id == "Lift":
            return ["Lift", node.args[0].id]
    raise ValueError("expression form outside the generator: %s" % _ast.dump(node))


def op_env(leaves):
    """fresh objects for one evaluation (Sequence.__add__ / Choice.__or__ / Lift.__mul__ mutate their left operand)"""
    env = {"Many": Many, "Opt": Opt, "Wrapper": Wrapper, "Sequence": Sequence, "Choice": Choice, "Lift": Lift, "EOF": P.EOF}
    for i, l in enumerate(leaves):
        env["L%d" % i] = build(l, [])
    for i, f in enumerate(OP_FNS):
        env["F%d" % i] = fn_map(f)
        env["G%d" % i] = fn_lift(f)
    env["G%d" % len(OP_FNS)] = fn_lift(["pair"])
    return env


def doc_term(sp, env):
    """the term the DOCUMENTATION says the expression builds (parsr/__init__.py docstrings of __add__, __or__, Sequence,
    Choice, Lift): `+` / `|` accumulate onto a Sequence / Choice on the LEFT only; everything else nests"""
    k = sp[0]
    if k == "leaf":
        return walk(env[sp[1]], {})
    if k == "%":
        return doc_term(sp[1], env)
    if k == "bin":
        a, b = doc_term(sp[2], env), doc_term(sp[3], env)
        op = sp[1]
        if op == "+":
            return ["seq", a[1] + [b]] if a[0] == "seq" else ["seq", [a, b]]
        if op == "|":
            return ["cho", a[1] + [b]] if a[0] == "cho" else ["cho", [a, b]]
        if op == "*":
            if a[0] != "lift":
                raise ValueError("* on a non-Lift")
            return ["lift", a[1], a[2] + [b]]
        return [{"<<": "kl", ">>": "kr", "&": "fb", "/": "nfb"}[op], a, b]
    if k == ".map":
        return ["map", fn_tokens(env[sp[1]]), doc_term(sp[2], env)]
    if k == ".sep_by":
        a, b = doc_term(sp[1], env), doc_term(sp[2], env)
        return ["lift", ["accum"], [["opt", a, [NO_MATCH]], ["many", ["kr", b, a], 0]]]
    if k == ".until":
        return ["until", doc_term(sp[1], env), doc_term(sp[2], env)]
    if k == "Many":
        return ["many", doc_term(sp[1], env), sp[2]]
    if k == "Opt":
        return ["opt", doc_term(sp[1], env), [sp[2][0]]]
    if k == "Wrapper":
        return ["wrap", doc_term(sp[1], env)]
    if k == "Sequence":
        return ["seq", [doc_term(x, env) for x in sp[1]]]
    if k == "Choice":
        return ["cho", [doc_term(x, env) for x in sp[1]]]
    if k == "Lift":
        return ["lift", fn_tokens(env[sp[1]]), []]
    raise ValueError(k)


def op_tokens(sp, env):
    """the operator tree for the driver (`ops`): leaves as terms, operators as themselves"""
    k = sp[0]
    if k == "leaf":
        return tokens(walk(env[sp[1]], {}))
    if k == "%":
        return ["%"] + op_tokens(sp[1], env)
    if k == "bin":
        return [sp[1]] + op_tokens(sp[2], env) + op_tokens(sp[3], env)
    if k == ".map":
        return [".map"] + fn_tokens(env[sp[1]]) + op_tokens(sp[2], env)
    if k in (".sep_by", ".until"):
        return [k] + op_tokens(sp[1], env) + op_tokens(sp[2], env)
    if k == "Many":
        return ["Many", str(sp[2])] + op_tokens(sp[1], env)
    if k == "Opt":
        return ["Opt"] + val_tokens(sp[2][0]) + op_tokens(sp[1], env)
    if k == "Wrapper":
        return ["Wrapper"] + op_tokens(sp[1], env)
    if k in ("Sequence", "Choice"):
        out = [k, str(len(sp[1]))]
        for x in sp[1]:
            out += op_tokens(x, env)
        return out
    if k == "Lift":
        return ["Lift"] + fn_tokens(env[sp[1]])
    raise ValueError(k)


def construct(t, fns):
    """walker-form term -> real objects through the CLASS CONSTRUCTORS only (no operator, no helper method)"""
    k = t[0]
    if k == "any":
        return P.AnyChar
    if k == "eof":
        return P.EOF
    if k == "chr":
        return Char(t[1])
    if k == "set":
        return InSet(t[1])
    if k == "str":
        return String(t[1], t[2] or None, t[3])
    if k == "lit":
        return Literal(t[1], ignore_case=t[3]) if t[2] is None else Literal(t[1], value=t[2][0], ignore_case=t[3])
    if k == "seq":
        return Sequence([construct(c, fns) for c in t[1]])
    if k == "cho":
        return Choice([construct(c, fns) for c in t[1]])
    if k == "many":
        return Many(construct(t[1], fns), lower=t[2])
    if k == "until":
        return Until(construct(t[1], fns), construct(t[2], fns))
    if k == "opt":
        return Opt(construct(t[1], fns), t[2][0])
    two = {"fb": FollowedBy, "nfb": NotFollowedBy, "kl": KeepLeft, "kr": KeepRight}
    if k in two:
        return two[k](construct(t[1], fns), construct(t[2], fns))
    if k == "map":
        return Map(construct(t[2], fns), fns[("F",) + tuple(t[1])])
    if k == "lift":
        p = Lift(getattr(Parser, "_accumulate") if t[1] == ["accum"] else fns[("G",) + tuple(t[1])])
        p.set_children([construct(c, fns) for c in t[2]])
        return p
    if k == "wrap":
        return Wrapper(construct(t[1], fns))
    raise ValueError(k)


def op_case(chk, expr, leaves, n_inputs, cases, impl_lines, model_lines, rng=None, inputs=None):
    """one operator expression: build it with the operators, build the documented term with the constructors, read
    both object graphs back, compare structure and values; queue the model line"""
    sp = op_spec(_ast.parse(expr, mode="eval").body)
    env = op_env(leaves)
    real_op = eval(expr, {"__builtins__": {}}, env)
    t_op = walk(real_op, {})
    env2 = op_env(leaves)
    t_doc = doc_term(sp, env2)
    fns = {}
    for name, f in env2.items():
        if name[0] in "FG" and name[1:].isdigit():
            fns[(name[0],) + tuple(fn_tokens(f))] = f
    real_ctor = construct(t_doc, fns)
    if tokens(walk(real_ctor, {})) != tokens(t_doc):
        raise AssertionError("harness: constructor build does not read back as the documented term")
    case = {"kind": "operators", "expr": expr, "leaves": leaves}
    same = tokens(t_op) == tokens(t_doc)
    chk.count("operators:structure-" + ("as-documented" if same else "DIFFERS"))
    ks = set()
    kinds(t_doc, ks)
    for k in ks:
        chk.count("opnode:" + k)
    if inputs is None:
        inputs = gen_inputs(rng, t_doc, [], n_inputs)
    value_diff = None
    otok = " ".join(op_tokens(sp, env2))
    rtok = " ".join(tokens(t_op))
    for s in inputs:
        l_op, sum_op, cferr = run_impl(real_op, s)
        l_ct, sum_ct, _ = run_impl(real_ctor, s)
        c = dict(case, input=s)
        cases.append(c)
        impl_lines.append("same=1|" + l_op)
        model_lines.append("ops\t%s\t%s\t%s" % (otok, rtok, enc(s)))
        chk.case(("ops", expr, tuple(map(str, leaves)), s), nontrivial=l_op.startswith("ok"))
        if l_op == "hang" or l_ct == "hang":
            chk.failure("the parser built by %s did not terminate on %r" % (expr, s), c)
            cases.pop(), impl_lines.pop(), model_lines.pop()
            raise StopStream()
        want = reference(t_doc, [], s)
        if l_op != l_ct and value_diff is None:
            value_diff = (s, l_op, l_ct)
        elif want is not None and want != sum_op:
            if sum_op.startswith("value") and cferr and reference(t_doc, [], s, leaky=True, swallow=True) == sum_op:
                chk.failure("function error swallowed in %s on %r" % (expr, s), c, "function-error-swallowed")
            elif value_diff is None:
                value_diff = (s, sum_op, want)
    if value_diff is not None:
        chk.failure("the operator expression %s (leaves %s) returns %s on input %r; the documented term %s returns %s" % (
            expr, json.dumps(leaves), value_diff[1], value_diff[0], " ".join(tokens(t_doc)), value_diff[2]),
            dict(case, input=value_diff[0]))
    elif not same:
        chk.failure("the operator expression %s (leaves %s) builds the term  %s  — the documentation says  %s  "
                    "(no value difference on the %d inputs tried)" % (expr, json.dumps(leaves), " ".join(tokens(t_op)),
                                                                     " ".join(tokens(t_doc)), len(inputs)), dict(case, input=inputs[0]))


def operators_stream(chk, n_exprs, n_inputs):
    rng = chk.rng
    cases, impl_lines, model_lines = [], [], []
    corpus = json.load(open(os.path.join(VERIF, "corpus", "C19", "operators.json")))
    try:
        for e in corpus["expressions"]:
            op_case(chk, e["expr"], e["leaves"], n_inputs, cases, impl_lines, model_lines, inputs=e["inputs"])
        for i in range(n_exprs):
            g = OpGen(rng)
            expr, _ = g.expr(rng.choice([1, 2, 2, 3, 3, 4]))
            op_case(chk, expr, g.leaves, n_inputs, cases, impl_lines, model_lines, rng=rng)
            if i in (2, 40):
                chk.sample({"operator-expression": expr, "leaves": g.leaves, "impl": impl_lines[-1], "model-line": model_lines[-1][:300]})
    except StopStream:
        chk.count("operators:stopped-after-hang")
    if model_lines:
        model = run_driver("C19", model_lines)
        bad_wf = sum(1 for m in model if not m.endswith("|wf=1"))
        if bad_wf:
            chk.count("operators:not-WellFormed", bad_wf)
        model = [m.rsplit("|wf=", 1)[0] for m in model]
        chk.compare("operators-vs-model", cases, impl_lines, model)


# --------------------------------------------------------------------------- witnesses

TAG_WITNESS = {"rules": [], "top": ["seq", [["stag", ["chr", "b"]],
                                           ["opt", ["seq", [["stag", ["chr", "a"]], ["chr", "x"]], "list"], None],
                                           ["chr", "a"], ["etag", ["chr", "b"], False]], "list"]}
TAG_CONTROL = {"rules": [], "top": ["seq", [["stag", ["chr", "b"]], ["chr", "a"], ["etag", ["chr", "b"], False]], "list"]}
FERR_WITNESS = {"rules": [], "top": ["many", ["map", ["raiseif", "a"], ["chr", "a"]], 0]}


def witnesses(chk):
    # fixed defects: must pass now
    path = os.path.join(VERIF, "corpus", "C19", "sep_by_falsy.json")
    for doc in json.load(open(path))["docs"]:
        chk.case(("corpus-json", doc), True)
        json_case(chk, doc, "corpus")
    # known findings: reproduce on the implementation
    for fid, docs in (("json-leading-separator", ["[,1]", '{,"a":1}']), ("json-leading-zero", ["01", "[007]"])):
        hit = all(json_impl(d)[0] != json_ref(d)[0] for d in docs)
        chk.witnesses.append({"finding": fid, "inputs": docs, "reproduced": hit})
        if hit:
            chk.finding_reproduced(fid)
    p1, _ = build_grammar(TAG_WITNESS)
    p2, _ = build_grammar(TAG_CONTROL)
    hit = run_impl(p1, "bab")[1] == "perr" and run_impl(p2, "bab")[1].startswith("value")
    chk.witnesses.append({"finding": "tag-stack-not-restored", "input": "bab", "reproduced": hit})
    if hit:
        chk.finding_reproduced("tag-stack-not-restored")
    p3, _ = build_grammar(FERR_WITNESS)
    line, summary, cferr = run_impl(p3, "a")
    hit = summary.startswith("value") and cferr
    chk.witnesses.append({"finding": "function-error-swallowed", "input": "a", "impl": line, "reproduced": hit})
    if hit:
        chk.finding_reproduced("function-error-swallowed")


# --------------------------------------------------------------------------- run

def run(chk):
    rng = chk.rng
    quick = chk.tier == "quick"
    n_grammars = 3800 if quick else 40000
    n_inputs = 14 if quick else 30
    n_json = 3000 if quick else 60000
    n_tag = 1500 if quick else 20000
    chk.rule = ("grammar terms of depth <= 4-5 over the combinators (alphabet abc + 'B' and '\\\\', repetition only over "
                "syntactically consuming sub-terms, Forward references only after consumption, 20%% of grammars with "
                "Start/EndTagName, 15%% with raising actions), built as real parsr objects; per grammar ~%d inputs: "
                "sampled derivations of the term, their one-edit neighbours, and random strings up to length 6; "
                "non-trivial = process() succeeded, distinct = (term, rules, input) not seen before" % n_inputs)
    chk.assumptions = [
        "mapped functions are entries of a fixed table (identity, join, len, constant, backtrack-if, raise-if, "
        "sep_by's _accumulate); the theorems hold for every table",
        "str.lower() is modelled on ASCII only (Literal ignore_case / EndTagName ignore_case); inputs are ASCII",
        "ctx.pos/errors/parser_stack (error text), PosMarker, WithIndent/HangingString (indent stack) are not modelled",
        "termination: every generated grammar is checked WellFormed by the model (driver field wf=1) and every model run "
        "uses the fuel `bound rules term |input|` that Props.C19.no_divergence proves sufficient; a fuel-exhausted answer "
        "would show up as model:fuel-exhausted and as a correspondence mismatch",
        "the shipped JSON and tag-expression grammars are translated from their live object graphs into model terms "
        "(translate/grammars.py -> IV/Gen/Grammars.lean, trusted for the shape of the walk; functions identified by identity) "
        "and tied three-way: real grammar / translated grammar in the model / json.loads resp. boolean evaluation",
        "float(text) is not modelled: the model's number is the text and the harness applies float() to it before comparing; "
        "re.search in taglang.Regex is modelled as substring search (the generated patterns have no metacharacters)",
    ]
    # ---- 0. the shipped grammars, re-translated from the live objects
    try:
        from translate import grammars as tg
        text, _ = tg.generate(REPO)
        changed = tg.write_if_changed(text)
        chk.extra["translator"] = {"source": "live objects json_parser.Top, taglang.parse under " + REPO,
                                   "generated": "lean/IV/Gen/Grammars.lean", "rewrote_generated_file": changed}
    except Exception as e:
        chk.tie_broken("translator", "%s: %s" % (type(e).__name__, e), None)
    chk.lean(extra_targets=["IV.Gen.Grammars"])
    os.makedirs(os.path.join(VERIF, "corpus", "C19"), exist_ok=True)
    witnesses(chk)

    # ---- stream 1: corpus grammars, then random grammars (one driver call per batch)
    cases, impl_lines, model_lines = [], [], []

    def flush():
        if not model_lines:
            return
        model = run_driver("C19", model_lines)
        # last field: the model's WellFormed (the hypothesis of no_divergence) on the generated grammar
        bad_wf = [c for c, m in zip(cases, model) if not m.endswith("|wf=1")]
        chk.count("grammar:WellFormed", len(model) - len(bad_wf))
        if bad_wf:
            chk.tie_broken("generator-discipline", "%d generated grammars are not WellFormed in the model" % len(bad_wf),
                           {"kind": "term", "grammar": bad_wf[0]["grammar"], "input": bad_wf[0]["input"]})
        model = [m.rsplit("|wf=", 1)[0] for m in model]
        n_div = sum(1 for m in model if m.startswith("diverge"))
        if n_div:
            chk.count("model:fuel-exhausted", n_div)
        chk.compare("combinators-vs-model", list(cases), impl_lines, model,
                    show=lambda c: {"kind": "term", "grammar": c["grammar"], "input": c["input"]})
        del cases[:], impl_lines[:], model_lines[:]

    corpus = json.load(open(os.path.join(VERIF, "corpus", "C19", "grammars.json")))
    try:
        for entry in corpus["grammars"]:
            check_grammar(chk, entry["grammar"], entry["inputs"], cases, impl_lines, model_lines)
        for i in range(n_grammars):
            g = gen_grammar(rng, rng.choice([2, 3, 3, 4, 4, 5]))
            try:
                top, fwd = build_grammar(g)
                ids = dict((id(f), j) for j, f in enumerate(fwd))
                term = walk(top, ids)
                rules = [walk(f.children[0], ids) for f in fwd]
            except Untranslatable as e:
                chk.tie_broken("translation", "object graph not translatable: %s" % e, {"grammar": g})
                continue
            inputs = gen_inputs(rng, term, rules, n_inputs)
            check_grammar(chk, g, inputs, cases, impl_lines, model_lines)
            if i in (3, 500):
                chk.sample({"grammar": g, "term": " ".join(tokens(term)), "inputs": inputs[:4],
                            "impl": impl_lines[-len(inputs):][:4]})
            if len(model_lines) >= 60000:
                flush()
    except StopStream:
        chk.count("stream1:stopped-after-hang")
    flush()

    # ---- stream 1b: the grammar-building operators, every grouping (Props.C19 plus_* / alt_* theorems)
    operators_stream(chk, 1200 if quick else 15000, 6 if quick else 10)

    # ---- stream 2: JSON grammar vs json.loads on the documented subset  (+ the TRANSLATED grammar in the model)
    jdocs = []
    for i in range(n_json):
        quirks = rng.random() < 0.04
        doc = gen_json(rng, rng.choice([0, 1, 2, 2, 3, 3]), quirks)
        chk.case(("json", doc), True)
        json_case(chk, doc, "subset")
        jdocs.append(doc)
        if i == 7:
            chk.sample({"json": doc, "impl": repr(json_impl(doc))})
        # near misses: one structural character inserted or deleted; over-acceptance is a failure too
        if rng.random() < 0.3 and doc.strip():
            j = rng.randrange(len(doc))
            mut = rng.choice([doc[:j] + rng.choice(",0[]{}:") + doc[j:], doc[:j] + doc[j + 1:]])
            jdocs.append(mut)
            if "'" not in mut and "\\" not in mut and '""' not in mut and not RE_CTRL_IN_STRING(mut):
                chk.case(("json-mut", mut), json_ref(mut)[0] == "ok")
                json_case(chk, mut, "near-miss")
    chk.stream("json-vs-json.loads", chk.dist.get("json:subset:agree-ok", 0) + chk.dist.get("json:near-miss:agree-ok", 0) +
               chk.dist.get("json:near-miss:agree-error", 0), 0)
    jdocs += JSON_EXTRA
    real = [call_canon(json_parser.Top, d) for d in jdocs]
    model = [defloat(m) for m in run_driver("C19", ["json\t" + enc(d) for d in jdocs])]
    for r in real:
        chk.count("json-translated:" + r.split(" ")[0])
    chk.compare("json-translated-vs-real", [{"kind": "json", "doc": d} for d in jdocs], real, model)

    # ---- stream 3: tag expressions vs boolean evaluation  (+ the TRANSLATED grammar in the model)
    texts = []
    for i in range(n_tag):
        e = gen_expr(rng, rng.choice([1, 2, 3, 3, 4]))
        text = render(rng, e, 0)
        chk.case(("tag", text), True)
        tag_case(chk, text, e)
        texts.append((text, e))
        if rng.random() < 0.15 and text:
            j = rng.randrange(len(text))
            mut = rng.choice([text[:j] + text[j + 1:], text[:j] + rng.choice("!&|,() a") + text[j:]])
            # re.compile / re.search are not modelled beyond patterns without metacharacters
            if all(m.group(1) == "" or m.group(1).isalnum() for m in re.finditer(r"/(\S*)", mut)):
                texts.append((mut, None))
        if i == 5:
            chk.sample({"tag-expression": text, "ast": e})
    chk.stream("taglang-vs-boolean", chk.dist.get("taglang:agree", 0), 0)
    sets = list(tagsets())
    sets_field = ",".join("+".join(enc(t) for t in ts) if ts else "_" for ts in sets)
    real = [tag_bits(t, sets) for t, _ in texts]
    model = run_driver("C19", ["tag\t%s\t%s" % (enc(t), sets_field) for t, _ in texts])
    for r in real:
        chk.count("taglang-translated:" + ("bits" if r[0] in "01" else r))
    chk.compare("taglang-translated-vs-real", [{"kind": "taglang-text", "text": t} for t, _ in texts], real, model)


JSON_EXTRA = ["[0, 1]", "[null]", "[false]", "[,1]", '{,"a":1}', "01", "[007]", "[ ]", "{ }", '{"a" :1}', '""', "'a b'",
              '"a\\"b"', "-", "1.", "[1,]", '{"a":1,"a":2}', "", "  ", "[[[[[[1]]]]]]", "tru", "nul l", "-0", "1.5.2"]


def call_canon(parser, text):
    """what Parser.__call__ reports, canonically"""
    RecCtx.last = None
    try:
        return "value " + canon(parser(text, Ctx=RecCtx))
    except Exception:
        c = RecCtx.last
        return "ferr" if (c is not None and c.function_error is not None) else "perr"


RE_FLOAT = re.compile(r"F([0-9a-f.]+)")


def defloat(line):
    """the model's float is the text handed to float(): apply the (unmodelled) conversion here"""
    return RE_FLOAT.sub(lambda m: "F" + repr(float(dec(m.group(1)))), line)


def tag_bits(text, sets):
    RecCtx.last = None
    try:
        pred = taglang.parse(text, Ctx=RecCtx)
    except Exception:
        c = RecCtx.last
        return "ferr" if (c is not None and c.function_error is not None) else "perr"
    out = []
    for ts in sets:
        try:
            out.append("1" if pred(ts) else "0")
        except Exception:
            out.append("?")
    return "".join(out)


def RE_CTRL_IN_STRING(doc):
    """a near-miss that moved a raw newline/tab inside a string literal is outside the subset"""
    inside = False
    for ch in doc:
        if ch == '"':
            inside = not inside
        elif inside and ch in "\n\r\t":
            return True
    return False


# --------------------------------------------------------------------------- replay

def replay(data):
    c = data.get("case") or {}
    if data.get("kind") == "broken-tie":
        first = (data.get("broken") or [{}])[0]
        c = first.get("case") or {}
        c = c.get("case", c)
    print("replaying", json.dumps(c, ensure_ascii=False)[:2000])
    kind = c.get("kind")
    bad = False
    if kind == "term":
        g, s = c["grammar"], c["input"]
        top, fwd = build_grammar(g)
        ids = dict((id(f), j) for j, f in enumerate(fwd))
        term = walk(top, ids)
        rules = [walk(f.children[0], ids) for f in fwd]
        line, summary, cferr = run_impl(top, s)
        want = reference(term, rules, s)
        rtok = " ".join([str(len(rules))] + [x for r in rules for x in tokens(r)])
        m = run_driver("C19", ["run\t%s\t%s\t%s\t%s" % (FUEL, rtok, " ".join(tokens(term)), enc(s))])[0].rsplit("|wf=", 1)[0]
        print("term          :", " ".join(tokens(term)))
        print("implementation:", line)
        print("model         :", m)
        print("PEG reference :", want, " implementation reports:", summary)
        bad = want is not None and want != summary
        if m != line:
            print("model and implementation DISAGREE")
    elif kind == "operators":
        class _C(object):
            def __init__(self):
                self.failures, self.dist = [], {}
            def count(self, *a): pass
            def case(self, *a, **k): pass
            def failure(self, desc, case, finding=None): self.failures.append(desc)
        cc = _C()
        cs, il, ml = [], [], []
        op_case(cc, c["expr"], c["leaves"], 0, cs, il, ml, inputs=[c["input"]])
        m = run_driver("C19", ml)[0].rsplit("|wf=", 1)[0]
        print("operator-built object:", il[0])
        print("model (plus/alt/mul) :", m, "" if m == il[0] else "  <-- DISAGREE (same=0: the built structure is not the model's term)")
        for d in cc.failures:
            print(d)
        bad = bool(cc.failures)
    elif kind == "json":
        a, b = json_impl(c["doc"]), json_ref(c["doc"])
        print("json grammar:", a, " json.loads:", b)
        real = call_canon(json_parser.Top, c["doc"])
        model = defloat(run_driver("C19", ["json\t" + enc(c["doc"])])[0])
        print("real grammar (canonical):", real)
        print("translated grammar in the model:", model, "" if real == model else "  <-- DISAGREE")
        in_subset = "'" not in c["doc"] and "\\" not in c["doc"] and '""' not in c["doc"] and not RE_CTRL_IN_STRING(c["doc"])
        bad = in_subset and not (a[0] == b[0] and (a[0] == "error" or same_json(a[1], b[1])))
    elif kind == "taglang-text":
        sets = list(tagsets())
        sets_field = ",".join("+".join(enc(t) for t in ts) if ts else "_" for ts in sets)
        real = tag_bits(c["text"], sets)
        model = run_driver("C19", ["tag\t%s\t%s" % (enc(c["text"]), sets_field)])[0]
        print("real grammar    :", real)
        print("translated/model:", model, "" if real == model else "  <-- DISAGREE")
    elif kind == "taglang":
        e = _tuplify(c["expr"])
        try:
            pred = taglang.parse(c["text"])
            for ts in ([c["tags"]] if "tags" in c else list(tagsets())):
                got, want = pred(ts), eval_expr(e, ts)
                if got is not want:
                    print("tags %r: grammar %r, boolean evaluation %r" % (ts, got, want))
                    bad = True
        except Exception as ex:
            print("rejected:", str(ex)[:200])
            bad = True
    else:
        print("nothing to replay in this file (kind=%r)" % data.get("kind"))
    print("property violated on this input" if bad else "property holds on this input")
    return 1 if bad else 0


def _tuplify(x):
    return tuple(_tuplify(y) for y in x) if isinstance(x, list) else x
