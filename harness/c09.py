"""
C09 — obfuscation is a consistent mapping, injective for IPs and hosts, and reported.

Tie: histories of clean_content calls on one real `Cleaner` (outputs, mapping() of every obfuscator after
every call, the rhsm facts file and the CSV reports at the end) against IV.CleanState (Drivers/C09.lean).
The regexes of the live modules are parsed with `re._parser` and sent to the driver, SHA-1 is sent as a
table; the model's matcher is also compared directly with `re.findall` / `Password.parse_line`.
Oracle (on the implementation only): mapping stable and growing over the history, one substitute per
original, distinct substitutes for distinct IPv4 / host originals, no phantom originals, and every
delimited original of an enabled obfuscator shows exactly its mapped substitute in the output.
Round 10: calls also enter through clean_content(one string) and clean_file (incl. the netstat_-neopa name = width mode);
generate_report() is taken before / between / after calls and twice in a row and held to the model's `report` answer
(IV/Model/CleanReport.lean: flags, system name, five facts lists, five CSV files or their absence) and to the oracle (rows =
mapping() at that moment, each original once, no IPv4 / host substitute twice, flags = configuration, files exactly for the
enabled obfuscators, earlier report = prefix of the later one, a report changes no mapping); groups of histories are re-run
on Cleaners alive at the same time and must give what they give alone.
"""
import csv
import hashlib
import json
import os
import re
import shutil
import tempfile

try:
    import re._parser as sre_parse
    import re._constants as sre_c
except ImportError:  # pragma: no cover
    import sre_parse
    import sre_constants as sre_c

import logging

from harness.common import VERIF, enc, dec, run_driver

from insights.client.config import InsightsConfig
from insights.cleaner import Cleaner
from insights.cleaner.ip import IPv4, IPv6
from insights.cleaner.mac import Mac
from insights.cleaner import password as password_mod

logging.getLogger("insights").addHandler(logging.NullHandler())      # the cleaner logs what it is about to raise

# --------------------------------------------------------------------------- regex translation


class Unsupported(Exception):
    pass


_CATS = {
    sre_c.CATEGORY_WORD: "w", sre_c.CATEGORY_NOT_WORD: "W", sre_c.CATEGORY_DIGIT: "d",
    sre_c.CATEGORY_NOT_DIGIT: "D", sre_c.CATEGORY_SPACE: "s", sre_c.CATEGORY_NOT_SPACE: "S",
}


def _seq(items):
    items = list(items)
    out = ["S", str(len(items))]
    for op, av in items:
        out += _tok(op, av)
    return out


def _tok(op, av):
    if op is sre_c.LITERAL:
        return ["L", "%x" % av]
    if op is sre_c.NOT_LITERAL:
        return ["N", "%x" % av]
    if op is sre_c.ANY:
        return ["A"]
    if op is sre_c.IN:
        neg, its, n = 0, [], 0
        for o, a in av:
            if o is sre_c.NEGATE:
                neg = 1
                continue
            n += 1
            if o is sre_c.LITERAL:
                its += ["l", "%x" % a]
            elif o is sre_c.RANGE:
                its += ["r", "%x" % a[0], "%x" % a[1]]
            elif o is sre_c.CATEGORY and a in _CATS:
                its += ["c", _CATS[a]]
            else:
                raise Unsupported("class item %s" % (o,))
        return ["C", str(neg), str(n)] + its
    if op is sre_c.MAX_REPEAT:
        mn, mx, sub = av
        return ["R", str(mn), "*" if mx == sre_c.MAXREPEAT else str(mx)] + _seq(sub)
    if op is sre_c.SUBPATTERN:
        group, add, dele, sub = av
        if add or dele:
            raise Unsupported("inline flags")
        return _seq(sub) if group is None else ["G", str(group)] + _seq(sub)
    if op is sre_c.BRANCH:
        return ["B", str(len(av[1]))] + [t for s in av[1] for t in _seq(s)]
    if op is sre_c.AT:
        if av is sre_c.AT_BOUNDARY:
            return ["W"]
        raise Unsupported("anchor %s" % (av,))
    if op in (sre_c.ASSERT, sre_c.ASSERT_NOT):
        d, sub = av
        if d < 0 and sub.getwidth() != (1, 1):
            raise Unsupported("look-behind wider than one character")
        return ["K", "1" if d > 0 else "0", "1" if op is sre_c.ASSERT_NOT else "0"] + _seq(sub)
    if op is sre_c.GROUPREF:
        return ["F", str(av)]
    raise Unsupported("regex construct %s" % (op,))


def retok(pattern, flags=0):
    """(ignorecase, token stream) of a pattern in the fragment the Lean matcher implements"""
    tree = sre_parse.parse(pattern, flags)
    fl = tree.state.flags
    if fl & ~(re.I | re.U):
        raise Unsupported("flags %r" % fl)
    return (1 if fl & re.I else 0), ",".join(_seq(tree))


def host_pattern(domain):
    # hostname.py:99 (the domain is interpolated unescaped)
    return r'(?![\W\-\:\ \.])[a-zA-Z0-9\-\_\.]*\.%s' % domain


NONASCII = u"\u00e9\u20ac\u4e2d\u0663\u00a0\u0085\u2028\u2029"   # é € 中 ٣ NBSP NEL LS PS (no character with a distinct lower/upper form that matters)


def sha(s):
    return hashlib.sha1(s.encode("utf-8")).hexdigest()


def setup_lines():
    """tables and regexes of the live modules"""
    w = "".join(c for c in NONASCII if c.isalnum() or c == "_")
    s = "".join(c for c in NONASCII if c.isspace())
    d = "".join(c for c in NONASCII if c.isdecimal())
    lines = ["uni\t%s\t%s\t%s" % (enc(w), enc(s), enc(d))]
    pairs = []
    for i in range(256):
        k = "%02x" % i
        pairs += [enc(k), enc(sha(k))]
    lines.append("shab\t" + "\t".join(pairs))
    mac = Mac()
    ip6 = IPv6()
    if len(mac._ignore_list) != 1 or len(ip6._ignore_list) != 1 or len(password_mod.DEFAULT_PASSWORD_REGEXS) != 2 \
            or IPv4()._ignore_list != ["127.0.0.1"] or IPv4()._start_ip != "10.230.230.1":
        raise Unsupported("ignore lists / password regex list / start address differ from the modelled shape")
    for name, pat, fl in (("ip", IPv4().pattern, 0), ("mac", mac.pattern, re.I), ("macign", mac._ignore_list[0], re.I),
                          ("ip6", ip6.pattern, re.I), ("ip6ign", ip6._ignore_list[0], re.I),
                          ("pw1", password_mod.DEFAULT_PASSWORD_REGEXS[0], 0),
                          ("pw2", password_mod.DEFAULT_PASSWORD_REGEXS[1], 0)):
        ic, toks = retok(pat, fl)
        lines.append("re\t%s\t%d\t%s" % (name, ic, toks))
    return lines


def enc_l(xs):
    return ",".join(enc(x) for x in xs) if xs else "~"


def enc_allow(al):
    if al is None:
        return "N"
    if not al:
        return "~"
    return ",".join("%s:%d" % (enc(k), v) for k, v in al.items())


def sha_line(strings):
    strings = sorted(set(strings))
    return "sha\t" + "\t".join(enc(x) + "\t" + enc(sha(x)) for x in strings)


def init_line(cfg):
    dom = cfg["fqdn"].split(".", 1)[1] if "." in cfg["fqdn"] else None
    hre = "-"
    if dom is not None:
        ic, hre = retok(host_pattern(dom))
    return "init\t%s\t%d\t%d\t%d\t%d\t%s\t%s\t%s" % (
        enc(cfg["fqdn"]), cfg["obfuscate"], cfg["ipv6"], cfg["hostname"], cfg["mac"],
        enc_l(cfg["keywords"]), enc_l(cfg["patterns"]), hre)


def clean_line(call):
    return ("cleanw" if call.get("width") else "clean") + "\t%s\t%d\t%s%s" % (enc_l(call["no_obfuscate"]), call["no_redact"], enc_allow(call["allowlist"]),
                                   "".join("\t" + enc(l) for l in call["lines"]))


def is_width_file(call):
    return call.get("entry") == "file" and (call.get("fname") or "spec").endswith("netstat_-neopa")


def eff_width(call):
    """is the width mode on for this call (width=True, or clean_file on a file named netstat_-neopa)"""
    return bool(call.get("width")) or is_width_file(call)


def seen_lines(call):
    """the lines as the parsers get them (a file's lines keep their terminator)"""
    return [l + "\n" for l in call["lines"]] if call.get("entry") == "file" else call["lines"]


def call_requests(call):
    """driver requests of one call; the LAST one carries the answer"""
    entry = call.get("entry", "list")
    args = "%s\t%d\t%s" % (enc_l(call["no_obfuscate"]), call["no_redact"], enc_allow(call["allowlist"]))
    if entry == "str":
        return ["cleans\t%s\t%s" % (args, enc(call["lines"][0]))]
    if entry == "file":
        if is_width_file(call):
            # clean_file on a file named netstat_-neopa = width-mode clean_content on the file's lines (terminators kept),
            # an exception = file untouched; the composition is stated here, the parts are the model's
            if not call["lines"]:
                return ["cleanw\t%s" % args]
            return ["cleanw\t%s%s" % (args, "".join("\t" + enc(l + "\n") for l in call["lines"]))]
        return ["fset\t%s" % enc(file_text(call)), "cfile\t%s" % args]
    return [clean_line(call)]


def call_answer(call, ans):
    """the model's answer in the shape of do_call"""
    entry = call.get("entry", "list")
    fs = ans.split("\t")
    if entry == "str":
        if ans == "None":
            return []
        return [dec(fs[1])] if fs[0] == "S" and len(fs) == 2 else ["<%s>" % ans]
    if entry == "file":
        if is_width_file(call):
            if ans == "raised":
                return [RAISED]
            if fs[0] != "ok":
                return ["<%s>" % ans]
            out = [dec(x) for x in fs[1:]]
            if not call["lines"]:
                return []                      # an empty file is left alone
            if not out:
                return []                      # nothing left: the file is removed
            return text_lines("".join(out))
        if ans == "N":
            return []
        return text_lines(dec(fs[1])) if fs[0] == "F" and len(fs) == 2 else ["<%s>" % ans]
    return model_out(ans)


def hextets(lines):
    """candidate arguments of IPv6's sha1: pieces between colons, without leading zeros, lower-cased"""
    out = set()
    for l in lines:
        for tok in re.split(r"[\s]+", l):
            if ":" in tok:
                for h in re.split(r"[:/]", tok):
                    for j in range(len(h)):
                        x = h[j:].lstrip("0").lower()
                        if x and len(x) <= 6:
                            out.add(x)
                        x = h[:len(h) - j].lstrip("0").lower()
                        if x and len(x) <= 6:
                            out.add(x)
    return out


def real_hostname(sock):
    """the system's REAL name as insights.util.hostname.determine_hostname documents it ("find fqdn if we can"): the name
    the resolver gives for the host name, else the fqdn, when one of them is longer than the bare host name and is not a
    localhost name; else the host name — written from that description, not imported"""
    hn, fq, ex = sock["gethostname"], sock["getfqdn"], sock["ex"] or ""
    if len(fq) > len(hn) or len(ex) > len(hn):
        if ex and "localhost" not in ex:
            return ex
        if "localhost" not in fq:
            return fq
    return hn


class patched_socket(object):
    """socket.gethostname / getfqdn / gethostbyname_ex (and gethostbyname) answer with generated names"""

    def __init__(self, sock):
        self.sock = sock

    def __enter__(self):
        import socket
        sock = self.sock
        self.saved = dict((n, getattr(socket, n)) for n in ("gethostname", "getfqdn", "gethostbyname_ex", "gethostbyname"))

        def ex(name):
            if sock["ex"] is None:
                raise socket.gaierror(-2, "Name or service not known")
            return (sock["ex"], [], ["192.0.2.1"])
        socket.gethostname = lambda: sock["gethostname"]
        socket.getfqdn = lambda name="": sock["getfqdn"]
        socket.gethostbyname_ex = ex
        socket.gethostbyname = lambda name: "192.0.2.1"
        return self

    def __exit__(self, *a):
        import socket
        for n, f in self.saved.items():
            setattr(socket, n, f)


def mk_cleaner(cfg, facts_file=None):
    extra = {}
    for k in ("display_name", "ansible_host"):
        if cfg.get(k):
            extra[k] = cfg[k]
    conf = InsightsConfig(obfuscate=bool(cfg["obfuscate"]), obfuscate_ipv6=bool(cfg["ipv6"]),
                          obfuscate_hostname=bool(cfg["hostname"]), obfuscate_mac=bool(cfg["mac"]), **extra)
    if facts_file:
        conf.rhsm_facts_file = facts_file
    rm = {}
    if cfg["keywords"] is not None:
        rm["keywords"] = list(cfg["keywords"])
    if cfg["patterns"]:
        # regex form of the configuration (file-content-redaction.yaml `patterns: {regex: [...]}`): generated only with
        # literal words, for which re.search is the substring test of the plain form
        rm["patterns"] = {"regex": list(cfg["patterns"])} if cfg.get("patterns_regex") else list(cfg["patterns"])
    if cfg.get("socket"):
        # no fqdn given (as insights.collect.collect() and InsightsConnection._clean_facts() do): the Cleaner finds the name
        with patched_socket(cfg["socket"]):
            return Cleaner(conf, rm)
    return Cleaner(conf, rm, cfg["fqdn"])


KINDS = ("ip", "hostname", "mac", "ipv6", "keyword")


def impl_mappings(cl):
    out = {}
    for k in KINDS:
        ob = cl.obfuscate.get(k)
        if not ob:
            out[k] = []
            continue
        try:
            out[k] = [(m["original"], m["obfuscated"]) for m in ob.mapping()]
        except Exception as e:      # a mapping() that raises or lists something else than original/obfuscated pairs
            out[k] = [("<mapping() of %s unusable: %s>" % (k, type(e).__name__), "")]
        if not all(isinstance(o, str) and isinstance(x, str) for o, x in out[k]):
            out[k] = [("<mapping() of %s lists non-strings>" % k, "")]
    out["keyword"] = sorted(out["keyword"])
    return out


def model_mappings(ans):
    fs = ans.split("\t")
    out = {}
    for k, f in zip(KINDS, fs):
        out[k] = [] if f == "~" else [tuple(dec(x) for x in it.split(">")) for it in f.split(",")]
    out["keyword"] = sorted(out["keyword"])
    return out


def model_out(ans):
    fs = ans.split("\t")
    if ans == "raised":
        return [RAISED]
    if fs[0] != "ok":
        return ["<%s>" % ans]
    return [dec(x) for x in fs[1:]]


RAISED = "<raised>"      # clean_content raised: the spec is not emitted
NOEOL = "<no final newline>"


def shape(kind, val):
    return ["<shape:%s:%s>" % (kind, type(val).__name__)]


def text_lines(text):
    """lines of a cleaned file as the oracle reads them (LF-terminated; a missing final LF is made visible)"""
    parts = text.split("\n")
    if parts[-1] == "":
        return parts[:-1]
    return parts + [NOEOL]


def file_text(call):
    return "".join(l + "\n" for l in call["lines"])


def do_call(cl, call, tmp=None):
    """the implementation's answer as a list of lines; an exception = the outcome "spec not emitted".
    entry (default `list`): `str` = clean_content on ONE string (call["lines"] has one item), `file` = clean_file on a file
    holding the lines LF-terminated (name call["fname"]; the name netstat_-neopa switches the width mode on)"""
    entry = call.get("entry", "list")
    kw = {"no_obfuscate": list(call["no_obfuscate"]), "no_redact": bool(call["no_redact"]),
          "allowlist": None if call["allowlist"] is None else dict(call["allowlist"])}
    if entry == "file":
        d = tempfile.mkdtemp(prefix="c09f_", dir=tmp)
        try:
            path = os.path.join(d, call.get("fname") or "spec")
            with open(path, "w", encoding="utf-8", newline="") as fh:
                fh.write(file_text(call))
            try:
                r = cl.clean_file(path, **kw)
            except Exception:
                return [RAISED]
            if r is not None:
                return shape("clean_file", r)
            if os.path.islink(path) or not os.path.isfile(path):
                return [] if not os.path.lexists(path) else shape("path", "not-a-file")
            with open(path, "rb") as fh:
                raw = fh.read()
            try:
                return text_lines(raw.decode("utf-8"))
            except UnicodeDecodeError:
                return shape("file-bytes", raw)
        finally:
            shutil.rmtree(d, ignore_errors=True)
    try:
        if call.get("width"):
            kw["width"] = True
        if entry == "str":
            r = cl.clean_content(call["lines"][0], **kw)
        else:
            r = cl.clean_content(list(call["lines"]), **kw)
    except Exception:  # the implementation wraps its own failures in Exception
        return [RAISED]
    if entry == "str":
        if r is None:
            return []          # a pattern / the allow list dropped the text
        return [r] if isinstance(r, str) else shape("str-route", r)
    if not isinstance(r, list) or not all(isinstance(x, str) for x in r):
        return shape("list-route", r)
    return r


# --------------------------------------------------------------------------- generator

WORDS = ["alpha", "link", "up", "mtu", "inet", "srv", "from", "to", "via", "dev", "Zorg", "QUUX", "wibble", "xyzzy", "port", "GET"]
SAFE_KEYWORDS = ["Zorg", "QUUX", "wibble", "xyzzy", "link"]
DELIMS = [" ", " ", " ", ",", ";", "=", " [", "] ", "(", ")", "\"", " / "]
SAFE_FQDNS = ["myhost.example.org", "web01.corp.net", "node-7.lab.example.org", "localhost", "srv9.lab.io", "gw.internal"]
RISKY_FQDNS = ["db.internal", "a1.b2.io", "e.corp.net", "host.corp.net", "com.corp.net", "example.corp.net", "b.lab.io",
               "web01.example.com", "mail.example.com"]
LABELS = ["web01", "db", "mail", "node-7", "x", "a_b", "srv9", "gw", "host2", "example", "été"]


def int2ip(n):
    return "%d.%d.%d.%d" % ((n >> 24) & 255, (n >> 16) & 255, (n >> 8) & 255, n & 255)


def ip2int(s):
    a, b, c, d = (int(x) for x in s.split("."))
    return (a << 24) | (b << 16) | (c << 8) | d


START = ip2int("10.230.230.1")


def mac_obf(mac):
    """what Mac._mac2db issues, written from its description (sha1 of each lower-cased pair, same case and separator)"""
    sepc = "-" if "-" in mac else ":"
    up = mac.isupper()
    parts = [sha(h.lower())[:len(h)] for h in mac.split(sepc)]
    return sepc.join(p.upper() if up else p for p in parts)


def ip6_obf(ip):
    """what IPv6._ip2db issues, written from its description (each group: leading zeros kept, sha1 of the rest)"""
    def hx(h):
        n0 = h.lstrip("0").lower()
        if not n0:
            return "0" * len(h)
        return "0" * (len(h) - len(n0)) + sha(n0)[:len(n0)]
    return ":".join(hx(h) for h in ip.split(":"))


class Gen(object):
    def __init__(self, rng, fqdn, pool_bias=0.5, prone=True):
        self.rng = rng
        self.prone = prone      # draw originals from the substitute ranges (the collision findings live there)
        self.fqdn = fqdn
        self.short = fqdn.split(".")[0]
        self.domain = fqdn.split(".", 1)[1] if "." in fqdn else None
        self.pool = {"ip": [], "host": [], "mac": [], "ip6": []}
        self.bias = pool_bias

    def ip(self):
        r = self.rng
        k = r.random()
        if k < 0.30 and self.prone:
            return int2ip(START + r.randrange(0, 6))          # inside the substitute range
        if k < 0.36:
            return r.choice(["127.0.0.1", "10.230.231.1", "255.255.255.255", "1.1.1.1", "0.0.0.0", "10.23.23.1"])
        if k < 0.5:
            return "192.168.%d.%d" % (r.randrange(0, 3), r.randrange(0, 30))
        return "%d.%d.%d.%d" % (r.choice([1, 9, 10, 19, 100, 172, 199, 200, 249, 250, 255]), r.randrange(256),
                                r.choice([0, 1, 10, 100, 255]), r.randrange(256))

    def host(self):
        r = self.rng
        if self.domain is None:
            return r.choice(LABELS) + "." + r.choice(["corp.net", "lab.io"])
        k = r.random()
        if k < 0.2:
            return self.fqdn if r.random() < 0.7 else self.variant("host", self.fqdn)
        lab = r.choice(LABELS)
        if k < 0.3:
            lab = lab + "." + r.choice(LABELS)
        if k > 0.9 and self.prone:
            return "host%d.example.com" % r.randrange(1, 5)      # looks like a substitute
        return lab + "." + self.domain

    def mac(self):
        r = self.rng
        k = r.random()
        if k < 0.08:
            return r.choice(["00:00:00:00:00:00", "ff:ff:ff:ff:ff:ff", "FF:FF:FF:FF:FF:FF"])
        if k < 0.25 and self.pool["mac"] and self.prone:
            return mac_obf(r.choice(self.pool["mac"]))             # an address that IS a substitute
        sepc = r.choice([":", ":", "-"])
        m = sepc.join("%02x" % r.choice([0, 1, 0x52, 0x54, 0xaa, 0xbb, 0xfe, 0xff, r.randrange(256)]) for _ in range(6))
        return m.upper() if r.random() < 0.3 else m

    def ip6(self):
        r = self.rng
        if self.prone and self.pool["ip6"] and r.random() < 0.15:
            return ip6_obf(r.choice(self.pool["ip6"]))            # an address that IS a substitute
        return r.choice(["abcd::1", "fe80::5054:ff:fe12:3456", "2001:db8:0:0:1:2:3:4", "::1", "2001:0db8::0001/64",
                         "FE80::1", "ab:cd::%x" % r.randrange(0x10000), "1:2:3:4:5:6:7:%x" % r.randrange(0x100)])

    def variant(self, kind, v):
        """another SPELLING of a pool item: letter case, separator, leading zeros — a different original string"""
        r = self.rng
        if kind == "host":
            dom = self.domain if self.domain and v.endswith("." + self.domain) else None
            lab = v[:-len(dom) - 1] if dom else v
            k = r.randrange(6)
            if k == 0:
                lab = lab.upper()
            elif k == 1:
                lab = lab.lower()
            elif k == 2:
                lab = lab[:1].upper() + lab[1:]
            elif k == 3:
                return v.upper()
            elif k == 4 and dom:
                dom = dom.title()
            elif dom:
                dom = dom[:1].upper() + dom[1:]
            return lab + "." + dom if dom else lab
        if kind == "mac":
            return r.choice([v.upper(), v.lower(), v.replace(":", "-"), v.replace("-", ":"), v.upper().replace(":", "-")])
        if kind == "ip6":
            k = r.randrange(3)
            if k == 0:
                return v.upper()
            if k == 1:
                return v.lower()
            return re.sub(r"(^|:)([0-9a-fA-F]{1,3})(?=:|$)", lambda m: m.group(1) + "0" + m.group(2), v, count=1)
        return v

    def original(self, kind):
        p = self.pool[kind]
        if p and self.rng.random() < self.bias:
            v = self.rng.choice(p)
            if self.rng.random() < 0.25:
                v = self.variant(kind, v)
                if v not in p:
                    p.append(v)
            return v
        v = getattr(self, kind)()
        p.append(v)
        return v

    def width_line(self):
        """a netstat -neopa like line: addresses at line start / end / next to padding of every length"""
        r = self.rng

        def addr():
            k = r.random()
            if k < 0.3:
                a = r.choice(["1.2.3.4", "9.9.9.9", "8.8.4.4", "1.1.1.%d" % r.randrange(1, 9)])          # shorter than a substitute
            elif k < 0.5:
                a = r.choice(["10.123.123.1", "172.16.200.1", "192.168.0.%d" % r.randrange(10, 99)])  # 12-13: equal
            elif k < 0.8:
                a = "192.168.%d.%d" % (r.randrange(100, 256), r.randrange(100, 256))                  # longer
            else:
                a = self.original("ip")
            if a not in self.pool["ip"]:
                self.pool["ip"].append(a)
            if self.pool["ip"] and r.random() < 0.3:
                a = r.choice(self.pool["ip"])
            return a + r.choice(["", ":22", ":8080", ":*", ":5432"])
        if r.random() < 0.2:
            # only addresses that are longer than any substitute, blanks behind all but the last, which ends the line:
            # nothing is removed and no padding goes astray — the parser pads, or raises at the end of the line
            def long_addr():
                a = "1%02d.1%02d.1%02d.1%02d" % (r.randrange(100), r.randrange(100), r.randrange(100), r.randrange(100))
                if a not in self.pool["ip"]:
                    self.pool["ip"].append(a)
                return a
            text = r.choice(["tcp", "udp"]) + " " * r.choice([1, 5]) + "0 0 " + long_addr() + r.choice(["", ":22", ":8080"]) + \
                " " * r.choice([1, 2, 6]) + r.choice(["", "LISTEN" + " " * r.choice([1, 4])]) + long_addr()
            return text, [("junk", text)]
        pads = [0, 1, 1, 2, 3, 6, 12, 20]
        parts = []
        if r.random() < 0.8:
            parts.append(r.choice(["tcp", "tcp6", "udp"]) + " " * r.choice([1, 4, 8]) + "0" + " " * r.choice([1, 6]) + "0 ")
        parts.append(addr() + " " * r.choice(pads))
        if r.random() < 0.8:
            parts.append(addr() + " " * r.choice(pads))
        if r.random() < 0.6:
            parts.append(r.choice(["ESTABLISHED", "LISTEN", "TIME_WAIT"]) + " " * r.choice(pads) + r.choice(["", "0", "1234/sshd", "-"]))
        elif r.random() < 0.3:
            parts.append(addr())
        text = "".join(parts)
        if r.random() < 0.5:
            text = text.rstrip(" ")
        return text, [("junk", text)]

    def junk(self):
        r = self.rng
        k = r.randrange(9)
        if k == 0:
            return self.original("ip") + ":%d" % r.choice([22, 80, 8080])
        if k == 1:
            return r.choice(["eth0/", "x", "v", "=", "1."]) + self.original("ip") + r.choice(["", "5", ".7", "/24"])
        if k == 2:
            return self.short + r.choice(["", "-2", ".", "X"])
        if k == 3:
            return r.choice(["www.", "_", "-x."]) + self.original("host") + r.choice(["", ".", ":443", "x"])
        if k == 4:
            return r.choice(["MAC:", "x", "0"]) + self.original("mac") + r.choice(["", ":", "0"])
        if k == 5:
            return "".join(r.choice("ab1.:-_" + NONASCII) for _ in range(r.randrange(1, 8)))
        if k == 6:
            return self.original("ip6")
        if k == 7:
            return r.choice(["example.com", "host1", "keyword0", "10.230.230", "host"])
        return r.choice(WORDS) + r.choice(["", "1", "_x"])

    def line(self, allow_junk=True):
        """(text, tokens) with tokens = [(kind, text)]; delimiters never occur inside a token or a substitute"""
        r = self.rng
        n = r.choice([1, 2, 2, 3, 3, 4, 5, 7])
        toks = []
        for _ in range(n):
            k = r.random()
            if k < 0.28:
                toks.append(("ip", self.original("ip")))
            elif k < 0.46:
                toks.append(("host", self.original("host")))
            elif k < 0.58:
                toks.append(("mac", self.original("mac")))
            elif k < 0.62:
                toks.append(("short", self.short))
            elif k < 0.80 or not allow_junk:
                toks.append(("word", r.choice(WORDS)))
            else:
                toks.append(("junk", self.junk()))
        if r.random() < 0.18:
            # an IGNORED item before, between and after the real ones (`brd ff:ff:ff:ff:ff:ff peer 52:54:…`)
            kind = r.choice(["mac", "mac", "ip", "ip6"])
            ign = {"mac": ["ff:ff:ff:ff:ff:ff", "00:00:00:00:00:00", "FF:FF:FF:FF:FF:FF"], "ip": ["127.0.0.1"],
                   "ip6": ["ab:cd ::1", "fe80 ::5", "1:2 ::"]}[kind]
            reals = [self.original(kind) for _ in range(r.randrange(1, 4))]
            seq = [("junk" if kind == "ip6" else kind, x) for x in reals]
            for pos in r.sample(["before", "between", "after"], r.randrange(1, 4)):
                item = ("word" if kind != "ip6" else "junk", r.choice(ign))
                if pos == "before":
                    seq.insert(0, item)
                elif pos == "after":
                    seq.append(item)
                else:
                    seq.insert(max(1, len(seq) // 2), item)
            at = r.randrange(len(toks) + 1)
            toks[at:at] = [("word", r.choice(["brd", "peer", "lo"]))] + seq
        text = ""
        for i, (_, t) in enumerate(toks):
            if i:
                text += r.choice(DELIMS if i > 1 or toks[0][1] not in ("brd", "peer", "lo") else [" "])
            text += t
        return text, toks


def gen_history(rng, tier):
    prone = rng.random() < 0.4
    fqdn = rng.choice(RISKY_FQDNS if prone and rng.random() < 0.6 else SAFE_FQDNS)
    obf = 1 if rng.random() < 0.92 else 0
    cfg = {
        "fqdn": fqdn,
        "obfuscate": obf,
        "ipv6": 1 if rng.random() < 0.5 else 0,
        "hostname": 1 if obf and rng.random() < 0.85 else 0,
        "mac": 1 if rng.random() < 0.85 else 0,
        "keywords": rng.choice([None, [], ["Zorg"], ["QUUX", " wibble "], ["xyzzy", "Zorg", "xyzzy"], ["link", "Zorg"]]),
        "patterns": rng.choice([[], [], [], ["mtu"], ["GET", "via"]]),
    }
    if cfg["patterns"] and rng.random() < 0.3:
        cfg["patterns_regex"] = 1
    if rng.random() < 0.2:
        short = fqdn.split(".")[0]
        k = rng.randrange(5)
        sock = ({"gethostname": short, "getfqdn": fqdn, "ex": fqdn}, {"gethostname": fqdn, "getfqdn": fqdn, "ex": fqdn},
                {"gethostname": short, "getfqdn": fqdn, "ex": None}, {"gethostname": short, "getfqdn": "localhost", "ex": fqdn},
                {"gethostname": short, "getfqdn": "localhost.localdomain", "ex": None})[k]
        cfg["socket"] = sock
        cfg["fqdn"] = fqdn = real_hostname(sock)
        dom = fqdn.split(".", 1)[1] if "." in fqdn else "lab.io"
        cfg["display_name"] = rng.choice([None, "label-%d.%s" % (rng.randrange(9), dom), "Production DB", "shown.other.org"])
        cfg["ansible_host"] = rng.choice([None, "ansible-%d.%s" % (rng.randrange(9), dom), "jump.mgmt.net"])
    g = Gen(rng, fqdn, prone=prone)
    ncalls = rng.choice([1, 2, 3, 4, 6, 8, 12] if tier == "quick" else [1, 2, 4, 8, 12, 20, 30])
    calls = []
    widthy = rng.random() < 0.4
    for _ in range(ncalls):
        nl = rng.choice([0, 1, 1, 2, 3, 4, 6])
        width = 1 if widthy and rng.random() < 0.5 else 0
        lines, toks = [], []
        for _ in range(nl):
            if rng.random() < 0.06:
                lines.append("")
                toks.append([])
            else:
                t, tk = g.width_line() if width and rng.random() < 0.85 else g.line()
                lines.append(t)
                toks.append(tk)
        no = []
        if rng.random() < 0.2:
            no = rng.sample(["hostname", "ip", "ipv6", "keyword", "mac", "password"], rng.randrange(1, 4))
            if rng.random() < 0.25:
                no = no + [rng.choice(no), rng.choice(["bogus", "IP", "ipv4", ""])]      # duplicates, names of no obfuscator
        al = None
        if rng.random() < 0.12:
            al = dict((w, rng.choice([0, 1, 2, 5])) for w in rng.sample(WORDS + ["1", "."], rng.randrange(0, 3)))
        call = {"lines": lines, "tokens": toks, "no_obfuscate": no, "no_redact": 1 if rng.random() < 0.2 else 0,
                "allowlist": al, "width": width}
        # the other entry points share the databases: one string (split=False commands, fact strings), a file (clean_file)
        k = rng.random()
        if k < 0.10 and not width:
            if not lines:
                t, tk = g.line()
                call["lines"], call["tokens"] = [t], [tk]
            else:
                call["lines"], call["tokens"] = lines[:1], toks[:1]
            call["entry"] = "str"
        elif k < 0.22:
            call["entry"] = "file"
            call["width"] = 0
            call["fname"] = "netstat_-neopa" if width else rng.choice(["ip_addr", "messages", "netstat_-neopa.txt", "netstat_-neop", "spec"])
        calls.append(call)
    h = {"cfg": cfg, "calls": calls, "prone": prone}
    if rng.random() < 0.5:
        # reports in the middle of the run (collect.py takes one at the end; nothing forbids taking one earlier or twice)
        plan = {}
        for _ in range(rng.choice([1, 1, 2, 3])):
            pos = rng.randrange(-1, ncalls)
            plan.setdefault(str(pos), []).append(rng.choice(["arch", "arch", "insights-web01-20260929", "a b.c"]))
        h["reports"] = plan
    return h


# --------------------------------------------------------------------------- oracle

DELIM_CHARS = set(" ,;=[]()\"/")


def fields(text):
    out, cur = [], ""
    for c in text:
        if c in DELIM_CHARS:
            out.append(cur)
            cur = ""
        else:
            cur += c
    out.append(cur)
    return out


def canonical_ip(t):
    m = re.match(r"^(\d+)\.(\d+)\.(\d+)\.(\d+)$", t)
    if not m:
        return False
    parts = m.groups()
    return all(str(int(p)) == p and int(p) <= 255 for p in parts) and int(parts[0]) >= 1


def canonical_mac(t):
    return bool(re.match(r"^[0-9a-fA-F]{2}(:[0-9a-fA-F]{2}){5}$", t) or re.match(r"^[0-9a-fA-F]{2}(-[0-9a-fA-F]{2}){5}$", t))


def host_token(cfg, t):
    """a delimited host name of the system's domain (ASCII labels), the kind of original the property speaks about"""
    if "." not in cfg["fqdn"]:
        return False
    dom = cfg["fqdn"].split(".", 1)[1]
    return bool(re.match(r"^[A-Za-z0-9][A-Za-z0-9_-]*(\.[A-Za-z0-9_-]+)*\.%s$" % re.escape(dom), t))


def scan_inputs(cfg, line, seen):
    """originals of a line, found with scanners of our own (not the implementation's patterns)"""
    for q in re.findall(r"(?<![0-9])(?:[0-9]{1,3}\.){3}[0-9]{1,3}", line):
        if all(int(x) <= 255 for x in q.split(".")):
            seen["ip"].add(q)
    for m in re.finditer(r"(?i)(?<![0-9a-f])[0-9a-f]{2}(?:[:-][0-9a-f]{2}){5}", line):
        seen["mac"].add(m.group(0))
    if "." in cfg["fqdn"]:
        dom = cfg["fqdn"].split(".", 1)[1]
        for h in re.findall(r"[A-Za-z0-9_.-]+\.%s" % re.escape(dom), line):
            seen["host"].add(h.lstrip(".-"))


_TOK = re.compile(r"(?<![^\s,;=\[\]()\"/])([0-9]{1,3}(?:\.[0-9]{1,3}){3})(?![^\s,;=\[\]()\"/:])")


def addr_tokens(line):
    """canonical dotted quads that stand as a token of their own (optionally followed by :port) — our own scanner"""
    return [t for t in _TOK.findall(line) if canonical_ip(t)]


def width_deletes(line, k):
    """INPUT-ONLY predicate of the width-mode findings: on this line the keep-width step can damage text. Either it REMOVES
    characters: the line contains (anywhere, our own scan) an address that is shorter than a substitute that can have been
    issued by now — 10.230.230.1 + j with j < k, k = number of distinct addresses met so far in the history incl. this
    call. Or it pads in the wrong place: an address longer than a substitute is followed by text without any blank.
    On every other width-mode line blanks are inserted at a blank behind the address, or the parser raises."""
    longest = max(len(int2ip(START + j)) for j in range(max(1, min(k, 70000))))
    # every way to read an address that starts at a word boundary (an address needs one in front; it may stop before the
    # end of a digit run: '8.8.4.4192.168.1.2')
    for m in re.finditer(r"(?=((?:[0-9]{1,3}\.){3})([0-9]{1,3}))", line):
        if m.start() > 0 and (line[m.start() - 1].isalnum() or line[m.start() - 1] == "_"):
            continue
        for n in range(1, len(m.group(2)) + 1):
            a = m.group(1) + m.group(2)[:n]
            if canonical_ip(a) and a != "127.0.0.1":
                if len(a) < longest:
                    return True
                # the other way the step damages a line: an address LONGER than its substitute (12 characters at least)
                # with text but no blank behind it — the padding is then inserted before the LAST character of the line
                tail = line[m.start() + len(a):]
                if len(a) > 12 and tail != "" and " " not in tail:
                    return True
    return False


def glued_digit(line, ipmap):
    """INPUT-ONLY predicate of `ip-substitute-glued-digit`: the line has an IPv4 original of the history (read the way the
    recogniser reads it: word boundary in front, it may stop inside a digit run) DIRECTLY followed by digits, and its substitute
    followed by those digits spells a substitute issued to another original ('10.38.1.146' + '5' with 10.38.1.146 -> 10.230.230.1
    gives the text of 10.230.230.15)."""
    subs = set(ipmap.values())
    for m in re.finditer(r"(?=((?:[0-9]{1,3}\.){3})([0-9]{1,3}))", line):
        if m.start() > 0 and (line[m.start() - 1].isalnum() or line[m.start() - 1] == "_"):
            continue
        for n in range(1, len(m.group(2)) + 1):
            a = m.group(1) + m.group(2)[:n]
            rest = re.match(r"[0-9]+", line[m.start() + len(a):])
            if rest and canonical_ip(a) and a in ipmap and ipmap[a] + rest.group(0) in subs - {ipmap[a]}:
                return True
    return False


def classify(cfg, kind, seen, maps):
    """which listed finding (if any) the INPUT of this history is an instance of, for a failure about `kind`.
    All are one mechanism: the text of an original (or the short host name) occurs inside another original or
    inside a substitute that gets issued, so a later str.replace of the same line rewrites the wrong text."""
    short = cfg["fqdn"].split(".")[0]
    n_ip, n_host = len(seen["ip"]) + 2, len(seen["host"]) + 3
    cand = set(s for k in KINDS for _, s in maps[k]) | {"example.com", sha(cfg["fqdn"])[:12] + ".example.com"}
    cand |= set("host%d.example.com" % n for n in range(1, n_host + 1))
    cand |= set(int2ip(START + i) for i in range(n_ip))
    cand |= set(mac_obf(m) for m in seen["mac"])
    if cfg["obfuscate"] and cfg["hostname"] and any(short in c for c in cand):
        return "short-hostname-substring"
    if kind == "ip" and any(START <= ip2int(q) < START + n_ip for q in seen["ip"]):
        return "ip-substitute-collision"
    if kind == "mac" and any(mac_obf(a) in seen["mac"] for a in seen["mac"]):
        return "mac-substitute-collision"
    if kind in ("host", "hostname"):
        hosts = seen["host"] | {cfg["fqdn"]}
        if any(a != b and a in b for a in hosts for b in hosts):
            return "host-name-overlap"
        if any(a in "host%d.example.com" % n for a in hosts for n in range(1, n_host + 1)):
            return "host-substitute-collision"
    return None


class Oracle(object):
    """the property, stated on inputs, outputs and mapping() of the implementation"""

    def __init__(self, cfg):
        self.cfg = cfg
        self.prev = dict((k, []) for k in KINDS)
        self.inputs = []
        self.seen = {"ip": set(), "mac": set(), "host": set()}
        self.pending = []        # (call index, line index, field index, kind, original, shown)
        self.emitted = []        # (call index, call, output) of every call that returned
        self.pending6 = []       # (call index, line index, field, shown) of fields that may be IPv6 originals
        self.not_emitted = 0
        self.garbled = None

    def after_call(self, idx, call, out, maps, fail):
        cfg = self.cfg
        self.inputs += call["lines"]
        for l in call["lines"]:
            scan_inputs(cfg, l, self.seen)
        k_now = len(self.seen["ip"])
        if eff_width(call) and cfg["obfuscate"] and "ip" not in call["no_obfuscate"] \
                and any(width_deletes(l, k_now) for l in seen_lines(call)):
            self.garbled = "width-mode-garble"
        issued = maps
        for k in ("ip", "hostname", "mac", "ipv6"):
            cur = maps[k]
            # functional over the history: entries are never changed or dropped, one substitute per original
            if cur[:len(self.prev[k])] != self.prev[k]:
                fail("mapping of %s changed between calls: %r -> %r" % (k, self.prev[k], cur), k, issued)
            origs = [o for o, _ in cur]
            if len(set(origs)) != len(origs):
                fail("%s: an original is mapped twice: %r" % (k, cur), k, issued)
            if k in ("ip", "hostname"):
                subs = [s for _, s in cur]
                if len(set(subs)) != len(subs):
                    fail("%s: two originals share a substitute: %r" % (k, cur), k, issued)
            for o, s in cur[len(self.prev[k]):]:
                if not (k == "hostname" and o == cfg["fqdn"]) and not any(o in l for l in self.inputs):
                    # (width-mode garbling joins pieces of a line into text that was never there)
                    fail("%s mapping lists %r which occurs in no processed line" % (k, o), k, issued, self.garbled)
            self.prev[k] = list(cur)
        kprev = dict(self.prev["keyword"])
        for o, s in maps["keyword"]:
            if kprev.get(o, s) != s:
                fail("keyword %r mapped to %r then %r" % (o, kprev[o], s), "keyword", issued)
            if not any(o in l for l in self.inputs) and not any(o in x for k in KINDS for _, x in maps[k]):
                fail("keyword mapping lists %r which occurs nowhere" % o, "keyword", issued)
        self.prev["keyword"] = list(maps["keyword"])
        # a call that raised = the spec is not emitted: nothing of it can leak, nothing to check in its output
        if out == [RAISED]:
            self.not_emitted += 1
            return
        self.emitted.append((idx, call, out, len(self.seen["ip"])))
        # what the outputs show: only when every line survived and splits into the same fields
        if len(out) != len(call["lines"]) or eff_width(call):
            return
        stage_on = {
            "ip": cfg["obfuscate"] and "ip" not in call["no_obfuscate"],
            "host": cfg["obfuscate"] and cfg["hostname"] and "hostname" not in call["no_obfuscate"],
            "mac": cfg["obfuscate"] and cfg["mac"] and "mac" not in call["no_obfuscate"],
        }
        if "password" not in call["no_obfuscate"] and any("password" in l for l in call["lines"]):
            return
        short = cfg["fqdn"].split(".")[0]
        kw_on = bool(cfg["keywords"]) and "keyword" not in call["no_obfuscate"]
        ip6_on = cfg["obfuscate"] and cfg["ipv6"] and "ipv6" not in call["no_obfuscate"]
        for li, (src, dst) in enumerate(zip(call["lines"], out)):
            fi, fo = fields(src), fields(dst)
            if len(fi) != len(fo):
                continue
            for j, (a, b) in enumerate(zip(fi, fo)):
                kind = None
                if canonical_ip(a) and a != "127.0.0.1":
                    kind = "ip"
                elif canonical_mac(a) and not re.match(r"(?i)^(00:){5}00$|^(ff:){5}ff$", a):
                    kind = "mac"
                elif host_token(cfg, a):
                    kind = "host"
                # a token that contains the system's short name IS (by Hostname.parse_line's closing replace) an
                # occurrence of the system's name, and one that contains a keyword is the keyword stage's: the
                # later MAC / IPv4 stages never see the address
                if kind in ("ip", "mac") and stage_on["host"] and short and short in a:
                    continue
                if kind == "mac" and kw_on and any(k.strip() in a for k in cfg["keywords"]):
                    continue
                if kind and stage_on[kind]:
                    self.pending.append((idx, li, j, kind, a, b))
                elif kind is None and ":" in a and ip6_on and not (stage_on["host"] and short and short in a):
                    # (input-only) the address is followed by one character and '::': the IPv6 pattern then takes
                    # "<address><char>::<rest>" as ONE match, which the ignore list (white space) skips
                    swallowed = bool(re.search(re.escape(a) + r"[^.]::", src))
                    self.pending6.append((idx, li, a, b, swallowed))

    def finish(self, maps, fail):
        """every delimited original shows its mapped substitute — judged against the FINAL mapping"""
        issued = maps
        cfg = self.cfg
        m = {"ip": dict(maps["ip"]), "host": dict(maps["hostname"]), "mac": dict(maps["mac"])}
        macsubs = set(s for _, s in maps["mac"])
        shown = {}
        for idx, li, j, kind, a, b in self.pending:
            want = m[kind].get(a)
            if want is None:
                if kind == "mac" and a in macsubs and b == a:
                    continue      # the address coincides with an issued substitute: deliberately left alone
                fail("%s %r (call %d line %d) was processed but is not in the mapping; output shows %r" % (kind, a, idx, li, b),
                     kind, issued)
            elif b != want:
                fail("%s %r (call %d line %d) is shown as %r but the mapping says %r" % (kind, a, idx, li, b, want), kind, issued)
            if shown.setdefault((kind, a), b) != b:
                fail("%s %r is shown as %r and as %r" % (kind, a, shown[(kind, a)], b), kind, issued)
        # IPv6: a delimited field that IS an original of the mapping shows its substitute wherever the stage was on
        m6 = dict(maps["ipv6"])
        for idx, li, a, b, swallowed in self.pending6:
            if a in m6 and b != m6[a] and not (cfg["keywords"] and any(k.strip() in m6[a] or k.strip() in a for k in cfg["keywords"])):
                # (input-only) the substitute this original gets IS another original of the history: the guard against
                # re-obfuscating issued values is consulted only for addresses that are not originals yet
                # — as it stands or as a substring (a spelling with fewer leading zeros): `line.replace` of that other
                # original then rewrites text inside the substitute just inserted. Judged over the originals of the history.
                subs6 = [ip6_obf(o) for o in m6]
                collides = any(o in x for o in m6 for x in subs6)
                fail("ipv6 %r (call %d line %d) is shown as %r but the mapping says %r" % (a, idx, li, b, m6[a]), "ipv6", issued,
                     "ipv6-swallowed-by-ignored-match" if swallowed else "ipv6-substitute-collision" if collides else None)
        # different spellings of one MAC (case, separator) are different originals: where the documented scheme
        # (sha1 of each lower-cased pair, same case and separator) gives them different substitutes they must not share one
        cfg = self.cfg
        macs = maps["mac"]
        for x in range(len(macs)):
            for y in range(x + 1, len(macs)):
                (o1, s1), (o2, s2) = macs[x], macs[y]
                if re.sub(r"[:-]", "", o1).lower() == re.sub(r"[:-]", "", o2).lower() and s1 == s2 and mac_obf(o1) != mac_obf(o2):
                    fail("mac spellings %r and %r share the substitute %r" % (o1, o2, s1), "mac", issued)
        # GLOBAL over the emitted specs (IPv4): no emitted line carries, as an address token, an original that the mapping
        # says was replaced; and as many substitutes come out as occurrences went in
        cfg = self.cfg
        ipmap = dict(maps["ip"])
        subs = set(ipmap.values())
        for idx, call, out, k_now in self.emitted:
            if not (cfg["obfuscate"] and "ip" not in call["no_obfuscate"]):
                continue
            aligned = len(out) == len(call["lines"])
            wm = " (width mode)" if eff_width(call) else ""

            def excused(n):
                # ONLY by the input: a width=True call and a source line on which the keep-width step removes characters
                # (when lines were dropped the source line of an output line is unknown: any line of the call)
                src = [seen_lines(call)[n]] if aligned else seen_lines(call)
                return eff_width(call) and any(width_deletes(l, k_now) for l in src)
            for n, line in enumerate(out):
                for t in addr_tokens(line):
                    if t in ipmap and t not in subs and t != "127.0.0.1":
                        fail("call %d%s was emitted with the raw original %r which the mapping pairs with %r: %r" % (
                            idx, wm, t, ipmap[t], line), "ip", issued, "width-mode-raw-original" if excused(n) else None)
            if not aligned:
                continue
            if "password" not in call["no_obfuscate"] and any("password" in l for l in call["lines"]):
                continue
            for n, (li, lo) in enumerate(zip(call["lines"], out)):
                tin, tout = addr_tokens(li), addr_tokens(lo)
                for o in set(tin):
                    if o in ipmap and o != "127.0.0.1":
                        sub = ipmap[o]
                        want = tin.count(o) + tin.count(sub) - (tin.count(o) if o == sub else 0)
                        if tout.count(sub) != want:
                            fail("call %d%s: %d occurrence(s) of %r went in, %d of its substitute %r came out: %r -> %r" % (
                                idx, wm, tin.count(o), o, tout.count(sub), sub, li, lo),
                                "ip", issued, "width-mode-garble" if excused(n) else
                                "ip-substitute-glued-digit" if glued_digit(li, ipmap) else None)


# --------------------------------------------------------------------------- run one history

CURRENT_REAL_NAME = [None]

REPORT_FILES = (("ip", "-ip.csv", "Obfuscated IPv4,Original IPv4"), ("hostname", "-hostname.csv", "Obfuscated Hostname,Original Hostname"),
                ("mac", "-mac.csv", "Obfuscated MAC,Original MAC"), ("ipv6", "-ipv6.csv", "Obfuscated IPv6,Original IPv6"),
                ("keyword", "-keyword.csv", "Replaced Keyword,Original Keyword"))
FACT_KEYS = {"ip": "insights_client.obfuscated_ipv4", "ipv6": "insights_client.obfuscated_ipv6",
             "mac": "insights_client.obfuscated_mac", "hostname": "insights_client.obfuscated_hostname",
             "keyword": "insights_client.obfuscated_keyword"}
FLAG_KEYS = ("insights_client.obfuscate_ipv4_enabled", "insights_client.obfuscate_ipv6_enabled",
             "insights_client.obfuscate_hostname_enabled", "insights_client.obfuscate_mac_enabled")


def report_plan(h):
    """{position: [archive names]}: reports taken before the first call (-1) / after call i, besides the final one"""
    return dict((int(k), list(v)) for k, v in (h.get("reports") or {}).items())


def history_steps(h, tmp, want_reports=False, tag=""):
    """generator: one step (a call or the reports behind it) per next(); returns
    (impl outputs per call, impl mappings per call, failures [(desc, finding)], reports [(position, name, canonical)])"""
    cfg = h["cfg"]
    CURRENT_REAL_NAME[0] = cfg["fqdn"]
    facts = os.path.join(tmp, "facts%s.json" % tag)
    cl = mk_cleaner(cfg, facts)
    orc = Oracle(cfg)
    fails = []

    def fail(desc, kind, maps_now, finding=None):
        fails.append((desc, finding or (classify(cfg, kind, orc.seen, maps_now) if isinstance(maps_now, dict) else None)))
    outs, maps, reps = [], [], []
    plan = report_plan(h) if want_reports else {}
    prev_rows = {"#facts": facts}

    def rep_at(pos, names):
        for name in names:
            reps.append((pos, name, take_report(cl, cfg, tmp, name, fail, prev_rows)))
    try:
        rep_at(-1, plan.get(-1, []))
        yield
        for i, call in enumerate(h["calls"]):
            o = do_call(cl, call, tmp)
            mp = impl_mappings(cl)
            outs.append(o)
            maps.append(mp)
            orc.after_call(i, call, o, mp, fail)
            rep_at(i, plan.get(i, []))
            yield
        final = impl_mappings(cl)
        orc.finish(final, fail)
        if want_reports:
            rep_at(len(h["calls"]), ["arch"])
    finally:
        if prev_rows.get("#dir"):
            shutil.rmtree(prev_rows["#dir"], ignore_errors=True)
    return outs, maps, fails, reps


def drive(gen):
    while True:
        try:
            next(gen)
        except StopIteration as e:
            return e.value


def run_history(h, tmp, want_reports=False):
    return drive(history_steps(h, tmp, want_reports))


def run_interleaved(hs, tmp):
    """the histories on Cleaners that are alive at the same time, one step of each in turn"""
    gens = [history_steps(h, tmp, True, tag="_%d" % n) for n, h in enumerate(hs)]
    done = [None] * len(gens)
    while any(d is None for d in done):
        for n, g in enumerate(gens):
            if done[n] is None:
                try:
                    next(g)
                except StopIteration as e:
                    done[n] = e.value
    return done


def take_report(cl, cfg, tmp, name, fail, prev_rows):
    """one generate_report(name) into a fresh directory. ORACLE (implementation only): the facts lists and the CSV rows
    say what mapping() says at that moment, every original once, no IPv4 / host substitute twice, the flags are the
    configuration's switches and the files exist for exactly the enabled obfuscators, an earlier report of the same Cleaner
    is a prefix of this one, and taking a report changes no mapping. Returns the canonical report for the tie."""
    # ONE report directory per history (as /tmp is for the client): a later report of the same name replaces the earlier one
    rdir = prev_rows.get("#dir")
    facts_path = prev_rows.get("#facts") or os.path.join(tmp, "facts.json")
    if rdir is None:
        rdir = prev_rows["#dir"] = tempfile.mkdtemp(prefix="rep_", dir=tmp)
        if os.path.lexists(facts_path):
            os.remove(facts_path)
    before = impl_mappings(cl)
    cl.report_dir = rdir
    try:
        try:
            cl.generate_report(name)
        except Exception as e:
            fail("generate_report(%r) failed: %r" % (name, e), "report", None)
            return {"raised": type(e).__name__}
        after = impl_mappings(cl)
        if after != before:
            fail("generate_report(%r) changed mapping(): %r -> %r" % (name, before, after), "report", None)
        canon = {"flags": None, "sys": None, "facts": None, "files": {}}
        # ---- facts file
        facts = None
        try:
            with open(facts_path, encoding="utf-8") as fh:
                facts = json.load(fh)
        except (IOError, OSError, ValueError) as e:
            fail("generate_report(%r): the facts file is missing or not JSON: %r" % (name, e), "report", None)
        if isinstance(facts, dict):
            got = {}
            for k, fk in FACT_KEYS.items():
                try:
                    got[k] = [(m["original"], m["obfuscated"]) for m in json.loads(facts[fk])]
                except (KeyError, TypeError, ValueError) as e:
                    fail("facts file: entry %s missing or malformed: %r" % (fk, e), "report", None)
                    got[k] = None
            if got.get("keyword") is not None:
                got["keyword"] = sorted(got["keyword"])
            if got != after:
                fail("facts file differs from mapping(): %r vs %r" % (got, after), "report", None)
            flags = [facts.get(k) for k in FLAG_KEYS]
            want_flags = [bool(cfg["obfuscate"]), bool(cfg["obfuscate"] and cfg["ipv6"]), bool(cfg["obfuscate"] and cfg["hostname"]),
                          bool(cfg["obfuscate"] and cfg["mac"])]
            if flags != want_flags:
                fail("facts file: enabled flags (ipv4, ipv6, hostname, mac) are %r, the configuration says %r" % (flags, want_flags),
                     "report", None)
            if facts.get("insights_client.hostname") != cl.fqdn or cl.fqdn != cfg["fqdn"]:
                fail("the system name in the facts file / of the Cleaner is %r / %r, the system's real name is %r" % (
                    facts.get("insights_client.hostname"), cl.fqdn, cfg["fqdn"]), "report", None)
            canon["flags"] = "".join("1" if f is True else "0" if f is False else "?" for f in flags)
            canon["sys"] = facts.get("insights_client.hostname")
            canon["facts"] = [got[k] for k in KINDS]
        # ---- CSV files
        enabled = {"ip": cfg["obfuscate"], "hostname": cfg["obfuscate"] and cfg["hostname"], "mac": cfg["obfuscate"] and cfg["mac"],
                   "ipv6": cfg["obfuscate"] and cfg["ipv6"], "keyword": bool(cfg["keywords"])}
        for k, suffix, head in REPORT_FILES:
            path = os.path.join(rdir, name + suffix)
            if not os.path.isfile(path):
                canon["files"][k] = None
                if enabled[k]:
                    fail("generate_report(%r) wrote no %s although the %s obfuscator is on; directory has %r" % (
                        name, name + suffix, k, sorted(os.listdir(rdir))), "report", None)
                continue
            with open(path, "rb") as fh:
                raw = fh.read()
            try:
                txt = raw.decode("utf-8")
            except UnicodeDecodeError:
                fail("%s is not UTF-8: %r" % (name + suffix, raw[:200]), "report", None)
                canon["files"][k] = "<bytes>"
                continue
            if not enabled[k]:
                fail("generate_report(%r) wrote %s although the %s obfuscator is off: %r" % (name, name + suffix, k, txt[:300]),
                     "report", None)
            ls = txt.split("\n")
            if ls[-1] != "" or ls[0] != head:
                fail("%s: header / line structure %r" % (name + suffix, txt[:300]), "report", None)
            rows = [tuple(r.split(",", 1)) if "," in r else (r,) for r in ls[1:-1]]
            if k == "keyword":
                # written from a set: order free; each row pairs a keyword with its replacement (either column order)
                want = sorted(tuple(sorted(x)) for x in after[k])
                if sorted(tuple(sorted(r)) for r in rows) != want:
                    fail("%s rows %r differ from mapping() %r" % (name + suffix, rows, after[k]), "report", None)
                canon["files"][k] = "\n".join([ls[0]] + sorted(ls[1:-1]) + ls[-1:])
            else:
                want = [(sub, orig) for orig, sub in after[k]]
                if rows != want:
                    fail("%s rows %r differ from mapping() %r" % (name + suffix, rows, after[k]), "report", None)
                canon["files"][k] = txt
                origs = [r[1] for r in rows if len(r) == 2]
                if len(set(origs)) != len(origs):
                    fail("%s lists an original twice: %r" % (name + suffix, rows), "report", None)
                subs = [r[0] for r in rows]
                if k in ("ip", "hostname") and len(set(subs)) != len(subs):
                    fail("%s lists a substitute twice: %r" % (name + suffix, rows), "report", None)
                old = prev_rows.get(k)
                if old is not None and rows[:len(old)] != old:
                    fail("%s: an earlier report of this run listed %r, this one lists %r" % (name + suffix, old, rows), "report", None)
                prev_rows[k] = rows
        return canon
    finally:
        pass


def model_report(ans):
    """the model's `report` answer in the canonical shape of take_report"""
    fs = ans.split("\t")
    if fs[0] != "R" or len(fs) != 13:
        return {"bad": ans}

    def mp(f):
        return [] if f == "~" else [tuple(dec(x) for x in it.split(">")) for it in f.split(",")]
    facts = [mp(f) for f in fs[3:8]]
    facts[4] = sorted(facts[4])
    files = {}
    for k, f in zip(KINDS, fs[8:13]):
        if f == "N":
            files[k] = None
        else:
            txt = dec(f[2:])
            if k == "keyword":
                ls = txt.split("\n")
                txt = "\n".join([ls[0]] + sorted(ls[1:-1]) + ls[-1:])
            files[k] = txt
    return {"flags": fs[1], "sys": dec(fs[2]), "facts": facts, "files": files}


def model_lines(h, impl_maps=None, layout=None):
    """driver requests of a history; `layout` (a list) receives per step ("call", i, answer index, map index) /
    ("report", position, name, answer index), indices relative to the first returned line"""
    cfg = h["cfg"]
    all_lines = [l for c in h["calls"] for l in c["lines"]]
    cands = set([cfg["fqdn"]]) | hextets(all_lines)
    if impl_maps:
        for o, _ in impl_maps["ipv6"]:
            for x in o.split(":"):
                x = x.lstrip("0").lower()
                if x:
                    cands.add(x)
    lines = [sha_line(cands), init_line(cfg)]
    plan = report_plan(h)
    lay = layout if layout is not None else []

    def rep_at(pos, names):
        for name in names:
            lay.append(("report", pos, name, len(lines)))
            lines.append("report")
    rep_at(-1, plan.get(-1, []))
    for i, c in enumerate(h["calls"]):
        lines.extend(call_requests(c))
        lines.append("map")
        lay.append(("call", i, len(lines) - 2, len(lines) - 1))
        rep_at(i, plan.get(i, []))
    rep_at(len(h["calls"]), ["arch"])
    return lines


def model_case(h, ans, layout, start):
    outs, maps, reps = [], [], []
    for step in layout:
        if step[0] == "call":
            outs.append(call_answer(h["calls"][step[1]], ans[start + step[2]]))
            maps.append(model_mappings(ans[start + step[3]]))
        else:
            reps.append((step[1], step[2], model_report(ans[start + step[3]])))
    return outs, maps, reps


def canon_case(outs, maps, reps=()):
    return json.dumps([outs, [[m[k] for k in KINDS] for m in maps], [list(r) for r in reps]], ensure_ascii=False, sort_keys=True)


def strip_tokens(h):
    out = {"cfg": h["cfg"], "calls": [dict((k, v) for k, v in c.items() if k != "tokens") for c in h["calls"]]}
    if h.get("reports"):
        out["reports"] = h["reports"]
    return out


def load_witnesses():
    """corpus/C09/<finding id>.json: the witness history of every listed known finding"""
    out = {}
    cdir = os.path.join(VERIF, "corpus", "C09")
    for f in sorted(os.listdir(cdir)):
        if f.endswith(".json"):
            d = json.load(open(os.path.join(cdir, f), encoding="utf-8"))
            if d.get("finding"):
                out[d["finding"]] = d["case"]
    return out


WITNESSES = load_witnesses()


def recogniser_stream(chk, rng, n):
    """the Lean matcher against `re` on the live patterns (and on host regexes for several domains)"""
    g = Gen(rng, "web01.corp.net", 0.3)
    cases, impl, lines = [], [], list(setup_lines())
    base = len(lines)
    ic, hre = retok(host_pattern("corp.net"))
    lines.append("init\t%s\t1\t1\t1\t1\t~\t~\t%s" % (enc("web01.corp.net"), hre))
    base += 1
    pats = {"ip": (IPv4().pattern, 0, 1), "mac": (Mac().pattern, re.I, 1), "ip6": (IPv6().pattern, re.I, 1),
            "host": (host_pattern("corp.net"), 0, 0)}
    pw = password_mod.Password()
    pws = ["password", "password_x", "Password", "passwords"]
    seps = [":", "=", " = ", "==", ": \"", " --md5 ", " ", "=\"", " * ", " ** ", "", ":\t"]
    for _ in range(n):
        text, _t = g.line()
        k = rng.random()
        if k < 0.25:
            text = rng.choice(pws) + rng.choice(seps) + rng.choice(["s3cr3t", "a b", "Zorg!", "x=y", "", "1.2.3.4"]) + " " + text
        elif k < 0.35:
            text = text + " " + rng.choice(pws) + rng.choice(seps) + rng.choice(["tail", "a/b", "", "*"])
        for name, (pat, fl, grp) in pats.items():
            found = [m.group(grp) for m in re.finditer(pat, text, fl)]
            cases.append((name, text))
            impl.append(enc_l(found))
            lines.append("findall\t%s\t%d\t%s" % (name, grp, enc(text)))
        cases.append(("password", text))
        impl.append(enc(pw.parse_line(text)) if text else enc(text))
        lines.append("subpw\t%s" % enc(text))
        chk.count("recogniser-lines")
    ans = run_driver("C09", lines)
    chk.compare("recognisers-vs-re", cases, impl, ans[base:], show=lambda c: {"pattern": c[0], "line": c[1]})


def run(chk):
    rng = chk.rng
    quick = chk.tier == "quick"
    n_hist = 560 if quick else 5000
    n_rec = 600 if quick else 10000
    chk.rule = ("histories of 1-12 (thorough: 1-30) clean_content calls of 0-6 lines on one Cleaner; lines are delimiter-joined tokens: "
                "IPv4 / host names of the system's domain / MAC / IPv6 originals re-drawn from a per-history pool with probability 0.5 "
                "(same line, later lines, later calls), 30% of the IPv4 originals inside the substitute range 10.230.230.1+, MACs that "
                "equal issued substitutes, host names that look like substitutes, junk tokens (port suffixes, glued text, non-ASCII); "
                "25% of the pool draws are another SPELLING of a pool item (letter case of label / domain / whole name incl. the "
                "system's own, MAC case and separator, IPv6 case and leading zeros); 40% of the histories mix in width=True calls on "
                "netstat-like lines (addresses at line start / end / before 0-20 blanks, shorter / equal / longer than the substitute, "
                "repeated), a raising call = spec not emitted; "
                "every combination of the obfuscation switches, no_obfuscate, no_redact, allow lists, plain exclusion patterns; "
                "10% of the calls go through the single-string entry of clean_content, 12% through clean_file on a file holding the "
                "lines (a third of those files are named netstat_-neopa = width mode; names that merely contain it are ordinary); half "
                "of the histories take 1-3 extra generate_report() calls before the first call / between calls / twice in a row (archive "
                "names with blanks and dots, one report directory per history), every history ends with one; IPv6 originals that are "
                "issued substitutes; 60 (thorough 500) groups of 2-3 histories are run again on Cleaners that are alive at the same "
                "time, one step of each in turn (also the same history twice side by side); "
                "non-trivial = some obfuscator issued a substitute and the history was not seen before")
    chk.assumptions = [
        "Python's re on the cleaner's patterns: the model runs its own backtracking matcher on the pattern strings of the live "
        "modules (translated by the harness from re._parser's parse tree); validated against re.findall / Password.parse_line "
        "on generated lines (stream recognisers-vs-re); the theorems hold for ANY recogniser",
        "SHA-1 is uninterpreted: the harness passes hashlib's values as a table; the only fact used is that the system's "
        "substitute name does not start with 'host' (12 hex digits)",
        "socket.inet_aton/inet_ntoa on canonical dotted quads = ip2int/int2ip of the model (tied by the correspondence); "
        "issued addresses stay below 2^32 (theorem ip_keys_range gives the exact bound)",
        "regex-mode exclusion patterns are generated only as literal words (re.search = substring test, the model's plain form); "
        "lines longer than 1 MiB and characters whose str.lower()/upper() is not ASCII-trivial "
        "are outside the model; a clean_content call that raises (width mode) = the spec is not emitted",
        "clean_file on a file named netstat_-neopa = the model's width-mode clean_content on the file's LF-terminated lines, "
        "written back as their concatenation / removed when nothing is left / untouched when the call raised (composition "
        "stated by the harness, both parts are the model's); files are written with LF line ends only",
        "json.dump / json.loads of the facts file and the file system (one file per report name, replaced by a later report of "
        "the same name) are the harness's reading of the artefacts; Keyword reports come from a set: rows compared sorted",
    ]
    chk.lean()
    try:
        setup = setup_lines()
    except Unsupported as e:
        chk.tie_broken("translate", "a pattern of the live modules left the modelled regex fragment: %s" % e, None)
        return

    tmp = tempfile.mkdtemp(prefix="c09_")
    try:
        # ---- witnesses of the listed findings and corpus
        for fid, h in WITNESSES.items():
            outs, maps, fails, _ = run_history(h, tmp)
            hit = [d for d, f in fails if f == fid]
            chk.witnesses.append({"finding": fid, "input": [c["lines"] for c in h["calls"]], "output": outs,
                                  "mapping": maps[-1]["ip"] + maps[-1]["hostname"] + maps[-1]["mac"],
                                  "oracle": hit[:1], "reproduced": bool(hit)})
            if hit:
                chk.finding_reproduced(fid)
        corpus = []
        cdir = os.path.join(VERIF, "corpus", "C09")
        if os.path.isdir(cdir):
            for f in sorted(os.listdir(cdir)):
                if f.endswith(".json"):
                    d = json.load(open(os.path.join(cdir, f), encoding="utf-8"))
                    if not d.get("finding"):
                        corpus.append(d["case"])

        # ---- histories
        hs = list(WITNESSES.values()) + corpus + [gen_history(rng, chk.tier) for _ in range(n_hist)]
        lines = list(setup)
        spans, impl, seen = [], [], set()
        for i, h in enumerate(hs):
            outs, maps, fails, rep = run_history(h, tmp, want_reports=True)
            for desc, fid in fails:
                chk.failure(desc, strip_tokens(h), finding=fid)
                chk.count("oracle-failure:" + (fid or "UNLISTED"))
            lay = []
            ml = model_lines(h, maps[-1] if maps else None, lay)
            spans.append((len(lines), lay))
            lines += ml
            impl.append(canon_case(outs, maps, rep))
            chk.count("reports-taken", len(rep))
            for c in h["calls"]:
                chk.count("entry:" + c.get("entry", "list") + ("+width" if c.get("width") or is_width_file(c) else ""))
            key = json.dumps(strip_tokens(h), sort_keys=True)
            issued = sum(len(maps[-1][k]) for k in KINDS) if maps else 0
            chk.case(key, issued > 1 and key not in seen)
            seen.add(key)
            chk.count("calls:%d" % len(h["calls"]))
            chk.count("fqdn:" + h["cfg"]["fqdn"])
            if h["cfg"].get("patterns_regex"):
                chk.count("patterns:regex-form")
            if h["cfg"].get("socket"):
                chk.count("system-name:self-determined")
                if h["cfg"].get("display_name") or h["cfg"].get("ansible_host"):
                    chk.count("system-name:other-labels-configured")
            for k in KINDS:
                if maps and maps[-1][k]:
                    chk.count("issued-" + k, len(maps[-1][k]))
            if i in (len(WITNESSES) + 3, len(WITNESSES) + 4):
                chk.sample({"cfg": h["cfg"], "calls": [c["lines"] for c in h["calls"]][:3], "outputs": outs[:3],
                            "mapping": dict((k, v) for k, v in maps[-1].items() if v) if maps else {}})
        ans = run_driver("C09", lines)
        model = []
        for h, (start, lay) in zip(hs, spans):
            model.append(canon_case(*model_case(h, ans, lay, start)))
        chk.compare("histories(outputs+mappings+reports)", [strip_tokens(h) for h in hs], impl, model)

        # ---- several Cleaners alive at once: a history must give what it gives alone
        n_pairs = 60 if quick else 500
        small = [i for i, h in enumerate(hs) if 1 <= len(h["calls"]) <= 6]
        for _ in range(n_pairs):
            if len(small) < 3:
                break
            idx = rng.sample(small, rng.choice([2, 2, 3]))
            if rng.random() < 0.3:
                idx[1] = idx[0]                     # the same history twice, side by side
            group = [hs[i] for i in idx]
            res = run_interleaved(group, tmp)
            chk.count("interleaved-groups")
            for i, (outs, maps, fails, rep) in zip(idx, res):
                if canon_case(outs, maps, rep) != impl[i]:
                    chk.failure("a history gives other outputs / mappings / reports when other Cleaners are alive in the process "
                                "than it gives alone: alone %s, interleaved %s" % (impl[i][:600], canon_case(outs, maps, rep)[:600]),
                                {"interleaved": [strip_tokens(h) for h in group]})
                    chk.count("oracle-failure:interleaved")

        # ---- the matcher itself
        recogniser_stream(chk, rng, n_rec)
    finally:
        shutil.rmtree(tmp, ignore_errors=True)


def replay(data):
    """in this process first; when nothing shows, again in child interpreters under PYTHONHASHSEED 0..5 (a failure that
    comes from iterating a set of strings shows only under some hash seeds, and the run that found it had a random one)"""
    rc = replay_core(data)
    if rc or os.environ.get("C09_REPLAY_CHILD"):
        return rc
    import subprocess
    import sys
    from harness.common import REPO
    fd, path = tempfile.mkstemp(prefix="c09_replay_", suffix=".json")
    try:
        with os.fdopen(fd, "w") as fh:
            json.dump(data, fh)
        for k in range(6):
            env = dict(os.environ, PYTHONHASHSEED=str(k), C09_REPLAY_CHILD="1", PYTHONPATH=os.pathsep.join([REPO, VERIF]))
            pr = subprocess.run([sys.executable, "-c", "import sys, json\nfrom harness import c09\n"
                                 "sys.exit(c09.replay_core(json.load(open(sys.argv[1]))))", path],
                                env=env, cwd=VERIF, stdout=subprocess.PIPE, stderr=subprocess.STDOUT, universal_newlines=True)
            if pr.returncode == 1:
                print("under PYTHONHASHSEED=%d:" % k)
                print("\n".join(pr.stdout.splitlines()[-12:]))
                return 1
    finally:
        os.remove(path)
    return 0


def replay_core(data):
    h = data["case"]
    if "interleaved" in h:
        tmp = tempfile.mkdtemp(prefix="c09_")
        try:
            group = h["interleaved"]
            alone = [canon_case(*(lambda r: (r[0], r[1], r[3]))(run_history(g, tmp, want_reports=True))) for g in group]
            both = [canon_case(o, m, r) for o, m, f, r in run_interleaved(group, tmp)]
            bad = 0
            for n, (a, b) in enumerate(zip(alone, both)):
                print("history %d alone      : %s" % (n, a[:1500]))
                print("history %d interleaved: %s%s" % (n, b[:1500], "" if a == b else "   <-- differs"))
                bad |= a != b
            print("property violated on this input" if bad else "property holds on this input")
            return 1 if bad else 0
        finally:
            shutil.rmtree(tmp, ignore_errors=True)
    print("replaying", json.dumps(h, ensure_ascii=False)[:2000])
    tmp = tempfile.mkdtemp(prefix="c09_")
    try:
        outs, maps, fails, reps = run_history(h, tmp, want_reports=True)
        lay = []
        ml = model_lines(h, maps[-1] if maps else None, lay)
        ans = run_driver("C09", setup_lines() + ml)
        mouts, mmaps, mreps = model_case(h, ans, lay, len(setup_lines()))
        for j, c in enumerate(h["calls"]):
            print("call %d in   : %r%s" % (j, c["lines"], " (%s)" % c["entry"] if c.get("entry") else ""))
            print("        impl : %r" % (outs[j],))
            print("        model: %r%s" % (mouts[j], "" if mouts[j] == outs[j] else "   <-- differs"))
            if mmaps[j] != maps[j]:
                print("        mapping impl %r\n        mapping model %r   <-- differs" % (maps[j], mmaps[j]))
        for (pos, name, ri), (_, _, rm) in zip(reps, mreps):
            same = json.dumps(ri, sort_keys=True) == json.dumps(rm, sort_keys=True)
            print("report %r after call %d: %s" % (name, pos, "equal to the model" if same else "impl %r\n        model %r   <-- differs" % (ri, rm)))
        print("final mapping:", json.dumps(maps[-1] if maps else {}, ensure_ascii=False))
        unlisted = [d for d, fid in fails if fid is None]
        for d, fid in fails:
            print("oracle:", d, "[%s]" % (fid or "UNLISTED"))
        bad = bool(unlisted)
        print("property violated on this input" if bad else "property holds on this input (or only listed findings)")
        return 1 if bad else 0
    finally:
        shutil.rmtree(tmp, ignore_errors=True)
